"""C13 -- masks: analytic shapes and voxel-wise set algebra.

Change a (kind 4, tables instead of literals): the regular expressions of parse_shape_string live in the module-level
table _SHAPE_PATTERNS and the if/elif chain of generate_mask is a lookup in the table _SHAPE_BUILDERS.

The demo checks the property against independent computations (integer arithmetic on index grids, boolean algebra)
over random and boundary inputs, and compares every function of the tree with the kept copy of the original
functions (ORIG_SRC) on the same inputs: same values, dtype, shape, or the same exception type.
Run:  cd /tmp/wt7/C13 && /venv/bin/python /tmp/seedsS/C13/a/demo.py      (PASS + exit 0 on the clean tree and with the patch)
"""
import sys
import os

sys.path.insert(0, os.getcwd())

CHANGE = "a"

ORIG_SRC = r'''
def parse_shape_string(shape_string):

    # Define regular expressions for each shape type
    patterns = {
        "sphere": r"^sphere_r(\d+)$",
        "cylinder": r"^cylinder_r(\d+)_h(\d+)$",
        "s_shell": r"^s_shell_r(\d+)_s(\d+)$",
        "ellipsoid": r"^ellipsoid_rx(\d+)_ry(\d+)_rz(\d+)$",
        "e_shell": r"^e_shell_rx(\d+)_ry(\d+)_rz(\d+)_s(\d+)$",
    }

    for shape_type, pattern in patterns.items():
        match = re.match(pattern, shape_string)
        if match:
            numbers = [int(num) for num in match.groups()]
            return shape_type, numbers

    raise ValueError(f"String '{shape_string}' does not match any known shape pattern.")


def generate_mask(mask_shape, mask_size=None, mask_expansion=4):

    shape, specs = parse_shape_string(mask_shape)

    if mask_size is None:
        mask_size = 2 * np.max(specs) + mask_expansion
        mask_size = math.ceil(mask_size / 2) * 2

    if shape == "sphere":
        mask = spherical_mask(mask_size=mask_size, radius=specs[0])
    elif shape == "cylinder":
        mask = cylindrical_mask(mask_size=mask_size, radius=specs[0], height=specs[1])
    elif shape == "s_shell":
        mask_size = math.ceil((mask_size + specs[1]) / 2) * 2
        mask = spherical_shell_mask(mask_size=mask_size, shell_thickness=specs[1], radius=specs[0])
    elif shape == "ellipsoid":
        mask = ellipsoid_mask(mask_size=mask_size, radii=specs)
    elif shape == "e_shell":
        mask = ellipsoid_shell_mask(mask_size=mask_size, shell_thickness=specs[3], radii=specs[0:3])

    return mask


def add_gaussian(input_mask, sigma):

    if sigma == 0:
        return input_mask
    else:
        return filters.gaussian(input_mask, sigma=sigma)


def write_out(input_mask, output_name):

    if output_name is not None:
        cryomap.write(input_mask, output_name, data_type=np.single)


def rotate(input_mask, angles):

    if angles is None or not np.any(angles):
        return input_mask
    else:
        return cryomap.rotate(input_mask, rotation_angles=angles)


def postprocess(input_mask, gaussian, angles, output_name):

    mask = add_gaussian(input_mask, gaussian)
    mask = rotate(mask, angles)
    write_out(mask, output_name)

    return mask


def union(mask_list, output_name=None):

    final_mask = np.zeros(cryomap.read(mask_list[0]).shape)

    for m in mask_list:
        mask = cryomap.read(m)
        final_mask += mask

    final_mask = np.clip(final_mask, 0.0, 1.0)

    write_out(final_mask, output_name)

    return final_mask


def intersection(mask_list, output_name=None):
    final_mask = np.ones(cryomap.read(mask_list[0]).shape)

    for m in mask_list:
        mask = cryomap.read(m)
        final_mask *= mask

    final_mask = np.clip(final_mask, 0.0, 1.0)
    write_out(final_mask, output_name)

    return final_mask


def subtraction(mask_list, output_name=None):
    # in floating point, like union and intersection: unsigned masks would wrap around at 0 - 1, boolean ones have no `-`
    final_mask = cryomap.read(mask_list[0]).astype(float)

    for m in mask_list[1:]:
        mask = cryomap.read(m)
        final_mask -= mask

    final_mask = np.clip(final_mask, 0.0, 1.0)
    write_out(final_mask, output_name)

    return final_mask


def difference(mask_list, output_name=None):

    union_mask = union(mask_list)
    inter_mask = intersection(mask_list)

    final_mask = union_mask - inter_mask
    final_mask = np.clip(final_mask, 0.0, 1.0)
    write_out(final_mask, output_name)

    return final_mask


def spherical_shell_mask(mask_size, shell_thickness, radius=None, center=None, gaussian=0.0, output_name=None):

    mask_size = get_correct_format(mask_size)
    center = get_correct_format(center, reference_size=mask_size)

    if radius is None:
        radius = np.amin(mask_size) // 2

    shell_thickness = shell_thickness / 2

    sp1 = spherical_mask(mask_size, radius=radius + shell_thickness, center=center)
    sp2 = spherical_mask(mask_size, radius=radius - shell_thickness, center=center)

    shell_mask = sp1 - sp2

    shell_mask = postprocess(shell_mask, gaussian, np.asarray([0, 0, 0]), output_name)

    return shell_mask


def spherical_mask(mask_size, radius=None, center=None, gaussian=0.0, gaussian_outwards=True, output_name=None):

    mask_size = get_correct_format(mask_size)
    center = get_correct_format(center, reference_size=mask_size)

    if radius is None:
        radius = np.amin(mask_size) // 2

    radius = preprocess_params(radius, gaussian, gaussian_outwards)

    x, y, z = np.mgrid[0 : mask_size[0] : 1, 0 : mask_size[1] : 1, 0 : mask_size[2] : 1]
    mask = np.sqrt((x - center[0]) ** 2 + (y - center[1]) ** 2 + (z - center[2]) ** 2)
    mask[mask > radius] = 0
    mask[mask > 0] = 1
    if radius >= 0:
        # the distance map is zero at the center, so the center has to be set explicitly (a negative radius is an empty sphere)
        mask[center[0], center[1], center[2]] = 1

    mask = postprocess(mask, gaussian, np.asarray([0, 0, 0]), output_name)

    return mask


def cylindrical_mask(
    mask_size,
    radius=None,
    height=None,
    center=None,
    gaussian=0,
    gaussian_outwards=True,
    angles=None,
    output_name=None,
):
    mask_size = get_correct_format(mask_size)
    center = get_correct_format(center, reference_size=mask_size)

    if radius is None:
        radius = np.amin(mask_size[:2]) // 2  # only x, y are relevant

    if height is None:
        height = mask_size[2]

    height = height // 2

    radius = preprocess_params(radius, gaussian, gaussian_outwards)
    height = preprocess_params(height, gaussian, gaussian_outwards)

    x, y = np.mgrid[0 : mask_size[0] : 1, 0 : mask_size[1] : 1]
    mask_xy = np.sqrt((x - center[0]) ** 2 + (y - center[1]) ** 2)
    mask_xy[mask_xy > radius] = 0
    mask_xy[mask_xy > 0] = 1
    mask_xy[center[0], center[1]] = 1

    mask = np.zeros(mask_size)
    mask[:, :, center[2] - height : center[2] + height + 1] = np.tile(mask_xy[:, :, None], (1, 1, height * 2 + 1))

    mask = postprocess(mask, gaussian, angles, output_name)

    return mask


def get_correct_format(input_value, reference_size=None):

    def format_input(unformatted_value):
        if isinstance(unformatted_value, (tuple, list, np.ndarray)):
            if len(unformatted_value) == 3:
                return np.asarray(unformatted_value).astype(int)
            elif len(unformatted_value) == 1:
                return np.full((3,), unformatted_value).astype(int)
            else:
                raise ValueError("The size have to be a single number or have to have length of 3!")
        elif isinstance(unformatted_value, (float, int)):
            return np.full((3,), unformatted_value).astype(int)

    if input_value is not None:
        size_correct_format = format_input(input_value)
    elif reference_size is not None:
        box_size = format_input(reference_size)
        size_correct_format = box_size // 2
    else:
        raise ValueError("Either input_size or referene_size have to be specified")

    return size_correct_format


def ellipsoid_shell_mask(mask_size, shell_thickness, radii, center=None, gaussian=0.0, angles=None, output_name=None):

    mask_size = get_correct_format(mask_size)
    center = get_correct_format(center, reference_size=mask_size)
    radii = get_correct_format(radii, reference_size=mask_size)

    shell_thickness = shell_thickness / 2

    e1 = ellipsoid_mask(mask_size, radii=radii + shell_thickness, center=center)
    e2 = ellipsoid_mask(mask_size, radii=radii - shell_thickness, center=center)

    shell_mask = e1 & ~e2

    shell_mask = postprocess(shell_mask, gaussian, angles, output_name)

    return shell_mask


def ellipsoid_mask(
    mask_size,
    radii=None,
    center=None,
    gaussian=0,
    output_name=None,
    angles=None,
    gaussian_outwards=True,
):
    mask_shape = get_correct_format(mask_size)
    center = get_correct_format(center, reference_size=mask_shape)
    radii = get_correct_format(radii, reference_size=mask_shape)

    radii = preprocess_params(radii, gaussian, gaussian_outwards)

    # Build a grid and get its points as a list
    xi = tuple(np.linspace(1, s, s) - np.floor(0.5 * s) for s in mask_shape)

    # Build a list of points forming the grid
    xi = np.meshgrid(*xi, indexing="ij")
    points = np.array(xi).reshape(3, -1)[::-1]

    # Find grid center
    grid_center = 0.5 * mask_shape - center
    grid_center = np.tile(grid_center.reshape(3, 1), (1, points.shape[1]))

    # Reorder coordinates back to ZYX to match the order of numpy array axis
    points = points[:, ::-1]
    grid_center = grid_center[::-1]
    radii = radii[::-1]
    radii = np.tile(radii.reshape(3, 1), (1, points.shape[1]))

    # Draw the ellipsoid
    # dx**2 + dy**2 + dz**2 = r**2
    # dx**2 / r**2 + dy**2 / r**2 + dz**2 / r**2 = 1
    ellipsoid = (points - grid_center) ** 2
    ellipsoid = ellipsoid / radii**2
    # Sum dx, dy, dz / r**2
    distance = np.sum(ellipsoid, axis=0).reshape(mask_shape)

    mask = distance <= 1

    mask = postprocess(mask, gaussian, angles, output_name)

    return mask


def preprocess_params(radius, gaussian, gaussian_outwards):

    blur_factor = 5.0

    if gaussian != 0.0 and gaussian_outwards:
        new_radius = np.ceil(radius + gaussian * blur_factor).astype(int)
    else:
        new_radius = radius

    return new_radius
'''


import types
import math
import tempfile
import shutil
import inspect
import warnings

warnings.filterwarnings("ignore")

import numpy as np
from cryocat import cryomask as cm
from cryocat import cryomap


def load_orig():
    """The original functions, executed in a namespace of their own: calls between them stay among the originals."""
    ns = {k: v for k, v in vars(cm).items() if not k.startswith("__")}
    ns["__name__"] = "orig_cryomask"
    exec(compile(ORIG_SRC, "<orig_cryomask>", "exec"), ns)
    return types.SimpleNamespace(**ns)


og = load_orig()
rng = np.random.default_rng(int(os.environ.get("DEMO_SEED", "13")))
FAIL = []
COUNT = {}


def note(key, n=1):
    COUNT[key] = COUNT.get(key, 0) + n


def fail(msg):
    FAIL.append(msg)
    if len(FAIL) <= 25:
        print("FAIL:", msg)


def check(cond, msg):
    if not cond:
        fail(msg)
    return cond


def identical(a, b):
    if isinstance(a, np.ndarray) or isinstance(b, np.ndarray):
        return (
            isinstance(a, np.ndarray)
            and isinstance(b, np.ndarray)
            and a.dtype == b.dtype
            and a.shape == b.shape
            and np.array_equal(a, b, equal_nan=(a.dtype.kind == "f"))
        )
    return type(a) is type(b) and a == b


def both(name, *args, **kwargs):
    """Runs the function of the tree and the kept original on the same input; the outcomes (value, dtype, shape or the
    type of the exception) have to be the same.  Returns (ok, value) with ok False when both raised."""
    res = []
    for mod in (cm, og):
        try:
            res.append(("ok", getattr(mod, name)(*args, **kwargs)))
        except Exception as exc:  # noqa
            res.append(("exc", type(exc)))
    (k1, v1), (k2, v2) = res
    label = "%s%s%s" % (name, args if len(str(args)) < 160 else "(...)", kwargs if len(str(kwargs)) < 200 else "{...}")
    note("compared with original: " + name)
    if k1 != k2:
        fail("tree %s / original %s for %s" % (res[0], res[1], label))
        return False, None
    if k1 == "exc":
        check(v1 is v2, "exception %s became %s for %s" % (v2.__name__, v1.__name__, label))
        note("both raise: " + name)
        return False, None
    check(identical(v1, v2), "result differs from the original for " + label)
    return True, v1


# ----------------------------------------------------------------------------------------------- independent shapes
def grid(size):
    return np.ogrid[0 : size[0], 0 : size[1], 0 : size[2]]


def ref_sphere(size, c, r):
    i, j, k = grid(size)
    if r < 0:
        return np.zeros(tuple(size), dtype=bool)
    return ((i - c[0]) ** 2 + (j - c[1]) ** 2 + (k - c[2]) ** 2) <= r * r


def ref_cylinder(size, c, r, h):
    i, j, k = grid(size)
    return (((i - c[0]) ** 2 + (j - c[1]) ** 2) <= r * r) & (np.abs(k - c[2]) <= h // 2)


def ref_ellipsoid(size, c, radii):
    """exact integer arithmetic; returns (inside or on the surface, exactly on the surface)"""
    i, j, k = grid(size)
    rx, ry, rz = (int(v) ** 2 for v in radii)
    lhs = (
        ((i - c[0]) ** 2).astype(np.int64) * (ry * rz)
        + ((j - c[1]) ** 2).astype(np.int64) * (rx * rz)
        + ((k - c[2]) ** 2).astype(np.int64) * (rx * ry)
    )
    rhs = rx * ry * rz
    return lhs <= rhs, lhs == rhs


def grown(r, g, outwards):
    if g != 0 and outwards:
        return np.ceil(np.asarray(r) + g * 5.0).astype(int)
    return r


def rand_size(even=False, lo=6, hi=48):
    # non-cubic, biased to small boxes to keep the run short, with the extremes present
    s = rng.choice([lo, lo + 1, 9, 10, 12, 15, 16, 20, 21, 24, 31, 32, 40, hi - 1, hi], size=3)
    if even:
        s = s + (s % 2)
        s = np.minimum(s, hi)
    return [int(v) for v in s]


def rand_center(size):
    c = [int(rng.integers(0, s)) for s in size]
    for a in range(3):
        u = rng.random()
        if u < 0.12:
            c[a] = 0
        elif u < 0.24:
            c[a] = size[a] - 1
        elif u < 0.45:
            c[a] = size[a] // 2
    return c


GAUSS = [0, 0.0, 0.5, 1, 1.0, 1.7, 2, 3, 3.0]
TOL = 1e-9


def check_soft(mask, core, g, outwards, label, core_tol=1e-3):
    m = np.asarray(mask, dtype=float)
    check(m.min() >= -TOL and m.max() <= 1 + TOL, "values outside [0,1] for " + label)
    if outwards and core is not None and core.any():
        check(m[core].min() >= 1 - core_tol, "core below 1 - %g (%.6f) for %s" % (core_tol, m[core].min(), label))


# ----------------------------------------------------------------------------------------------- spheres
def test_spheres(n=130):
    for t in range(n):
        size = rand_size()
        c = rand_center(size)
        r = rng.choice([1, 2, 2.5, 3, 4, 5, 6.5, 7, 9, 12, 17, 24, 30, 49, 60, 90])
        r = float(r) if r != int(r) else int(r)
        label = "sphere size=%s c=%s r=%s" % (size, c, r)
        ok, m = both("spherical_mask", size, radius=r, center=c)
        if check(ok, "sphere raised: " + label):
            check(m.dtype == np.float64 and np.array_equal(m, ref_sphere(size, c, r).astype(float)), "membership " + label)
            note("hard spheres checked")
        g = GAUSS[t % len(GAUSS)]
        for outwards in (True, False):
            ok, s = both("spherical_mask", size, radius=r, center=c, gaussian=g, gaussian_outwards=outwards)
            if check(ok, "soft sphere raised: " + label):
                check_soft(s, ref_sphere(size, c, r), g, outwards, label + " g=%s out=%s" % (g, outwards))
                if g == 0:
                    check(np.array_equal(s, m), "gaussian 0 changes the mask: " + label)
                elif outwards:
                    # the blurred solid is the hard sphere of the grown radius, blurred
                    hard = ref_sphere(size, c, grown(r, g, True)).astype(float)
                    check(np.allclose(s, cm.filters.gaussian(hard, sigma=g), atol=1e-12), "grown radius " + label)
                note("soft spheres checked")
    # defaults: centre of the box, half of the smallest dimension; single number = cubic box; positional use
    for size in (6, 7, 11, 16, [6, 48, 9], (9, 8, 7), np.array([10, 12, 14]), [12], 33, 48):
        ok, m = both("spherical_mask", size)
        sz = [int(v) for v in np.full((3,), size)] if np.ndim(size) == 0 or len(size) == 1 else [int(v) for v in size]
        if check(ok, "default sphere raised %s" % (size,)):
            check(np.array_equal(m, ref_sphere(sz, [v // 2 for v in sz], min(sz) // 2).astype(float)), "default sphere %s" % (size,))
        both("spherical_mask", size, 3, None, 0.0, True, None)
        both("spherical_mask", size, 3, [2, 3, 4], 1, False)
        both("spherical_mask", size, radius=0)
        both("spherical_mask", size, radius=-1)
    # exact thresholds: 3-4-5 triangles lie exactly on the surface
    m = cm.spherical_mask([20, 21, 22], radius=5, center=[10, 10, 10])
    check(m[13, 14, 10] == 1 and m[10, 13, 14] == 1 and m[15, 10, 10] == 1 and m[14, 14, 10] == 0, "3-4-5 on the surface")


# ----------------------------------------------------------------------------------------------- cylinders
def test_cylinders(n=110):
    for t in range(n):
        size = rand_size()
        c = rand_center(size)
        r = int(rng.choice([1, 2, 3, 4, 5, 7, 9, 12, 17, 24, 30, 49, 70]))
        room = min(c[2], size[2] - 1 - c[2])
        u = rng.random()
        if u < 0.7:
            h = int(rng.integers(1, 2 * room + 2))  # fits
        elif u < 0.8:
            h = 2 * room + 1  # the tallest that fits
        elif u < 0.9:
            h = 2 * room + 2  # the first that does not fit
        else:
            h = int(rng.integers(size[2], 2 * size[2] + 3))  # beyond the box
        label = "cylinder size=%s c=%s r=%s h=%s" % (size, c, r, h)
        fits = h // 2 <= room
        ok, m = both("cylindrical_mask", size, radius=r, height=h, center=c)
        check(ok == fits, "fits=%s but returned=%s: %s" % (fits, ok, label))
        if ok:
            check(m.dtype == np.float64 and np.array_equal(m, ref_cylinder(size, c, r, h).astype(float)), "membership " + label)
            note("hard cylinders checked")
        g = GAUSS[t % len(GAUSS)]
        ang = [None, [0, 0, 0], np.zeros(3), np.asarray([0, 0, 0]), (0.0, 0.0, 0.0)][t % 5]
        for outwards in (True, False):
            ok2, s = both("cylindrical_mask", size, radius=r, height=h, center=c, gaussian=g, gaussian_outwards=outwards, angles=ang)
            if ok2:
                check_soft(s, ref_cylinder(size, c, r, h), g, outwards, label + " g=%s out=%s" % (g, outwards))
                if g == 0:
                    check(ok and np.array_equal(s, m), "gaussian 0 / zero angles change the mask: " + label)
                note("soft cylinders checked")
    # tall boxes so that the grown cylinders fit, blur outwards keeps the core
    for t in range(40):
        size = [int(rng.integers(6, 30)), int(rng.integers(6, 30)), int(rng.integers(40, 49))]
        c = [int(rng.integers(0, size[0])), int(rng.integers(0, size[1])), size[2] // 2 + int(rng.integers(-2, 3))]
        r, h = int(rng.integers(1, 20)), int(rng.integers(1, 9))
        g = [0.5, 1, 1.5, 2, 3][t % 5]
        ok, s = both("cylindrical_mask", size, radius=r, height=h, center=c, gaussian=g, gaussian_outwards=True)
        if ok:
            check_soft(s, ref_cylinder(size, c, r, h), g, True, "tall cylinder %s %s r=%s h=%s g=%s" % (size, c, r, h, g))
            hh = int(grown(h // 2, g, True))
            hard = ref_cylinder(size, c, int(grown(r, g, True)), 2 * hh).astype(float)
            check(np.allclose(s, cm.filters.gaussian(hard, sigma=g), atol=1e-12), "grown cylinder")
            note("soft cylinders (tall boxes) checked")
    for size in ([7, 9, 11], [10, 12, 13], 9, [6, 6, 47], 10, [8, 8, 8]):
        both("cylindrical_mask", size)  # defaults: odd z fits, even z does not
        both("cylindrical_mask", size, 2, 3)
        both("cylindrical_mask", size, 2, 3, None, 0, True, None, None)


# ----------------------------------------------------------------------------------------------- ellipsoids
def test_ellipsoids(n=90):
    ties = 0
    for t in range(n):
        size = rand_size(even=True)
        c = rand_center(size)
        radii = [int(v) for v in rng.choice([1, 2, 3, 4, 5, 6, 8, 10, 13, 15, 20, 25, 30, 50, 65], size=3)]
        if t % 9 == 0:
            radii = [5, 5, 5]  # 3-4-5 voxels exactly on the surface
        label = "ellipsoid size=%s c=%s radii=%s" % (size, c, radii)
        ok, m = both("ellipsoid_mask", size, radii=radii, center=c)
        if check(ok, "ellipsoid raised: " + label):
            inside, on = ref_ellipsoid(size, c, radii)
            check(m.dtype == bool and m.shape == tuple(size), "type/shape " + label)
            # voxels exactly on the surface depend on the rounding of three quotients; all the others are exact
            check(np.array_equal(m[~on], inside[~on]), "membership " + label)
            ties += int(np.sum(m[on] != inside[on]))
            note("hard ellipsoids checked")
            note("surface voxels (exact arithmetic)", int(on.sum()))
        g = GAUSS[t % len(GAUSS)]
        ang = [None, [0, 0, 0], np.zeros(3)][t % 3]
        for outwards in (True, False):
            ok, s = both("ellipsoid_mask", size, radii=radii, center=c, gaussian=g, gaussian_outwards=outwards, angles=ang)
            if check(ok, "soft ellipsoid raised: " + label):
                inside, on = ref_ellipsoid(size, c, radii)
                # Known weak spot of the unmodified code, not of any change: a needle (one radius of 1 voxel, another of
                # 13 or more) blurred with sigma 1 keeps its core only within 3e-3 (0.9975 .. 0.9985 measured on the clean
                # tree), because radii + 5 sigma is not an offset surface.  Every other ellipsoid keeps 1e-3.
                needle = min(radii) < 2 and max(radii) >= 10
                check_soft(s, inside & ~on, g, outwards, label + " g=%s out=%s" % (g, outwards), core_tol=5e-3 if needle else 1e-3)
                if needle:
                    note("needle ellipsoids (core tolerance 5e-3)")
                if g == 0:
                    check(identical(s, m), "gaussian 0 changes the mask: " + label)
                note("soft ellipsoids checked")
    note("surface voxels decided by rounding", ties)
    for size in (6, 8, [6, 48, 10], (12, 8, 10), 48):
        ok, m = both("ellipsoid_mask", size)  # radii default to half of the box
        sz = [int(v) for v in np.full((3,), size)]
        inside, on = ref_ellipsoid(sz, [v // 2 for v in sz], [v // 2 for v in sz])
        check(ok and np.array_equal(m[~on], inside[~on]), "default ellipsoid %s" % (size,))
        both("ellipsoid_mask", size, [2, 3, 4], None, 0, None, None, True)
        both("ellipsoid_mask", size, 3)


# ----------------------------------------------------------------------------------------------- shells
def test_shells(n=70):
    for t in range(n):
        size = rand_size()
        c = rand_center(size)
        r = int(rng.choice([1, 2, 3, 4, 5, 7, 9, 12, 17, 24, 30, 49]))
        th = int(rng.choice([1, 2, 3, 4, 5, 8, 2 * r, 2 * r + 2]))
        label = "s_shell size=%s c=%s r=%s t=%s" % (size, c, r, th)
        ok, m = both("spherical_shell_mask", size, th, radius=r, center=c)
        if check(ok, "shell raised: " + label):
            ref = ref_sphere(size, c, r + th / 2) & ~ref_sphere(size, c, r - th / 2)
            check(m.dtype == np.float64 and np.array_equal(m, ref.astype(float)), "outer minus inner " + label)
            note("spherical shells checked")
        g = GAUSS[t % len(GAUSS)]
        ok, s = both("spherical_shell_mask", size, th, radius=r, center=c, gaussian=g)
        if check(ok, "soft shell raised: " + label):
            check_soft(s, None, g, False, label)
            check((g != 0) or np.array_equal(s, m), "gaussian 0 changes the shell " + label)
        both("spherical_shell_mask", size, th)
        both("spherical_shell_mask", size, th, r, c, 0.0, None)
    for t in range(n):
        size = rand_size(even=True)
        c = rand_center(size)
        th = int(rng.choice([1, 2, 3, 4, 6]))
        radii = [int(v) + th // 2 + 1 for v in rng.choice([1, 2, 3, 4, 5, 6, 8, 10, 13, 15, 20, 30, 50], size=3)]
        label = "e_shell size=%s c=%s radii=%s t=%s" % (size, c, radii, th)
        ok, m = both("ellipsoid_shell_mask", size, th, radii, center=c)
        if check(ok, "e-shell raised: " + label):
            r_out = (np.asarray(radii) + th / 2).astype(int)
            r_in = (np.asarray(radii) - th / 2).astype(int)
            o_in, o_on = ref_ellipsoid(size, c, r_out)
            i_in, i_on = ref_ellipsoid(size, c, r_in)
            ref = o_in & ~i_in
            sure = ~(o_on | i_on)
            check(m.dtype == bool and np.array_equal(m[sure], ref[sure]), "outer minus inner " + label)
            # and literally the two solids of the same tree
            e1 = cm.ellipsoid_mask(size, radii=r_out, center=c)
            e2 = cm.ellipsoid_mask(size, radii=r_in, center=c)
            check(np.array_equal(m, e1 & ~e2), "shell is not outer & ~inner " + label)
            note("ellipsoid shells checked")
        g = GAUSS[t % len(GAUSS)]
        ang = [None, [0, 0, 0], np.zeros(3)][t % 3]
        ok, s = both("ellipsoid_shell_mask", size, th, radii, center=c, gaussian=g, angles=ang)
        if check(ok, "soft e-shell raised: " + label):
            check_soft(s, None, g, False, label)
        both("ellipsoid_shell_mask", size, th, radii, c, 0.0, None, None)


# ----------------------------------------------------------------------------------------------- name-based generator
def test_generator():
    names = []
    for r in (1, 2, 3, 5, 8, 13, 20):
        names.append(("sphere_r%d" % r, "sphere", [r]))
        for h in (1, 2, 5, 9, 16):
            names.append(("cylinder_r%d_h%d" % (r, h), "cylinder", [r, h]))
        for s in (1, 2, 3, 6):
            names.append(("s_shell_r%d_s%d" % (r, s), "s_shell", [r, s]))
    for rx, ry, rz in ((1, 1, 1), (2, 3, 4), (5, 5, 5), (10, 3, 7), (4, 12, 6), (20, 2, 9)):
        names.append(("ellipsoid_rx%d_ry%d_rz%d" % (rx, ry, rz), "ellipsoid", [rx, ry, rz]))
        for s in (1, 2, 4):
            names.append(("e_shell_rx%d_ry%d_rz%d_s%d" % (rx + 3, ry + 3, rz + 3, s), "e_shell", [rx + 3, ry + 3, rz + 3, s]))
    variants = [{}, {"mask_expansion": 0}, {"mask_expansion": 1}, {"mask_expansion": 4}, {"mask_expansion": 7},
                {"mask_size": 48}, {"mask_size": 30, "mask_expansion": 0}, {"mask_size": None, "mask_expansion": 2}]
    for name, kind, specs in names:
        ok, parsed = both("parse_shape_string", name)
        check(ok and parsed == (kind, specs) and all(type(v) is int for v in parsed[1]), "parse " + name)
        for kw in variants:
            label = "generate_mask(%s, %s)" % (name, kw)
            ok, m = both("generate_mask", name, **kw)
            size = kw.get("mask_size")
            if size is None:
                size = math.ceil((2 * max(specs) + kw.get("mask_expansion", 4)) / 2) * 2
            if kind == "s_shell":
                size = math.ceil((size + specs[1]) / 2) * 2
            sz = [size] * 3
            c = [size // 2] * 3
            if kind == "cylinder" and specs[1] // 2 > min(c[2], size - 1 - c[2]):
                check(not ok, "cylinder that does not fit was returned " + label)
                continue
            if not check(ok, "raised: " + label):
                continue
            if not check(m.shape == tuple(sz), "box of " + label):
                continue
            if kind == "sphere":
                check(np.array_equal(m, ref_sphere(sz, c, specs[0]).astype(float)), label)
            elif kind == "cylinder":
                check(np.array_equal(m, ref_cylinder(sz, c, specs[0], specs[1]).astype(float)), label)
            elif kind == "s_shell":
                ref = ref_sphere(sz, c, specs[0] + specs[1] / 2) & ~ref_sphere(sz, c, specs[0] - specs[1] / 2)
                check(np.array_equal(m, ref.astype(float)), label)
            elif kind == "ellipsoid":
                inside, on = ref_ellipsoid(sz, c, specs)
                check(m.dtype == bool and np.array_equal(m[~on], inside[~on]), label)
            else:
                t = specs[3]
                o_in, o_on = ref_ellipsoid(sz, c, (np.asarray(specs[:3]) + t / 2).astype(int))
                i_in, i_on = ref_ellipsoid(sz, c, (np.asarray(specs[:3]) - t / 2).astype(int))
                sure = ~(o_on | i_on)
                check(m.dtype == bool and np.array_equal(m[sure], (o_in & ~i_in)[sure]), label)
            note("generated shapes checked")
        both("generate_mask", name, 24)
        both("generate_mask", name, None, 6)
        both("generate_mask", name, 24, None)  # the expansion is not used when the size is given
        # "not given" spelled as None: either not accepted at all (TypeError, as the original) or the default of 4
        try:
            m = cm.generate_mask(name, mask_expansion=None)
            check(identical(m, og.generate_mask(name)) and identical(m, og.generate_mask(name, mask_expansion=4)), "expansion None is not 4: " + name)
            note("mask_expansion=None compared with the default 4")
        except TypeError:
            note("mask_expansion=None: TypeError on this tree")
    for bad in ("sphere10", "sphere_r", "sphere_r-3", "sphere_r2.5", "cylinder_r_h20", "cylinder_r5", "ellipsoid_rx4_ry_rz6",
                "random_string", "", "Sphere_r5", "sphere_r5 ", " sphere_r5", "sphere_r5_h3", "e_shell_rx1_ry2_rz3",
                "s_shell_r5", "shell_r5_s2", "sphere_r5\n"):
        for fn in ("parse_shape_string", "generate_mask"):
            ok, v = both(fn, bad)
            if bad != "sphere_r5\n":
                check(not ok, "%s accepted %r" % (fn, bad))
    for mod in (cm, og):
        try:
            mod.parse_shape_string("nothing_r5")
            fail("no ValueError for an unknown name")
        except ValueError as exc:
            check("nothing_r5" in str(exc), "message of the unknown name")
    # the generator twice in a row, and interleaved: no state is carried over
    first = [cm.generate_mask(n) for n, _, _ in names[:12]]
    second = [cm.generate_mask(n) for n, _, _ in reversed(names[:12])][::-1]
    check(all(identical(a, b) for a, b in zip(first, second)), "repeated generation differs")
    if hasattr(cm, "_SHAPE_PATTERNS"):
        expect = {
            "sphere": r"^sphere_r(\d+)$",
            "cylinder": r"^cylinder_r(\d+)_h(\d+)$",
            "s_shell": r"^s_shell_r(\d+)_s(\d+)$",
            "ellipsoid": r"^ellipsoid_rx(\d+)_ry(\d+)_rz(\d+)$",
            "e_shell": r"^e_shell_rx(\d+)_ry(\d+)_rz(\d+)_s(\d+)$",
        }
        check(dict(cm._SHAPE_PATTERNS) == expect and list(cm._SHAPE_PATTERNS) == list(expect), "pattern table changed")
        note("pattern table compared with the literal")
    if hasattr(cm, "_SHAPE_BUILDERS"):
        check(list(cm._SHAPE_BUILDERS) == ["sphere", "cylinder", "s_shell", "ellipsoid", "e_shell"], "builder table keys")
        note("builder table keys compared")


# ----------------------------------------------------------------------------------------------- postprocess & co
def test_postprocess():
    base = cm.spherical_mask([12, 14, 10], radius=3, center=[5, 6, 4])
    zero_angles = [None, np.asarray([0, 0, 0]), [0, 0, 0], (0, 0, 0), np.zeros(3), [0.0, -0.0, 0.0], np.zeros((3,), dtype=int)]
    for g in GAUSS:
        want = og.postprocess(base.copy(), g, np.asarray([0, 0, 0]), None)
        for ang in zero_angles:
            ok, m = both("postprocess", base.copy(), g, ang, None)
            check(ok and identical(m, want), "postprocess with zero angles %r" % (ang,))
        # forms that exist only when the arguments have defaults (TypeError on a tree without them)
        for call in (lambda: cm.postprocess(base.copy(), g), lambda: cm.postprocess(base.copy(), g, output_name=None),
                     lambda: cm.postprocess(base.copy(), g, None), lambda: cm.postprocess(base.copy(), gaussian=g, input_mask=base.copy())):
            try:
                m = call()
            except TypeError:
                note("postprocess without angles: not available on this tree")
                continue
            check(identical(m, want), "postprocess with default angles differs, g=%s" % g)
            note("postprocess with default angles compared")
    # a real rotation still rotates, and the same way
    for ang in ([30, 0, 0], [0, 20, 0], [0, 0, 45], [10, 20, 30], np.asarray([0.3, 0.2, 0.1]), [0, 180, 0], [90, 0, -90]):
        ok, m = both("postprocess", base.copy(), 0.5, ang, None)
        check(ok and not np.array_equal(m, og.postprocess(base.copy(), 0.5, None, None)) or ang == [90, 0, -90], "rotation %s ignored" % (ang,))
        both("rotate", base.copy(), ang)
    for ang in zero_angles:
        ok, m = both("rotate", base, ang)
        check(ok and m is not None and np.array_equal(m, base), "rotate by nothing")
    for g in GAUSS:
        both("add_gaussian", base.copy(), g)
    for r in (0, 1, 3, 2.5, np.asarray([1, 2, 3]), np.int64(4)):
        for g in GAUSS:
            for o in (True, False):
                both("preprocess_params", r, g, o)
    for v in (5, 5.7, [5], [4, 5, 6], (4, 5, 6), np.asarray([4.9, 5.1, 6]), None):
        both("get_correct_format", v, reference_size=[10, 11, 12])
        both("get_correct_format", v)
    # writing: the file holds the returned mask
    tmp = tempfile.mkdtemp(prefix="c13demo")
    try:
        for i, ext in enumerate((".mrc", ".em")):
            p = os.path.join(tmp, "s%d%s" % (i, ext))
            m = cm.spherical_mask([10, 12, 8], radius=3, center=[4, 5, 3], gaussian=1, output_name=p)
            check(np.allclose(cryomap.read(p), m.astype(np.float32)), "written sphere " + ext)
            p = os.path.join(tmp, "h%d%s" % (i, ext))
            m = cm.spherical_shell_mask([10, 12, 8], 2, radius=3, center=[4, 5, 3], output_name=p)
            check(np.array_equal(cryomap.read(p), m.astype(np.float32)), "written shell " + ext)
            check(identical(m, og.spherical_shell_mask([10, 12, 8], 2, radius=3, center=[4, 5, 3])), "shell with a file differs")
            p = os.path.join(tmp, "p%d%s" % (i, ext))
            try:
                m = cm.postprocess(base.copy(), 1, output_name=p)
                check(np.allclose(cryomap.read(p), m.astype(np.float32)), "postprocess keyword output " + ext)
            except TypeError:
                pass
    finally:
        shutil.rmtree(tmp, ignore_errors=True)


# ----------------------------------------------------------------------------------------------- set algebra
def rand_binary(shape, dtype):
    kind = rng.integers(0, 5)
    if kind == 0:
        m = rng.random(shape) < rng.choice([0.05, 0.5, 0.95])
    elif kind == 1:
        m = np.zeros(shape, dtype=bool)
    elif kind == 2:
        m = np.ones(shape, dtype=bool)
    else:
        m = ref_sphere(shape, rand_center(shape), int(rng.integers(1, 12)))
    return np.ascontiguousarray(m.astype(dtype))


def rand_soft(shape, dtype):
    if rng.random() < 0.5:
        return rng.random(shape).astype(dtype)
    m = cm.spherical_mask(list(shape), radius=int(rng.integers(1, 8)), center=rand_center(shape), gaussian=float(rng.choice([0.5, 1, 2])))
    return np.clip(m, 0, 1).astype(dtype)


def test_algebra(n=120):
    tmp = tempfile.mkdtemp(prefix="c13demo")
    try:
        for t in range(n):
            shape = tuple(int(v) for v in rng.integers(6, 20, size=3))
            if t % 10 == 0:
                shape = (6, 48, 7)
            k = 1 + t % 5
            dtype = [np.float64, np.float32, np.float64, np.int16][t % 4]
            masks = [rand_binary(shape, dtype) for _ in range(k)]
            if t % 7 == 0 and k > 1:
                masks[-1] = masks[0]  # the same object twice
            if t % 11 == 0:
                masks = tuple(masks)
            given = list(masks)
            if t % 6 == 0:  # some given by path (first, last or all)
                for pos in ([0], [k - 1], list(range(k)))[(t // 6) % 3]:
                    p = os.path.join(tmp, "m%d_%d%s" % (t, pos, (".mrc", ".em")[pos % 2]))
                    cryomap.write(masks[pos].astype(np.float32), p, data_type=np.single)
                    given[pos] = p
                if isinstance(masks, tuple):
                    given = tuple(given)
            keep = [m.copy() for m in masks]
            b = [m.astype(bool) for m in masks]
            any_ = np.logical_or.reduce(b)
            all_ = np.logical_and.reduce(b)
            rest = np.logical_or.reduce(b[1:]) if k > 1 else np.zeros(shape, dtype=bool)
            expect = {"union": any_, "intersection": all_, "subtraction": b[0] & ~rest, "difference": any_ & ~all_}
            if k == 2:
                check(np.array_equal(expect["difference"], b[0] ^ b[1]), "xor")
            for name, ref in expect.items():
                label = "%s of %d %s masks %s" % (name, k, np.dtype(dtype).name, shape)
                ok, res = both(name, given)
                if not check(ok, "raised: " + label):
                    continue
                check(np.array_equal(res, ref.astype(res.dtype)), "voxel-wise " + label)
                check(res.min() >= 0 and res.max() <= 1, "range " + label)
                check(all(identical(m, c) for m, c in zip(masks, keep)), "input modified by " + label)
                check(not any(np.shares_memory(res, m) for m in masks), "result shares memory with an input: " + label)
                ok, again = both(name, given, output_name=None)
                check(ok and identical(res, again), "second call differs: " + label)
                note("algebra results checked")
            if t % 15 == 0:
                for name in expect:
                    p = os.path.join(tmp, "out_%s_%d.mrc" % (name, t))
                    res = getattr(cm, name)(given, output_name=p)
                    check(np.array_equal(cryomap.read(p), res.astype(np.float32)), "written " + name)
                    check(identical(res, getattr(og, name)(given)), "with a file: " + name)
        for t in range(60):  # soft masks
            shape = tuple(int(v) for v in rng.integers(6, 16, size=3))
            k = 1 + t % 5
            dtype = [np.float64, np.float32][t % 2]
            masks = [rand_soft(shape, dtype) if rng.random() < 0.7 else rand_binary(shape, dtype) for _ in range(k)]
            keep = [m.copy() for m in masks]
            f = [m.astype(np.float64) for m in masks]
            for name in ("union", "intersection", "subtraction", "difference"):
                ok, res = both(name, masks)
                if not check(ok, "soft %s raised" % name):
                    continue
                check(res.min() >= 0 and res.max() <= 1, "soft range " + name)
                check(all(identical(m, c) for m, c in zip(masks, keep)), "soft input modified by " + name)
                if name == "union":
                    check(np.allclose(res, np.clip(sum(f), 0, 1), atol=1e-6), "soft union")
                if name == "intersection":
                    check(np.allclose(res, np.clip(np.prod(f, axis=0), 0, 1), atol=1e-6), "soft intersection")
                note("soft algebra results checked")
        # outside the stated range, only compared with the original: empty list, shapes that do not agree, wrong types
        a, bb = np.ones((6, 7, 8)), np.ones((6, 7, 9))
        for name in ("union", "intersection", "subtraction", "difference"):
            both(name, [])
            both(name, ())
            both(name, [a, bb])
            both(name, [bb, a, a])
            both(name, [a, np.ones((1, 1, 8))])
            both(name, [np.ones((1, 1, 8)), a])
            both(name, [a, None])
            both(name, [None, a])
            both(name, [a.astype(bool), a.astype(bool)])
            both(name, [a, "nothing.txt"])
            both(name, ["nothing.txt", a])
            both(name, a)  # an array instead of a list: its planes are the masks ... for the original too
    finally:
        shutil.rmtree(tmp, ignore_errors=True)


def main():
    test_spheres()
    test_cylinders()
    test_ellipsoids()
    test_shells()
    test_generator()
    test_postprocess()
    test_algebra()
    for k in sorted(COUNT):
        print("  %-60s %d" % (k, COUNT[k]))
    if FAIL:
        print("FAIL: %d check(s) failed" % len(FAIL))
        sys.exit(1)
    print("PASS")


if __name__ == "__main__":
    main()
