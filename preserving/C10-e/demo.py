"""C10 demo: cyclic symmetry expansion places subunits on the symmetry orbit.

Run as:  cd /tmp/wt6/C10 && /venv/bin/python /tmp/seedsQ/C10/<x>/demo.py

Two kinds of checks, both over many particle lists / every n in 1..64 / many offsets:
 (1) independent computation of the property (own rotation matrices, no use of the package or of
     scipy's Euler composition): n children per parent, orientation R*Rz(360k/n), complete position
     centre + R*Rz(360k/n) s, geom5/geom2 bookkeeping, unique subtomo_id, parent's other fields,
     integer x,y,z and |shift| <= 0.5;
 (2) bit-exact comparison with a verbatim copy of the ORIGINAL split_in_asymmetric_subunits /
     update_coordinates kept in this file, also for repeated calls on the same object, calls in
     different orders and calls after the input list was edited in place.
Prints PASS and exits 0 when everything holds.
"""

import sys, os

sys.path.insert(0, os.getcwd())

import decimal
import inspect
import re
import warnings

import numpy as np
import pandas as pd
from scipy.spatial.transform import Rotation as rot

from cryocat import cryomotl
from cryocat.cryomotl import Motl

assert os.path.abspath(cryomotl.__file__).startswith(os.path.abspath(os.getcwd())), cryomotl.__file__

RNG = np.random.default_rng(20260928)
FAILS = []
NCHECK = [0]


def fail(msg):
    FAILS.append(msg)
    if len(FAILS) <= 20:
        print("FAIL:", msg)


# ----------------------------------------------------------------------------------------------
# verbatim copies of the original code (tree bb2db4f), turned into plain functions
# ----------------------------------------------------------------------------------------------
def orig_update_coordinates(self):
    def round_and_recenter(row):
        new_row = row.copy()
        shifted_x = row["x"] + row["shift_x"]
        shifted_y = row["y"] + row["shift_y"]
        shifted_z = row["z"] + row["shift_z"]
        new_row["x"] = float(decimal.Decimal(shifted_x).to_integral_value(rounding=decimal.ROUND_HALF_UP))
        new_row["y"] = float(decimal.Decimal(shifted_y).to_integral_value(rounding=decimal.ROUND_HALF_UP))
        new_row["z"] = float(decimal.Decimal(shifted_z).to_integral_value(rounding=decimal.ROUND_HALF_UP))
        new_row["shift_x"] = shifted_x - new_row["x"]
        new_row["shift_y"] = shifted_y - new_row["y"]
        new_row["shift_z"] = shifted_z - new_row["z"]
        return new_row

    self.df = self.df.apply(round_and_recenter, axis=1)
    warnings.warn("The coordinates for subtomogram extraction were changed, new extraction is necessary!")


def orig_split(self, symmetry, xyz_shift):
    if isinstance(symmetry, str):
        nfold = int(re.findall(r"\d+", symmetry)[-1])
        if symmetry.lower().startswith("c"):
            s_type = 1  # c symmetry
        elif symmetry.lower().startswith("d"):
            s_type = 2  # d symmetry
        else:
            ValueError("Unknown symmetry - currently only c and are supported!")
    elif isinstance(symmetry, (int, float)):
        s_type = 1  # c symmetry
        nfold = symmetry
    else:
        ValueError("The symmetry has to be specified as a string (starting with c or d) or as a number (float, int)!")

    inplane_step = 360 / nfold

    if s_type == 1:
        n_subunits = nfold
        phi_angles = np.arange(n_subunits) * inplane_step
        new_angles = np.zeros((n_subunits, 3))
        new_angles[:, 0] = phi_angles
    elif s_type == 2:
        n_subunits = nfold * 2
        in_plane_offset = int(inplane_step / 2)
        new_angles = np.zeros((n_subunits, 3))
        new_angles[0::2, 0] = np.arange(0, 360, int(inplane_step))
        new_angles[1::2, 0] = np.arange(0 + in_plane_offset, 360 + in_plane_offset, int(inplane_step))
        new_angles[1::2, 1] = 180

        phi_angles = new_angles[:, 0].copy()

    phi_angles = phi_angles.reshape(
        n_subunits,
    )

    # make up vectors
    starting_vector = np.array(xyz_shift)
    rho = np.sqrt(starting_vector[0] ** 2 + starting_vector[1] ** 2)
    the = np.arctan2(starting_vector[1], starting_vector[0])

    rot_rho = np.full((n_subunits,), rho)
    rep_the = np.full((n_subunits,), the) + np.deg2rad(phi_angles)
    rep_z = np.full((n_subunits,), starting_vector[2])

    if s_type == 2:
        rep_z[1::2] *= -1

    center_shift = np.zeros([rot_rho.shape[0], 3])
    center_shift[:, 0] = rot_rho * np.cos(rep_the)
    center_shift[:, 1] = rot_rho * np.sin(rep_the)
    center_shift[:, 2] = rep_z

    new_motl_df = pd.concat([self.df] * n_subunits)

    new_motl_df["geom5"] = new_motl_df["subtomo_id"]
    new_motl_df = new_motl_df.sort_values(by="subtomo_id")
    new_motl_df["geom2"] = np.tile(np.arange(1, n_subunits + 1).reshape(n_subunits, 1), (len(self.df), 1))

    euler_angles = new_motl_df[["phi", "theta", "psi"]]
    rotations = rot.from_euler(seq="zxz", angles=euler_angles, degrees=True)
    center_shift = np.tile(center_shift, (len(self.df), 1))
    new_angles = np.tile(new_angles, (len(self.df), 1))
    new_motl_df.loc[:, ["shift_x", "shift_y", "shift_z"]] = new_motl_df.loc[
        :, ["shift_x", "shift_y", "shift_z"]
    ] + rotations.apply(center_shift)

    new_rotations = rotations * rot.from_euler(seq="zxz", angles=new_angles, degrees=True)
    new_motl_df.loc[:, ["phi", "theta", "psi"]] = new_rotations.as_euler(seq="zxz", degrees=True)

    new_motl_df["subtomo_id"] = np.arange(1, len(new_motl_df) + 1)
    new_motl = Motl(new_motl_df)
    orig_update_coordinates(new_motl)
    new_motl.df.reset_index(inplace=True, drop=True)
    return new_motl


# ----------------------------------------------------------------------------------------------
# independent maths
# ----------------------------------------------------------------------------------------------
def Rz(a_deg):
    a = np.deg2rad(a_deg)
    c, s = np.cos(a), np.sin(a)
    return np.array([[c, -s, 0.0], [s, c, 0.0], [0.0, 0.0, 1.0]])


def Rx(a_deg):
    a = np.deg2rad(a_deg)
    c, s = np.cos(a), np.sin(a)
    return np.array([[1.0, 0.0, 0.0], [0.0, c, -s], [0.0, s, c]])


def euler_matrix(phi, theta, psi):
    # extrinsic zxz with angles (phi, theta, psi): first about z by phi, then x by theta, then z by psi
    return Rz(psi) @ Rx(theta) @ Rz(phi)


OTHER = ["score", "geom1", "tomo_id", "object_id", "subtomo_mean", "geom3", "geom4", "class"]


def check_property(parent_df, n, s, out, tag):
    NCHECK[0] += 1
    s = np.asarray(s, dtype=float)
    o = out.df
    if not isinstance(out, Motl):
        fail(f"{tag}: result is not a Motl")
        return
    if len(o) != n * len(parent_df):
        fail(f"{tag}: {len(o)} rows for {len(parent_df)} parents x n={n}")
        return
    if list(o.columns) != Motl.motl_columns:
        fail(f"{tag}: columns changed")
        return
    ids = o["subtomo_id"].to_numpy()
    if len(np.unique(ids)) != len(ids):
        fail(f"{tag}: subtomo_id not unique")
    xyz = o[["x", "y", "z"]].to_numpy(dtype=float)
    if not np.array_equal(xyz, np.round(xyz)):
        fail(f"{tag}: x,y,z not integer")
    sh = o[["shift_x", "shift_y", "shift_z"]].to_numpy(dtype=float)
    if not np.all(np.abs(sh) <= 0.5 + 1e-9):
        fail(f"{tag}: |shift| > 0.5 ({np.abs(sh).max()})")
    parents = parent_df.set_index("subtomo_id")
    seen = {}
    for _, row in o.iterrows():
        pid = row["geom5"]
        if pid not in parents.index:
            fail(f"{tag}: geom5 {pid} is not a parent id")
            return
        k1 = row["geom2"]
        if k1 != int(k1) or not (1 <= k1 <= n):
            fail(f"{tag}: geom2 {k1} outside 1..{n}")
            return
        seen.setdefault(pid, set()).add(int(k1))
        p = parents.loc[pid]
        k = int(k1) - 1
        Rp = euler_matrix(p["phi"], p["theta"], p["psi"])
        Rk = Rp @ Rz(360.0 * k / n)
        Rc = euler_matrix(row["phi"], row["theta"], row["psi"])
        # 2e-7: scipy's as_euler treats poses within ~1e-6 deg of gimbal lock as locked (3.5e-8 round-trip loss)
        if not np.allclose(Rc, Rk, atol=2e-7, rtol=0):
            fail(f"{tag}: orientation of subunit {k1} of parent {pid} is not R*Rz(360k/n)")
            return
        centre = np.array([p["x"] + p["shift_x"], p["y"] + p["shift_y"], p["z"] + p["shift_z"]], dtype=float)
        pos = np.array(
            [row["x"] + row["shift_x"], row["y"] + row["shift_y"], row["z"] + row["shift_z"]], dtype=float
        )
        if not np.allclose(pos, centre + Rk @ s, atol=1e-7, rtol=0):
            fail(f"{tag}: position of subunit {k1} of parent {pid} off the orbit")
            return
        # maps back to the parent's centre
        if not np.allclose(pos - Rc @ s, centre, atol=1e-4, rtol=0):
            fail(f"{tag}: subunit {k1} of parent {pid} does not map back to the centre")
            return
        for c in OTHER:
            if row[c] != p[c]:
                fail(f"{tag}: field {c} of subunit differs from parent")
                return
    for pid in parents.index:
        if seen.get(pid) != set(range(1, n + 1)):
            fail(f"{tag}: parent {pid} has subunits {sorted(seen.get(pid, []))}")
            return


def same(a, b, tag):
    """bit-exact equality of two Motls (values, dtypes, columns, index)."""
    NCHECK[0] += 1
    try:
        if type(a) is not type(b):
            raise AssertionError(f"type {type(a)} vs {type(b)}")
        pd.testing.assert_frame_equal(a.df, b.df, check_exact=True, check_dtype=True)
        if not np.array_equal(a.df.to_numpy(dtype=float), b.df.to_numpy(dtype=float)):
            raise AssertionError("values differ")
    except AssertionError as e:
        fail(f"{tag}: differs from the original function: {str(e)[:200]}")


# ----------------------------------------------------------------------------------------------
# inputs
# ----------------------------------------------------------------------------------------------
EDGE_ANGLES = [0.0, 90.0, -90.0, 180.0, -180.0, 360.0, 45.0, 1e-9, 179.999999, 270.0, -0.0]


def random_motl(n_part, ids="sorted", edge=False):
    df = pd.DataFrame(0.0, index=np.arange(n_part), columns=Motl.motl_columns)
    if edge:
        ang = RNG.choice(EDGE_ANGLES, size=(n_part, 3))
    else:
        ang = np.column_stack(
            [RNG.uniform(-180, 180, n_part), RNG.uniform(0, 180, n_part), RNG.uniform(-180, 180, n_part)]
        )
        # sprinkle gimbal-lock poses
        for i in range(n_part):
            if RNG.random() < 0.15:
                ang[i, 1] = RNG.choice([0.0, 180.0])
    df["phi"], df["theta"], df["psi"] = ang[:, 0], ang[:, 1], ang[:, 2]
    df[["x", "y", "z"]] = RNG.integers(-50, 4000, size=(n_part, 3)).astype(float)
    mode = RNG.integers(0, 4)
    if mode == 0:
        df[["shift_x", "shift_y", "shift_z"]] = 0.0
    elif mode == 1:
        df[["shift_x", "shift_y", "shift_z"]] = RNG.uniform(-0.5, 0.5, size=(n_part, 3))
    elif mode == 2:
        df[["shift_x", "shift_y", "shift_z"]] = RNG.uniform(-300, 300, size=(n_part, 3))
    else:
        df[["shift_x", "shift_y", "shift_z"]] = RNG.choice([0.5, -0.5, 1.5, -1.5, 2.5, 0.0], size=(n_part, 3))
    if ids == "sorted":
        df["subtomo_id"] = np.arange(1, n_part + 1, dtype=float)
    elif ids == "perm":
        df["subtomo_id"] = RNG.permutation(np.arange(1, n_part + 1)).astype(float)
    else:
        df["subtomo_id"] = RNG.choice(np.arange(1, 100000), size=n_part, replace=False).astype(float)
    df["tomo_id"] = RNG.integers(1, 5, n_part).astype(float)
    df["object_id"] = RNG.integers(1, 9, n_part).astype(float)
    df["score"] = RNG.uniform(0, 1, n_part)
    df["geom1"] = RNG.integers(0, 3, n_part).astype(float)
    df["geom2"] = RNG.integers(0, 3, n_part).astype(float)
    df["geom3"] = RNG.uniform(0, 3, n_part)
    df["geom4"] = RNG.integers(0, 3, n_part).astype(float)
    df["geom5"] = RNG.integers(0, 3, n_part).astype(float)
    df["subtomo_mean"] = RNG.uniform(0, 1, n_part)
    df["class"] = RNG.integers(1, 4, n_part).astype(float)
    return Motl(df)


def random_offset():
    m = RNG.integers(0, 7)
    if m == 0:
        return np.array([0.0, 0.0, 0.0])  # on the axis
    if m == 1:
        return np.array([0.0, 0.0, float(RNG.uniform(-40, 40))])  # on the axis
    if m == 2:
        return np.array([10, 0, 0])  # integer array as in the tests
    if m == 3:
        return [float(RNG.uniform(-60, 60)), float(RNG.uniform(-60, 60)), float(RNG.uniform(-60, 60))]  # list
    if m == 4:
        return (0.0, -12.5, 3.0)  # tuple, on the -y half axis
    if m == 5:
        return np.array([-7.0, 0.0, 2.0])  # atan2 = pi
    return RNG.uniform(-100, 100, 3)


def sym_form(n):
    m = RNG.integers(0, 4)
    return [f"C{n}", f"c{n}", int(n), f"C{n}"][m]


def call_new(m, symmetry, s, **kw):
    with warnings.catch_warnings():
        warnings.simplefilter("ignore")
        return m.split_in_asymmetric_subunits(symmetry, s, **kw)


def call_orig(m, symmetry, s):
    with warnings.catch_warnings():
        warnings.simplefilter("ignore")
        return orig_split(m, symmetry, s)


def one(m, symmetry, n, s, tag):
    before = m.df.copy(deep=True)
    s_before = np.array(s, dtype=float).copy()
    out = call_new(m, symmetry, s)
    ref = call_orig(m, symmetry, s)
    try:
        pd.testing.assert_frame_equal(m.df, before, check_exact=True)
    except AssertionError:
        fail(f"{tag}: the input list was modified")
    if not np.array_equal(np.array(s, dtype=float), s_before):
        fail(f"{tag}: the offset was modified")
    same(out, ref, tag)
    check_property(before, n, s_before, out, tag)
    return out


# ----------------------------------------------------------------------------------------------
# 1. every n in 1..64, all three spellings, small lists
# ----------------------------------------------------------------------------------------------
for n in range(1, 65):
    for form in (f"C{n}", f"c{n}", n):
        m = random_motl(int(RNG.integers(1, 4)), ids=RNG.choice(["sorted", "perm", "sparse"]), edge=bool(n % 5 == 0))
        one(m, form, n, random_offset(), f"n={n} form={form!r}")

# ----------------------------------------------------------------------------------------------
# 2. larger lists (up to 100 particles), random n
# ----------------------------------------------------------------------------------------------
for n_part, n in [(100, 7), (57, 13), (100, 1), (23, 64), (40, 11), (12, 16)]:
    m = random_motl(n_part, ids="sparse")
    one(m, sym_form(n), n, random_offset(), f"big {n_part}x{n}")

# ----------------------------------------------------------------------------------------------
# 3. call sequences on the SAME object: repeated calls, different orders, edits in place between the calls
# ----------------------------------------------------------------------------------------------
for rep in range(6):
    m = random_motl(int(RNG.integers(2, 7)), ids="perm")
    seq = [int(x) for x in RNG.integers(1, 65, 5)]
    seq = seq + seq[::-1] + [seq[0], seq[0]]
    s = random_offset()
    outs = []
    for i, n in enumerate(seq):
        form = sym_form(n)
        out = one(m, form, n, s, f"seq{rep} step{i} n={n}")
        outs.append((n, out.df.copy(deep=True), out))
        if i % 3 == 1:
            # edit the input list in place (orientation, position, shift, ids)
            m.df.loc[:, ["phi", "theta", "psi"]] = m.df[["phi", "theta", "psi"]].to_numpy() + RNG.uniform(-30, 30)
            m.df.loc[:, "shift_x"] = m.df["shift_x"].to_numpy() + 0.75
            m.df.iloc[0, m.df.columns.get_loc("z")] += 11.0
        if i % 3 == 2:
            # edit the offset in place when it is an array, and spoil the previous OUTPUT in place
            if isinstance(s, np.ndarray):
                s = s.astype(float)
                s[0] += 1.25
                s[2] -= 0.5
            out.df.loc[:, ["phi", "theta", "psi", "shift_x", "geom2"]] = -999.0
    # outputs of earlier calls must not have been touched by later calls (except the ones spoiled above)
    for n, snap, out in outs:
        if (out.df["phi"] == -999.0).all():
            continue
        try:
            pd.testing.assert_frame_equal(out.df, snap, check_exact=True)
        except AssertionError:
            fail(f"seq{rep}: an earlier result (n={n}) changed after later calls")

# same n asked in the three spellings one after the other on one object, then with another offset
m = random_motl(5, ids="sparse")
for n in (3, 7, 14, 64, 1):
    for s in (np.array([10.0, 0.0, 0.0]), np.array([0.0, 0.0, 5.0]), np.array([-3.0, 4.0, -2.0])):
        for form in (n, f"C{n}", f"c{n}", f"D{n}", n):
            if isinstance(form, str) and form.startswith("D"):
                # dihedral is outside the property; only compared with the original (it shares the code path)
                try:
                    ref = call_orig(m, form, s)
                except Exception as e:  # original raises for some n
                    ref = type(e)
                try:
                    out = call_new(m, form, s)
                except Exception as e:
                    out = type(e)
                if isinstance(ref, type) or isinstance(out, type):
                    if ref is not out:
                        fail(f"{form}: exception behaviour differs: {ref} vs {out}")
                else:
                    same(out, ref, f"interleaved {form}")
            else:
                one(m, form, n, s, f"interleaved n={n} form={form!r}")

# ----------------------------------------------------------------------------------------------
# 4. chained use: split the result of a split (results are ordinary lists)
# ----------------------------------------------------------------------------------------------
m = random_motl(3)
first = one(m, "C5", 5, np.array([8.0, 1.0, 0.0]), "chain 1")
one(first, 3, 3, np.array([0.0, 2.0, 1.0]), "chain 2")

# ----------------------------------------------------------------------------------------------
# 5. inputs outside the quantifier: only that the patched code fails in the same way as the original
# ----------------------------------------------------------------------------------------------
m = random_motl(2)
call_new(m, 3, [1.0, 2.0, 3.0])  # warm any memo with the int 3 first
for bad in (3.0, 2.5, 0, "X3", "C0", np.int64(3), None, -2):
    try:
        call_orig(m, bad, [1.0, 2.0, 3.0])
        r = "ok"
    except Exception as e:
        r = type(e).__name__
    try:
        call_new(m, bad, [1.0, 2.0, 3.0])
        o = "ok"
    except Exception as e:
        o = type(e).__name__
    if r != o:
        fail(f"symmetry={bad!r}: original -> {r}, current -> {o}")

# ----------------------------------------------------------------------------------------------
# 6. the warning of update_coordinates is still issued by default
# ----------------------------------------------------------------------------------------------
m = random_motl(2)
with warnings.catch_warnings(record=True) as w:
    warnings.simplefilter("always")
    m.split_in_asymmetric_subunits("C4", np.array([5.0, 0.0, 0.0]))
if not any("new extraction is necessary" in str(x.message) for x in w):
    fail("default call no longer warns about the changed coordinates")
with warnings.catch_warnings(record=True) as w:
    warnings.simplefilter("always")
    m2 = Motl(m.df.copy())
    m2.update_coordinates()
if not any("new extraction is necessary" in str(x.message) for x in w):
    fail("update_coordinates() no longer warns by default")

# ----------------------------------------------------------------------------------------------
# 7. change-specific part (only when the tree has the new interface)
# ----------------------------------------------------------------------------------------------
helper = getattr(cryomotl, "_symmetry_subunit_angles", None)
if helper is not None and hasattr(helper, "cache_info"):
    print("tree has the memoised angle helper:", helper.cache_info())
    if helper.cache_info().hits == 0:
        fail("memo never hit - the demo did not exercise it")
    # the cached arrays cannot be changed from outside
    for key in ((1, 7), (2, 4), (1, 1), (1, 64)):
        arr = helper(*key)
        try:
            arr[0, 0] = 123.0
            fail(f"cached array for {key} is writeable")
        except ValueError:
            pass
        if arr is not helper(*key):
            fail("memo does not return the cached object")
    # cold cache / warm cache / refilled cache give the same lists as the original, every n, shuffled orders
    m = random_motl(3, ids="perm")
    s = np.array([9.0, -2.0, 4.0])
    for rnd in range(3):
        if rnd != 1:
            helper.cache_clear()
        for n in RNG.permutation(np.arange(1, 65)):
            n = int(n)
            out = one(m, sym_form(n), n, s, f"memo round {rnd} n={n}")
            # spoil everything reachable from the result; later rounds must not see it
            out.df.loc[:, ["phi", "theta", "psi"]] = 77.0
        m.df.loc[:, "phi"] = m.df["phi"].to_numpy() + 17.0  # edit the input between the rounds
    # more symmetries than the memo holds (maxsize) -> eviction and recomputation
    for n in list(range(1, 65)) * 2:
        for extra in (0, 100, 200, 300, 400):
            helper(1, n + extra)
    for n in (1, 2, 5, 7, 64):
        one(m, n, n, s, f"after eviction n={n}")
    # typed key: the float 3.0 must not be served from the entry of the int 3 (the original raises for floats)
    helper(1, 3)
    for bad in (3.0, np.float64(3.0)):
        try:
            call_new(m, bad, s)
            fail(f"symmetry={bad!r} answered from the memo instead of raising like the original")
        except TypeError:
            pass
    # True == 1 and hashes alike, but the original raises TypeError for it: must not be served from the entry of 1
    helper(1, 1)
    try:
        call_orig(m, True, s)
        r = "ok"
    except Exception as e:
        r = type(e).__name__
    try:
        call_new(m, True, s)
        o = "ok"
    except Exception as e:
        o = type(e).__name__
    if r != o:
        fail(f"symmetry=True: original -> {r}, current -> {o}")
    print("memo after the demo:", helper.cache_info())

print(f"{NCHECK[0]} checks")
if FAILS:
    print(f"FAILED ({len(FAILS)} failures)")
    sys.exit(1)
print("PASS")
