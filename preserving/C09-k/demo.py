"""C09 / change a -- Motl.clean_by_distance_to_points: truth-value tests on the hit list / hit set.

Property part checked here: cleaning against reference points removes exactly the particles whose complete
position (x + shift_x, ...) is within the radius of a point of the same tomogram; survivors are not altered.

1. oracle: brute-force distances (no KDTree) decide the survivor set; compared with the tree's function
2. the tree's function is compared with a verbatim copy of the original function on the same inputs
   (including the inputs the idiom `if indices:` / `if not index_set:` is notorious for: the only hit is row 0).
"""
import sys, os

sys.path.insert(0, os.getcwd())

import io
import contextlib
import numpy as np
import pandas as pd

from cryocat import cryomotl
from cryocat.cryomotl import Motl

ORIGINAL = '''
def clean_by_distance_to_points_orig(
    self, points, radius_in_voxels, feature_id="tomo_id", inplace=True, output_file=None
):
    # Parse tomograms
    features = self.get_unique_values(feature_id)

    # Initialize clean motl
    cleaned_df = pd.DataFrame()

    # Loop through and clean
    for f in features:
        # Parse tomogram
        feature_m = self.get_motl_subset(f, feature_id=feature_id, reset_index=True)

        # Parse positions
        coord1 = feature_m.get_coordinates()
        coord2 = points.loc[points[feature_id] == f, ["x", "y", "z"]].values

        # Create a KDTree from coord1
        tree = KDTree(coord1)

        # Query points from coord2 within the radius
        indices_to_remove = set()  # Use a set to store unique indices
        for point in coord2:
            indices = tree.query_ball_point(point, r=radius_in_voxels)  # Returns indices as array
            indices_to_remove.update(indices)  # Add indices to the set

        # Convert to a sorted list for consistent ordering
        indices_to_remove = sorted(indices_to_remove)
        cfm = feature_m.df.drop(index=indices_to_remove)
        cleaned_df = pd.concat([cleaned_df, cfm], ignore_index=True)

    cleaned_df.reset_index(drop=True, inplace=True)
    cleaned_motl = Motl(cleaned_df)

    if output_file:
        cleaned_motl.write_out(output_file)

    print(f"{self.df.shape[0]-cleaned_motl.df.shape[0]} particles were removed.")

    if inplace:
        self.df = cleaned_df
    else:
        return cleaned_motl
'''
_ns = vars(cryomotl)
exec(ORIGINAL, _ns)
clean_orig = _ns["clean_by_distance_to_points_orig"]

rng = np.random.default_rng(int(os.environ.get("DEMO_SEED", "9091")))
failures = []
n_checked = 0


def quiet(fn, *a, **k):
    with contextlib.redirect_stdout(io.StringIO()):
        return fn(*a, **k)


def make_motl(n, tomos, integer=False, index=None, with_shifts=True, span=60.0):
    df = Motl.create_empty_motl_df()
    data = {}
    for c in Motl.motl_columns:
        data[c] = rng.normal(size=n)
    if integer:
        xyz = rng.integers(-5, 30, size=(n, 3)).astype(float)
    else:
        xyz = rng.uniform(-10.0, span, size=(n, 3))
    data["x"], data["y"], data["z"] = xyz[:, 0], xyz[:, 1], xyz[:, 2]
    for k, c in enumerate(["shift_x", "shift_y", "shift_z"]):
        if with_shifts:
            data[c] = rng.integers(-3, 4, size=n).astype(float) if integer else rng.uniform(-2.0, 2.0, size=n)
        else:
            data[c] = np.zeros(n)
    data["tomo_id"] = rng.choice(np.asarray(tomos, dtype=float), size=n) if n else np.zeros(0)
    data["object_id"] = rng.integers(0, 4, size=n).astype(float)
    data["subtomo_id"] = rng.permutation(np.arange(1, n + 1)).astype(float)
    data["class"] = rng.integers(0, 3, size=n).astype(float)
    df = pd.DataFrame(data, columns=Motl.motl_columns).astype(float)
    if index is not None:
        df.index = index(n)
    return df


def make_points(npts, tomos, motl_df=None, integer=False, feature_id="tomo_id", near=0.5):
    """points: partly random, partly sitting on / near particles"""
    rows = []
    for _ in range(npts):
        t = float(rng.choice(np.asarray(tomos, dtype=float)))
        if motl_df is not None and len(motl_df) and rng.random() < near:
            r = motl_df.iloc[int(rng.integers(0, len(motl_df)))]
            p = np.array([r["x"] + r["shift_x"], r["y"] + r["shift_y"], r["z"] + r["shift_z"]])
            if integer:
                p = p + rng.choice([0, 3, 4, 5, -3, -4], size=3)
            else:
                p = p + rng.normal(scale=3.0, size=3)
            if rng.random() < 0.7:
                t = float(r[feature_id])
        else:
            p = rng.integers(-5, 30, size=3).astype(float) if integer else rng.uniform(-10, 60, size=3)
        rows.append([t, p[0], p[1], p[2]])
    return pd.DataFrame(rows, columns=[feature_id, "x", "y", "z"]).astype(float)


def oracle(df, points, radius, feature_id="tomo_id", integer=False):
    """survivor frame computed row by row, brute force; None for a verdict that is numerically on the edge"""
    keep_pos = []
    edge = False
    pos = df[["x", "y", "z"]].to_numpy() + df[["shift_x", "shift_y", "shift_z"]].to_numpy()
    feat = df[feature_id].to_numpy()
    pf = points[feature_id].to_numpy()
    pp = points[["x", "y", "z"]].to_numpy()
    for i in range(len(df)):
        removed = False
        for j in range(len(points)):
            if pf[j] != feat[i]:
                continue
            d2 = float(((pos[i] - pp[j]) ** 2).sum())
            if integer:
                if d2 <= radius * radius:  # exact in integers
                    removed = True
            else:
                d = np.sqrt(d2)
                if abs(d - radius) < 1e-9:
                    edge = True
                if d <= radius:
                    removed = True
        if not removed:
            keep_pos.append(i)
    if edge:
        return None
    # order: groups in order of first appearance, inside a group the order of the list
    order = []
    for f in pd.unique(df[feature_id]):
        order += [i for i in keep_pos if feat[i] == f]
    return df.iloc[order].reset_index(drop=True)


def same_frame(a, b):
    if list(a.columns) != list(b.columns):
        return False
    if a.shape != b.shape:
        return False
    if not a.index.equals(b.index):
        return False
    if a.shape[0] == 0:
        return True
    return bool(np.array_equal(a.to_numpy(dtype=float), b.to_numpy(dtype=float), equal_nan=True)) and list(
        a.dtypes
    ) == list(b.dtypes)


def run_case(tag, df, points, radius, feature_id="tomo_id", integer=False, check_oracle=True):
    global n_checked
    n_checked += 1
    before = df.copy(deep=True)
    # tree's function, not in place
    m = Motl(df.copy(deep=True))
    try:
        res_new = quiet(m.clean_by_distance_to_points, points, radius, feature_id=feature_id, inplace=False).df
        err_new = None
    except Exception as e:  # noqa
        res_new, err_new = None, (type(e), str(e))
    if err_new is None and not same_frame(m.df, before):
        failures.append(f"{tag}: inplace=False altered the list")
    # original
    mo = Motl(df.copy(deep=True))
    try:
        res_old = quiet(clean_orig, mo, points, radius, feature_id=feature_id, inplace=False).df
        err_old = None
    except Exception as e:  # noqa
        res_old, err_old = None, (type(e), str(e))
    if (err_new is None) != (err_old is None) or (err_new is not None and err_new != err_old):
        failures.append(f"{tag}: error behaviour differs: {err_new} vs {err_old}")
        return
    if err_new is not None:
        return
    if not same_frame(res_new, res_old):
        failures.append(f"{tag}: result differs from the original function")
    # in place + repeated call on the same object
    mi = Motl(df.copy(deep=True))
    ret = quiet(mi.clean_by_distance_to_points, points, radius, feature_id=feature_id)
    if ret is not None or not same_frame(mi.df, res_new):
        failures.append(f"{tag}: in-place result differs")
    if len(mi.df):
        quiet(mi.clean_by_distance_to_points, points, radius, feature_id=feature_id)
        if not same_frame(mi.df, res_new):
            failures.append(f"{tag}: second call on the same object removed more")
    if check_oracle:
        exp = oracle(before, points, radius, feature_id=feature_id, integer=integer)
        if exp is not None and not same_frame(res_new, exp):
            failures.append(
                f"{tag}: survivors differ from brute force (got {len(res_new)}, expected {len(exp)})"
            )


# ---- random sweeps ---------------------------------------------------------------------------------------
tomo_sets = [[1], [3, 7], [2, 5, 11], [1, 2, 3, 40]]
indexers = [None, lambda n: np.arange(n)[::-1] * 3 + 100, lambda n: rng.permutation(n) + 17]
for rep in range(140):
    tomos = tomo_sets[rep % 4]
    n = int(rng.choice([1, 2, 3, 8, 25, 60]))
    integer = rep % 2 == 0
    df = make_motl(n, tomos, integer=integer, index=indexers[rep % 3], with_shifts=rep % 5 != 0)
    npts = int(rng.choice([0, 1, 2, 6, 20]))
    pts_tomos = tomos if rep % 3 else tomos + [99]  # points of tomograms that are not in the list
    points = make_points(npts, pts_tomos, df, integer=integer)
    if integer:
        radius = float(rng.choice([0, 1, 3, 5, 7]))  # 3-4-5 offsets give distances of exactly 5
    else:
        radius = float(rng.choice([0.0, 0.5, 2.5, 6.0, 15.0, 200.0]))
    run_case(f"random#{rep}", df, points, radius, integer=integer)

# grouping by another feature
for rep in range(20):
    df = make_motl(30, [1, 2], integer=True)
    points = make_points(8, [0, 1, 2, 3], df, integer=True, feature_id="object_id")
    run_case(f"object_id#{rep}", df, points, 5.0, feature_id="object_id", integer=True)

# ---- boundary inputs the idiom is notorious for ------------------------------------------------------------
base = make_motl(6, [4], integer=True, with_shifts=False)
base[["x", "y", "z"]] = np.array(
    [[10, 10, 10], [20, 20, 20], [30, 30, 30], [40, 40, 40], [50, 50, 50], [60, 60, 60]], dtype=float
)


def pts(rows):
    return pd.DataFrame(rows, columns=["tomo_id", "x", "y", "z"]).astype(float)


# the only hit is row 0 of the group: the hit list is [0], the hit set is {0}
run_case("only-row-0", base, pts([[4, 10, 10, 10]]), 0.0, integer=True)
run_case("only-row-0-r5", base, pts([[4, 13, 14, 10]]), 5.0, integer=True)
# exactly the threshold (3-4-5) and just below
run_case("threshold-hit", base, pts([[4, 23, 24, 20]]), 5.0, integer=True)
run_case("threshold-miss", base, pts([[4, 23, 24, 20]]), 4.0, integer=True)
# last row only, first and last
run_case("last-row", base, pts([[4, 60, 60, 60]]), 1.0, integer=True)
run_case("first-and-last", base, pts([[4, 60, 60, 60], [4, 10, 10, 10]]), 1.0, integer=True)
# no points at all / only points of other tomograms / points far away
run_case("no-points", base, pts(np.zeros((0, 4))), 5.0, integer=True)
run_case("other-tomo", base, pts([[5, 10, 10, 10], [6, 20, 20, 20]]), 5.0, integer=True)
run_case("far", base, pts([[4, 1000, 1000, 1000]]), 5.0, integer=True)
# everything of the tomogram removed / everything of every tomogram removed
run_case("all-removed", base, pts([[4, 35, 35, 35]]), 500.0, integer=True)
two = pd.concat([base, base.assign(tomo_id=9.0, subtomo_id=base["subtomo_id"] + 100)], ignore_index=True)
run_case("one-tomo-emptied", two, pts([[9, 35, 35, 35]]), 500.0, integer=True)
run_case("first-tomo-emptied", two, pts([[4, 35, 35, 35]]), 500.0, integer=True)
run_case("row0-of-second-tomo", two, pts([[9, 10, 10, 10]]), 0.0, integer=True)
run_case("row0-of-both", two, pts([[9, 10, 10, 10], [4, 10, 10, 10]]), 0.0, integer=True)
# interleaved tomograms (row 0 of the group is not row 0 of the list)
inter = two.iloc[[6, 0, 7, 1, 8, 2, 9, 3, 10, 4, 11, 5]].reset_index(drop=True)
run_case("interleaved-row0", inter, pts([[4, 10, 10, 10]]), 0.0, integer=True)
run_case("interleaved-row0b", inter, pts([[9, 10, 10, 10], [4, 60, 60, 60]]), 0.0, integer=True)
# single particle lists
single = base.iloc[[0]].reset_index(drop=True)
run_case("single-hit", single, pts([[4, 10, 10, 10]]), 0.0, integer=True)
run_case("single-miss", single, pts([[4, 11, 10, 10]]), 0.5, integer=True)
# shifts count: the complete position is x + shift
sh = base.copy()
sh["shift_x"] = 5.0
run_case("shifted-hit", sh, pts([[4, 15, 10, 10]]), 0.0, integer=True)
run_case("shifted-miss", sh, pts([[4, 10, 10, 10]]), 1.0, integer=True)
# negative and zero coordinates, duplicated points
neg = base.copy()
neg.loc[0, ["x", "y", "z"]] = [0.0, 0.0, 0.0]
neg.loc[1, ["x", "y", "z"]] = [-3.0, -4.0, 0.0]
run_case("zero-neg", neg, pts([[4, 0, 0, 0], [4, 0, 0, 0]]), 5.0, integer=True)
run_case("zero-only", neg, pts([[4, 0, 0, 0]]), 4.0, integer=True)
# inputs outside the quantifier: same outcome (error or result) in both versions, no oracle
run_case("negative-radius", base, pts([[4, 10, 10, 10]]), -1.0, check_oracle=False)
run_case("empty-list", Motl.create_empty_motl_df(), pts([[4, 10, 10, 10]]), 1.0, check_oracle=False)
nan = base.copy()
nan.loc[2, "x"] = np.nan
run_case("nan-position-no-points", nan, pts(np.zeros((0, 4))), 1.0, check_oracle=False)
run_case("nan-position", nan, pts([[4, 10, 10, 10]]), 1.0, check_oracle=False)

if failures:
    print(f"FAIL ({len(failures)} of {n_checked} cases)")
    for f in failures[:20]:
        print("  ", f)
    sys.exit(1)
print(f"PASS ({n_checked} cases: brute-force oracle, original-vs-current, in-place, repeated call)")
