"""C07 / change c: tmana.scores_extract_particles -- peak extraction from a template-matching score map.

(1) independent brute-force check of the property (peaks > threshold, pairwise farther apart than the diameter,
    every supra-threshold voxel within the diameter of a peak with an equal or higher score, score / 1-based
    position / Euler angles of each peak, angle-list numbering 0/1, zxz/zzx order);
(2) exact agreement of the returned motl with a verbatim copy of the original implementation, also for the
    optional arguments (n_particles, cluster_size, sigma_threshold, automatic threshold, tomo_mask, object_id).
Run:  cd /tmp/wt6/C07 && /venv/bin/python /tmp/seedsP/C07/c/demo.py
"""
import os, sys
sys.path.insert(0, os.getcwd())
import io, contextlib, gc, re, tempfile, warnings
import numpy as np
import pandas as pd
from scipy.spatial import KDTree
from sklearn.cluster import DBSCAN

from cryocat import tmana, cryomap, ioutils, cryomotl


# ---------------------------------------------------------------- verbatim copy of the original function body
def scores_extract_particles_ORIG(
    scores_map, angles_map, angles_list, tomo_id, particle_diameter, object_id=None, scores_threshold=None,
    sigma_threshold=None, cluster_size=None, n_particles=None, output_path=None, output_type="emmotl",
    angles_order="zxz", symmetry="c1", angles_numbering=0, tomo_mask=None,
):
    if symmetry.lower().startswith("c"):
        symmetry = int(re.findall(r"\d+", symmetry)[-1])
    else:
        warnings.warn(
            f"Only C symmetry is supported. Provided {symmetry} is currently not supported and will be ignored."
        )
        symmetry = 1
    scores_map = cryomap.read(scores_map)
    angles_map = cryomap.read(angles_map)
    anglist = ioutils.rot_angles_load(angles_list, angles_order=angles_order)
    if tomo_mask is not None:
        tomo_mask = cryomap.read(tomo_mask)
        scores_map = scores_map * tomo_mask
    if object_id is None:
        object_id = 1
    if scores_threshold is not None:
        threshold = scores_threshold
    elif sigma_threshold is None:
        threshold = tmana.compute_scores_map_threshold_triangle(scores_map)
    else:
        score_mean = scores_map.mean()
        score_std = scores_map.std(ddof=1)
        threshold = score_mean + sigma_threshold * score_std
    t_idx = np.where(scores_map > threshold)
    k = len(t_idx[0])
    if k == 0:
        return None
    k = min(k, len(scores_map[t_idx])) - 1
    s_idx = np.argpartition(-scores_map[t_idx], k)[: k + 1]
    s_idx = s_idx[np.argsort(-scores_map[t_idx][s_idx])]  # Sort for later
    s_ind = np.array([t_idx[0][s_idx], t_idx[1][s_idx], t_idx[2][s_idx]])
    scored_coords = sorted(zip(s_ind.T, scores_map[s_ind[0], s_ind[1], s_ind[2]]), key=lambda x: x[1], reverse=True)
    tree = KDTree([coord for coord, score in scored_coords])
    coord_to_score = {tuple(coord): score for coord, score in scored_coords}
    remaining_coords = set(coord_to_score.keys())
    filtered_coords = []
    for coord, score in scored_coords:
        if tuple(coord) not in remaining_coords:
            continue
        filtered_coords.append((coord, score))
        nearby_coords = tree.query_ball_point(coord, particle_diameter)
        for nearby_coord in nearby_coords:
            nearby_coord_tuple = tuple(scored_coords[nearby_coord][0])
            if nearby_coord_tuple in remaining_coords and coord_to_score[nearby_coord_tuple] <= score:
                remaining_coords.remove(nearby_coord_tuple)
    filtered_coords, filtered_scores = zip(*filtered_coords)
    filtered_coords = np.array(filtered_coords)
    filtered_scores = np.array(filtered_scores)
    clusterer = DBSCAN(eps=particle_diameter / 2, min_samples=1)
    cluster_labels = clusterer.fit_predict(filtered_coords)
    filtered_hit_idx = np.zeros(len(filtered_coords), dtype=bool)
    c = 0
    for cluster_id in np.unique(cluster_labels):
        if cluster_id == -1:
            continue
        if cluster_size is not None:
            c_size = np.sum(cluster_labels == cluster_id)
            if c_size < cluster_size:
                continue
        filtered_hit_idx[cluster_labels == cluster_id] = True
        c += np.sum(cluster_labels == cluster_id)
    rpos = filtered_coords[filtered_hit_idx]
    filtered_scores = filtered_scores[filtered_hit_idx]
    if n_particles is not None:
        rpos = rpos[0 : min(rpos.shape[0], n_particles), :]
        filtered_scores = filtered_scores[0 : min(rpos.shape[0], n_particles)]
    ang_idx = angles_map[rpos[:, 0], rpos[:, 1], rpos[:, 2]].astype(int) - angles_numbering
    phi = anglist[ang_idx, 0]
    theta = anglist[ang_idx, 1]
    psi = anglist[ang_idx, 2]
    if symmetry > 1:
        add_phi = np.linspace(0, 360, symmetry + 1)
        add_phi = add_phi[:-1]
        phi = phi + np.random.choice(add_phi, size=phi.shape[0])
    motl = cryomotl.Motl()
    motl.fill(
        {
            "x": rpos[:, 0] + 1, "y": rpos[:, 1] + 1, "z": rpos[:, 2] + 1, "score": filtered_scores, "class": 1,
            "tomo_id": tomo_id, "object_id": object_id, "phi": phi, "theta": theta, "psi": psi,
            "subtomo_id": np.arange(1, rpos.shape[0] + 1),
        }
    )
    del s_ind, scored_coords
    gc.collect()
    return motl


def quiet(fn, *a, **k):
    with contextlib.redirect_stdout(io.StringIO()):
        return fn(*a, **k)


def same_motl(a, b):
    if a is None or b is None:
        assert a is None and b is None, (a, b)
        return
    assert type(a) is type(b)
    pd.testing.assert_frame_equal(a.df, b.df, check_exact=True)


# ---------------------------------------------------------------- input generation
def make_maps(rng, shape, n_angles, numbering, dtype):
    n_vox = int(np.prod(shape))
    kind = rng.integers(0, 3)
    if kind == 0:  # plateau-free by construction: a permutation of distinct values (negative ones too)
        vals = (rng.permutation(n_vox).astype(np.float64) - n_vox * 0.3) / n_vox
    elif kind == 1:  # smooth blobs + noise (neighbouring voxels correlated, like a real CC map)
        from scipy.ndimage import gaussian_filter
        vals = gaussian_filter(rng.normal(0, 1, size=shape), sigma=float(rng.choice([0.8, 1.5, 3.0]))).ravel()
        vals = vals / np.abs(vals).max()
    else:
        vals = rng.normal(0.1, 0.05, n_vox)
    scores = vals.reshape(shape).astype(dtype)
    # quantifier: plateau-free scores
    if len(np.unique(scores)) != n_vox:
        return None
    angles = rng.integers(numbering, numbering + n_angles, size=shape)
    angles = angles.astype([np.float32, np.int32, np.float64][rng.integers(0, 3)])
    return scores, angles


def brute_force_peaks(scores, thr, d):
    """independent greedy: best voxel first, accepted iff farther than d from every accepted voxel"""
    idx = np.argwhere(scores > thr)
    vals = scores[scores > thr]
    order = sorted(range(len(vals)), key=lambda i: float(vals[i]), reverse=True)
    peaks = []
    for i in order:
        p = idx[i]
        if all(int(((p - q) ** 2).sum()) > d * d for q in peaks):
            peaks.append(p)
    return np.array(peaks).reshape(-1, 3)


def check_property(motl, scores, angles_map, ang_table, numbering, thr, d, tomo_id, object_id):
    """ang_table: (N,3) array of (phi, theta, psi) rows as the list file defines them"""
    n_supra = int((scores > thr).sum())
    if n_supra == 0:
        assert motl is None
        return 0
    df = motl.df
    assert len(df) >= 1
    assert list(df.index) == list(range(len(df)))
    pos1 = df[["x", "y", "z"]].values
    assert np.all(pos1 == np.round(pos1))
    vox = pos1.astype(int) - 1  # 1-based voxel position
    assert np.all(vox >= 0) and np.all(vox < np.array(scores.shape)), "positions inside the map"
    assert len({tuple(v) for v in vox}) == len(vox)
    peak_scores = scores[vox[:, 0], vox[:, 1], vox[:, 2]]
    # each peak carries its voxel's score and exceeds the threshold
    assert np.array_equal(df["score"].values.astype(np.float64), peak_scores.astype(np.float64)), "score column"
    assert np.all(peak_scores > thr), "peak not above the threshold"
    # farther apart than the diameter (exact integer arithmetic on voxel offsets)
    diff = vox[:, None, :] - vox[None, :, :]
    d2 = (diff**2).sum(axis=2)
    np.fill_diagonal(d2, np.iinfo(np.int64).max)
    assert np.all(d2 > d * d), "two peaks within the particle diameter"
    # every supra-threshold voxel is within the diameter of a peak with an equal or higher score
    supra = np.argwhere(scores > thr)
    sv = scores[scores > thr]
    for start in range(0, len(supra), 2000):
        blk = supra[start : start + 2000]
        dd = ((blk[:, None, :] - vox[None, :, :]) ** 2).sum(axis=2)
        ok = np.any((dd <= d * d) & (peak_scores[None, :] >= sv[start : start + 2000][:, None]), axis=1)
        assert np.all(ok), "supra-threshold voxel not dominated by a peak"
    # Euler angles the angle-map entry points to
    ai = angles_map[vox[:, 0], vox[:, 1], vox[:, 2]].astype(int) - numbering
    assert np.array_equal(df["phi"].values, ang_table[ai, 0]), "phi"
    assert np.array_equal(df["theta"].values, ang_table[ai, 1]), "theta"
    assert np.array_equal(df["psi"].values, ang_table[ai, 2]), "psi"
    # bookkeeping columns
    assert np.all(df["tomo_id"].values == tomo_id) and np.all(df["object_id"].values == object_id)
    assert np.all(df["class"].values == 1)
    assert np.array_equal(df["subtomo_id"].values, np.arange(1, len(df) + 1))
    assert np.all(df[["shift_x", "shift_y", "shift_z", "geom1", "geom2", "geom3", "geom4", "geom5", "subtomo_mean"]].values == 0)
    # the greedy solution is unique for plateau-free scores: same peaks in the same (descending-score) order
    ref = brute_force_peaks(scores, thr, d)
    assert np.array_equal(ref, vox), "peaks differ from the brute-force reference"
    assert np.all(np.diff(peak_scores.astype(np.float64)) < 0)
    return len(df)


def main():
    rng = np.random.default_rng(31415)
    tmp = tempfile.mkdtemp(prefix="c07c_")
    n_cases, n_peaks, n_none = 0, 0, 0
    shapes = [(1, 1, 1), (2, 3, 1), (5, 5, 5), (7, 4, 9), (12, 20, 6), (16, 16, 16), (25, 9, 14), (3, 40, 5), (40, 40, 40), (30, 22, 17)]
    diameters = [0.5, 1.0, 1.5, 2.0, 2.9, 3.0, 4.2, 5.0, 6.5, 9.0, 13.0, 100.0]
    for rep in range(120):
        shape = shapes[rep % len(shapes)] if rep % 2 else tuple(int(v) for v in rng.integers(1, 22, 3))
        numbering = int(rng.integers(0, 2))
        order = ["zxz", "zzx"][rng.integers(0, 2)]
        n_angles = int(rng.choice([1, 2, 13, 200]))
        mm = make_maps(rng, shape, n_angles, numbering, [np.float32, np.float64][rng.integers(0, 2)])
        if mm is None:
            continue
        scores, angles_map = mm
        raw = np.round(rng.uniform(-180, 180, size=(n_angles, 3)), 3)  # the three columns of the list file
        ang_file = os.path.join(tmp, f"angles_{rep}.csv")
        pd.DataFrame(raw).to_csv(ang_file, header=False, index=False)
        table = raw if order == "zxz" else raw[:, [0, 2, 1]]  # file columns of a zzx list: phi, psi, theta
        # threshold: keep the number of supra-threshold voxels moderate; sometimes none / all
        n_vox = scores.size
        q = rng.choice([0.0, 0.5, 0.9, 0.97, 0.995, 1.0]) if n_vox <= 4000 else rng.choice([0.97, 0.99, 0.999, 1.0])
        flat = np.sort(scores.ravel())
        thr = float(flat[-1]) if q == 1.0 else (float(flat[0]) - 1.0 if q == 0.0 else float(np.quantile(flat, q)))
        d = float(diameters[rng.integers(0, len(diameters))])
        tomo_id = int(rng.choice([1, 17, 203]))
        object_id = None if rng.integers(0, 2) else int(rng.integers(2, 9))
        kw = dict(scores_threshold=thr, angles_order=order, angles_numbering=numbering, object_id=object_id)
        s_before, a_before = scores.copy(), angles_map.copy()

        got = quiet(tmana.scores_extract_particles, scores, angles_map, ang_file, tomo_id, d, **kw)
        n = check_property(got, scores, angles_map, table, numbering, thr, d, tomo_id, 1 if object_id is None else object_id)
        n_cases += 1
        n_peaks += n
        n_none += got is None
        assert np.array_equal(scores, s_before) and np.array_equal(angles_map, a_before), "inputs modified"

        # identical to the original implementation
        want = quiet(scores_extract_particles_ORIG, scores, angles_map, ang_file, tomo_id, d, **kw)
        same_motl(got, want)
        # repeated call on the same objects
        same_motl(quiet(tmana.scores_extract_particles, scores, angles_map, ang_file, tomo_id, d, **kw), got)
        # angle list handed over as array
        same_motl(
            quiet(tmana.scores_extract_particles, scores, angles_map, raw, tomo_id, d, **kw),
            quiet(scores_extract_particles_ORIG, scores, angles_map, raw, tomo_id, d, **kw),
        )
        # other options: compare with the original only
        extra = [
            dict(n_particles=int(rng.integers(1, 6))),
            dict(cluster_size=int(rng.integers(1, 4))),
            dict(n_particles=3, cluster_size=2),
            dict(tomo_mask=(rng.uniform(size=shape) > 0.3).astype(np.float32)),
        ]
        for e in extra:
            k2 = dict(kw, **e)
            same_motl(
                quiet(tmana.scores_extract_particles, scores, angles_map, ang_file, tomo_id, d, **k2),
                quiet(scores_extract_particles_ORIG, scores, angles_map, ang_file, tomo_id, d, **k2),
            )
        if n_vox >= 125:
            for e in (dict(sigma_threshold=float(rng.choice([1.0, 2.5, 4.0]))), dict()):
                k2 = dict(angles_order=order, angles_numbering=numbering, **e)
                a = quiet(tmana.scores_extract_particles, scores, angles_map, ang_file, tomo_id, max(d, 1.5), **k2)
                b = quiet(scores_extract_particles_ORIG, scores, angles_map, ang_file, tomo_id, max(d, 1.5), **k2)
                same_motl(a, b)

    # maps with plateaus are outside the quantifier, but the two implementations still have to agree
    for rep in range(15):
        shape = tuple(int(v) for v in rng.integers(2, 12, 3))
        scores = rng.integers(0, 6, size=shape).astype(np.float32) / 5
        angles_map = rng.integers(0, 5, size=shape).astype(np.float32)
        raw = rng.uniform(-180, 180, size=(5, 3))
        for d in (1.0, 2.0, 3.5):
            same_motl(
                quiet(tmana.scores_extract_particles, scores, angles_map, raw, 1, d, scores_threshold=0.5),
                quiet(scores_extract_particles_ORIG, scores, angles_map, raw, 1, d, scores_threshold=0.5),
            )

    assert n_cases > 90 and n_peaks > 1000 and n_none >= 1, (n_cases, n_peaks, n_none)
    print(f"checked {n_cases} score maps, {n_peaks} peaks, {n_none} maps without supra-threshold voxel")
    print("PASS")


if __name__ == "__main__":
    main()
