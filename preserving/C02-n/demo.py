import sys, os

sys.path.insert(0, os.getcwd())

import copy
import random
import re
import shutil
import string
import tempfile
import warnings

import numpy as np
import pandas as pd

from cryocat import starfileio
from cryocat.starfileio import Starfile, Token, TokenType

warnings.simplefilter("ignore")
SEED = int(os.environ.get("DEMO_SEED", "20260928"))
TMP = tempfile.mkdtemp(prefix="c02demo_")
CHECKS = {"n": 0}


def ok(cond, msg):
    CHECKS["n"] += 1
    if not cond:
        print("FAIL:", msg)
        shutil.rmtree(TMP, ignore_errors=True)
        sys.exit(1)


# ---------------------------------------------------------------------------------------------------------------------
# independent reading of a STAR text: line based, regular expressions, no code shared with cryocat
# ---------------------------------------------------------------------------------------------------------------------
INT_RE = re.compile(r"^[+-]?[0-9]+$")
NUM_RE = re.compile(r"^[+-]?([0-9]+\.?[0-9]*|\.[0-9]+)([eE][+-]?[0-9]+)?$")


def ref_parse(raw):
    """raw bytes of a STAR file -> list of dicts(name, labels, label_comments, rows) ; rows are lists of string tokens"""
    text = raw.decode("ascii").replace("\r\n", "\n")
    blocks, state, cur = [], "block", None
    for line in text.split("\n"):
        body, hash_, comment = line.partition("#")
        toks = re.findall(r"[^ \t]+", body)
        if state == "block":
            if not toks:
                continue
            assert len(toks) == 1 and toks[0].startswith("data_"), line
            cur = {"name": toks[0], "labels": [], "label_comments": [], "rows": []}
            blocks.append(cur)
            state = "loop"
        elif state == "loop":
            if not toks:
                continue
            assert toks == ["loop_"] and not hash_, line
            state = "labels"
        elif state == "labels" and toks and toks[0].startswith("_"):
            assert len(toks) == 1, line
            cur["labels"].append(toks[0][1:])
            cur["label_comments"].append(comment.strip() if hash_ else None)
        elif state in ("labels", "gap") and not toks:
            assert cur["labels"], line
            state = "gap"
        elif not toks:  # state rows: a blank / comment line closes the block
            state = "block"
        else:
            assert len(toks) == len(cur["labels"]) and not hash_, line
            cur["rows"].append(toks)
            state = "rows"
    return blocks


def column_kind(tokens):
    if tokens and all(INT_RE.match(t) for t in tokens):
        return "int"
    if tokens and all(NUM_RE.match(t) for t in tokens):
        return "float"
    return "text"


def check_frames_against_blocks(frames, specifiers, blocks, where):
    """what Starfile.read returned against what the independent tokenizer found"""
    ok(isinstance(frames, list) and isinstance(specifiers, list), f"{where}: list results")
    ok(specifiers == [b["name"] for b in blocks], f"{where}: block names {specifiers} vs {[b['name'] for b in blocks]}")
    ok(len(frames) == len(blocks), f"{where}: number of frames")
    for k, (f, b) in enumerate(zip(frames, blocks)):
        w = f"{where} block {k} ({b['name']})"
        ok(isinstance(f, pd.DataFrame), f"{w}: frame type")
        ok(list(f.columns) == b["labels"], f"{w}: labels {list(f.columns)} vs {b['labels']}")
        ok(len(f) == len(b["rows"]), f"{w}: number of rows {len(f)} vs {len(b['rows'])}")
        ok(list(f.index) == list(range(len(b["rows"]))), f"{w}: rows numbered 0..n-1")
        for j, label in enumerate(b["labels"]):
            tokens = [r[j] for r in b["rows"]]
            col = f.iloc[:, j]
            kind = column_kind(tokens)
            if not tokens:
                continue
            if kind == "int":
                ok(col.dtype.kind in "iu", f"{w} column {label}: integer column read as {col.dtype}")
                ok([int(v) for v in col.tolist()] == [int(t) for t in tokens], f"{w} column {label}: integer values")
            elif kind == "float":
                ok(col.dtype.kind == "f", f"{w} column {label}: float column read as {col.dtype}")
                want = np.array([float(t) for t in tokens])
                got = col.to_numpy(dtype=float)
                ok(np.all(np.abs(got - want) <= 1e-12 * np.abs(want)), f"{w} column {label}: float values")
            else:
                ok(col.dtype.kind not in "iufb", f"{w} column {label}: text column read as {col.dtype}")
                vals = col.tolist()
                ok(all(type(v) is str for v in vals) and vals == tokens, f"{w} column {label}: text values {vals[:3]}")


# ---------------------------------------------------------------------------------------------------------------------
# random tables
# ---------------------------------------------------------------------------------------------------------------------
TEXT_ALPHABET = string.ascii_letters + string.digits + "._-/:+*@~[](),;=!?%&|^<>'\"\\$"


def is_number(tok):
    try:
        float(tok)
        return True
    except ValueError:
        return False


def rand_text_token(rng):
    if rng.random() < 0.08:
        return rng.choice(["True", "False", "NA", "null", "None", "N/A", "data_x", "x_", "a", "-", "+", ".", "e5", "1.5e",
                           "1,5", "0x1A", "--1", "12a", "TS_01/tomo.mrc", "000001@stack.mrcs", "loop", "data"])
    while True:
        t = "".join(rng.choice(TEXT_ALPHABET) for _ in range(rng.randint(1, 14)))
        if t[0] != "_" and not is_number(t):
            return t


def rand_label(rng, used):
    while True:
        t = rng.choice(["rln", "", "x", "tomo_", "Col"]) + "".join(
            rng.choice(string.ascii_letters + string.digits + "_") for _ in range(rng.randint(1, 16))
        )
        if t[0] != "_" and t not in used:
            used.add(t)
            return t


def rand_float(rng):
    r = rng.random()
    if r < 0.45:
        return rng.uniform(-1000.0, 1000.0)
    if r < 0.55:
        return float(rng.randint(-50, 50))
    if r < 0.62:
        return rng.choice([0.0, -0.0, 1.0, -1.0, 0.5, 1e-6, -1e-6, 0.1234565, 2.5e-7, 4.9e-7, 180.0, -180.0, 360.0])
    if r < 0.75:
        return rng.uniform(-1, 1) * 10 ** rng.randint(-9, -3)
    if r < 0.9:
        return rng.uniform(-1, 1) * 10 ** rng.randint(4, 15)
    return round(rng.uniform(-10, 10), rng.randint(0, 8))


def rand_int(rng):
    r = rng.random()
    if r < 0.6:
        return rng.randint(-1000, 1000)
    if r < 0.7:
        return 0
    if r < 0.85:
        return rng.randint(-(2**31), 2**31)
    return rng.randint(-(2**62), 2**62)


def rand_column(rng, n):
    """-> (kind, pandas Series without name / default index)"""
    r = rng.random()
    if r < 0.3:
        sub = rng.random()
        if sub < 0.6:
            return "int", pd.Series([rand_int(rng) for _ in range(n)], dtype=np.int64)
        if sub < 0.75:
            return "int", pd.Series([rng.randint(-(2**31), 2**31 - 1) for _ in range(n)], dtype=np.int32)
        if sub < 0.85:
            return "int", pd.Series([rng.randint(-128, 127) for _ in range(n)], dtype=np.int8)
        if sub < 0.95:
            return "int", pd.Series([rng.randint(0, 65535) for _ in range(n)], dtype=np.uint16)
        return "int", pd.Series([rand_int(rng) for _ in range(n)], dtype=object)  # Python ints in an object column
    if r < 0.65:
        if rng.random() < 0.85:
            return "float", pd.Series([rand_float(rng) for _ in range(n)], dtype=np.float64)
        return "float32", pd.Series([rng.uniform(-1000, 1000) for _ in range(n)], dtype=np.float32)
    tokens = [rand_text_token(rng) for _ in range(n)]
    if rng.random() < 0.3:  # numeric-looking tokens in a text column (at least one token stays non-numeric)
        for i in range(1, n):
            if rng.random() < 0.7:
                tokens[i] = rng.choice(["12", "3.50", "007", "-1", "1e5", "+4", "0"])
    if rng.random() < 0.5:
        return "text", pd.Series(tokens, dtype=object)
    return "text", pd.Series(tokens)  # the default string dtype of the installed pandas


def rand_index(rng, n):
    r = rng.random()
    if r < 0.4:
        return pd.RangeIndex(n)
    if r < 0.55:
        return pd.RangeIndex(5, 5 + 3 * n, 3)
    if r < 0.7:
        p = list(range(n))
        rng.shuffle(p)
        return pd.Index(p)
    if r < 0.8:
        return pd.Index([f"r{rng.randint(0, 3)}" for _ in range(n)])  # repeated text labels
    if r < 0.9:
        return pd.Index([rng.randint(-5, 5) for _ in range(n)])  # repeated / negative integer labels
    return pd.Index(np.linspace(0.5, 9.5, n)) if n else pd.Index([], dtype=float)


def rand_table(rng, nrows=None, ncols=None):
    n = nrows if nrows is not None else rng.choice([1, 1, 2, 3, 5, 10, rng.randint(1, 60), rng.randint(1, 200)])
    m = ncols if ncols is not None else rng.choice([1, 1, 2, 3, 5, rng.randint(1, 12), rng.randint(1, 30)])
    used, kinds, data, labels = set(), [], [], []
    for _ in range(m):
        kind, col = rand_column(rng, n)
        kinds.append(kind)
        data.append(col)
        labels.append(rand_label(rng, used))
    df = pd.concat(data, axis=1)
    df.columns = labels
    df.index = rand_index(rng, n)
    if n == 0 and rng.random() < 0.5:
        df = pd.DataFrame(columns=labels)
    return df, kinds


BLOCK_NAMES = ["data_", "data_particles", "data_optics", "data_stopgap_motivelist", "data_stopgap_wedgelist", "data_general"]


def rand_block_name(rng):
    if rng.random() < 0.1:
        return "data_stopgap_" + "".join(rng.choice(string.ascii_lowercase) for _ in range(rng.randint(1, 8)))
    return rng.choice(BLOCK_NAMES)


def rand_tables(rng):
    nb = rng.choice([1, 1, 2, 3, 4])
    tables, kinds, names = [], [], []
    for b in range(nb):
        empty_last = b == nb - 1 and rng.random() < 0.15
        t, k = rand_table(rng, nrows=0 if empty_last else None)
        tables.append(t)
        kinds.append(k)
        names.append(rand_block_name(rng))
    return tables, kinds, names


def check_written_text(raw, tables, kinds, names, number_columns, where):
    """the text of the written file, read by the independent tokenizer, against the tables that were written"""
    blocks = ref_parse(raw)
    ok([b["name"] for b in blocks] == names, f"{where}: block names in the text")
    for k, (b, t, kd) in enumerate(zip(blocks, tables, kinds)):
        w = f"{where} text block {k} ({b['name']})"
        ok(b["labels"] == list(t.columns), f"{w}: labels")
        numbered = number_columns and "stopgap" not in b["name"]
        want = [str(i + 1) for i in range(t.shape[1])] if numbered else [None] * t.shape[1]
        ok(b["label_comments"] == want, f"{w}: header style {b['label_comments'][:3]}")
        ok(len(b["rows"]) == len(t), f"{w}: rows {len(b['rows'])} vs {len(t)}")
        for j in range(t.shape[1]):
            tokens = [r[j] for r in b["rows"]]
            vals = t.iloc[:, j].tolist()
            if kd[j] == "text":
                ok(tokens == vals, f"{w} column {j}: text tokens")
            elif kd[j] == "int":
                ok(all(INT_RE.match(x) for x in tokens) and [int(x) for x in tokens] == [int(v) for v in vals], f"{w} column {j}: int tokens")
            else:
                rel = 1e-12 if kd[j] == "float" else 1e-6
                for x, v in zip(tokens, vals):
                    ok(NUM_RE.match(x) is not None, f"{w} column {j}: float token {x}")
                    ok(abs(float(x) - float(v)) <= 0.5e-6 * (1 + 1e-9) + rel * abs(float(v)), f"{w} column {j}: {x} vs {v!r}")
    return blocks


def check_read_against_tables(frames, tables, kinds, where):
    for k, (f, t, kd) in enumerate(zip(frames, tables, kinds)):
        w = f"{where} frame {k}"
        ok(list(f.columns) == list(t.columns) and len(f) == len(t), f"{w}: shape / labels")
        for j in range(t.shape[1]):
            got, vals = f.iloc[:, j].tolist(), t.iloc[:, j].tolist()
            if kd[j] == "text":
                ok(got == vals, f"{w} column {j}: text unchanged")
            elif kd[j] == "int":
                ok(len(t) == 0 or f.iloc[:, j].dtype.kind in "iu", f"{w} column {j}: integer dtype")
                ok([int(g) for g in got] == [int(v) for v in vals], f"{w} column {j}: integers unchanged")
            else:
                rel = 1e-12 if kd[j] == "float" else 1e-6
                ok(len(t) == 0 or f.iloc[:, j].dtype.kind == "f", f"{w} column {j}: float dtype")
                ok(all(abs(float(g) - float(v)) <= 0.5e-6 * (1 + 1e-9) + rel * abs(float(v)) for g, v in zip(got, vals)), f"{w} column {j}: floats to 6 decimals")


def roundtrip_case(rng, write=None, read=None, tag="rt"):
    write = write or Starfile.write
    read = read or Starfile.read
    tables, kinds, names = rand_tables(rng)
    number_columns = rng.random() < 0.5
    path = os.path.join(TMP, f"{tag}.star")
    arg = [t.copy() for t in tables]
    if rng.random() < 0.5:
        write(arg, path, specifiers=list(names), number_columns=number_columns)
    else:
        write(arg, path, list(names), None, number_columns)  # positional form
    with open(path, "rb") as fh:
        raw = fh.read()
    blocks = check_written_text(raw, tables, kinds, names, number_columns, tag)
    frames, specifiers, comments = read(path)
    check_frames_against_blocks(frames, specifiers, blocks, tag)
    check_read_against_tables(frames, tables, kinds, tag)
    ok(comments == [[] for _ in names], f"{tag}: no comments come back from a file written without comments")
    # repeated call on the same objects (the list handed over now holds the rounded tables) gives the same text
    write(arg, path, specifiers=list(names), number_columns=number_columns)
    with open(path, "rb") as fh:
        ok(fh.read() == raw, f"{tag}: second write of the same list gives the same text")
    return tables, kinds, names, number_columns, raw


# ---------------------------------------------------------------------------------------------------------------------
# hand-built STAR texts
# ---------------------------------------------------------------------------------------------------------------------
NUMERIC_FORMS = ["{:d}", "{:+d}", "{:03d}", "{:.3f}", "{:.6f}", "{:e}", "{:E}", "{:g}", "{:.1f}"]


def rand_ws(rng, allow_empty=False):
    n = rng.randint(0 if allow_empty else 1, 4)
    return "".join(rng.choice(" \t") if rng.random() < 0.6 else " " * rng.randint(1, 5) for _ in range(n))


def filler_lines(rng, lo, hi):
    out = []
    for _ in range(rng.randint(lo, hi)):
        r = rng.random()
        if r < 0.35:
            out.append("")
        elif r < 0.5:
            out.append(rand_ws(rng))
        elif r < 0.6:
            out.append("#")
        elif r < 0.8:
            out.append("# " + rng.choice(["version 30001", "created by relion", "_notAlabel #3", "data_fake", "loop_", "1 2 3"]))
        else:
            out.append(rand_ws(rng) + "#" + rand_ws(rng, True) + "indented comment # with a second hash" + rand_ws(rng, True))
    return out


def separator_lines(rng):
    """at least one blank or comment line"""
    out = filler_lines(rng, 0, 2)
    out.insert(rng.randint(0, len(out)), rng.choice(["", "  ", "\t", "# next block", "#"]))
    return out


def rand_star_text(rng):
    nb = rng.choice([1, 1, 2, 3, 4])
    lines, expect = [], []
    lines += filler_lines(rng, 0, 3)
    for b in range(nb):
        name = rand_block_name(rng)
        ncols = rng.choice([1, 2, 3, 5, rng.randint(1, 30)])
        empty = b == nb - 1 and rng.random() < 0.25
        nrows = 0 if empty else rng.choice([1, 1, 2, 5, rng.randint(1, 40)])
        used = set()
        labels = [rand_label(rng, used) for _ in range(ncols)]
        cols = []
        for _ in range(ncols):
            r = rng.random()
            if r < 0.3:
                form = rng.choice(NUMERIC_FORMS[:3])
                cols.append([form.format(rand_int(rng) if "03" not in form else rng.randint(0, 99)) for _ in range(nrows)])
            elif r < 0.6:
                cols.append([_fmt(rng, rand_float(rng)) for _ in range(nrows)])
            else:
                col = [rand_text_token(rng) for _ in range(nrows)]
                for i in range(1, nrows):
                    if rng.random() < 0.3:
                        col[i] = rng.choice(["12", "3.50", "007", "-1", "1e5"])
                cols.append(col)
        rows = [[c[i] for c in cols] for i in range(nrows)]
        expect.append({"name": name, "labels": labels, "rows": rows})
        lines.append(rand_ws(rng, True) * (rng.random() < 0.2) + name + rand_ws(rng, True) * (rng.random() < 0.4))
        lines += filler_lines(rng, 0, 2)
        lines.append(rand_ws(rng, True) * (rng.random() < 0.2) + "loop_" + rand_ws(rng, True) * (rng.random() < 0.4))
        style = rng.choice(["numbered", "plain", "mixed"])
        for i, lab in enumerate(labels):
            s = rand_ws(rng, True) * (rng.random() < 0.1) + "_" + lab
            if style == "numbered" or (style == "mixed" and rng.random() < 0.5):
                s += rng.choice([" ", "\t", "", "   "]) + "#" + rng.choice(["", " "]) + str(i + 1)
            lines.append(s + rand_ws(rng, True) * (rng.random() < 0.3))
        lines += filler_lines(rng, 0, 2) if rng.random() < 0.5 else []
        for row in rows:
            s = rand_ws(rng, True) * (rng.random() < 0.3)
            s += "".join(tok + (rand_ws(rng) if i < len(row) - 1 else "") for i, tok in enumerate(row))
            lines.append(s + rand_ws(rng, True) * (rng.random() < 0.4))
        if b < nb - 1:
            lines += separator_lines(rng)
    lines += filler_lines(rng, 0, 3)
    eol = rng.choice(["\n", "\n", "\r\n"])
    text = eol.join(lines) + (eol if rng.random() < 0.6 else "")
    return text.encode("ascii"), expect


def _fmt(rng, v):
    form = rng.choice(NUMERIC_FORMS[3:])
    s = form.format(v)
    if rng.random() < 0.1 and "." in s and "e" not in s.lower():
        s = s.rstrip("0") or "0"  # forms like '5.' ; '.5' comes from stripping a leading zero below
    if rng.random() < 0.05 and s.startswith("0."):
        s = s[1:]
    return s


def handbuilt_case(rng, read=None, tag="hb"):
    read = read or Starfile.read
    raw, expect = rand_star_text(rng)
    blocks = ref_parse(raw)
    # the generator's own bookkeeping and the independent tokenizer agree on what the text holds
    ok([(b["name"], b["labels"], b["rows"]) for b in blocks] == [(e["name"], e["labels"], e["rows"]) for e in expect], f"{tag}: reference tokenizer vs generator")
    path = os.path.join(TMP, f"{tag}.star")
    with open(path, "wb") as fh:
        fh.write(raw)
    frames, specifiers, comments = read(path)
    check_frames_against_blocks(frames, specifiers, blocks, tag)
    ok(len(comments) == len(blocks) and all(isinstance(c, list) for c in comments), f"{tag}: one comment list per block")
    return raw, path, blocks


FIXED_TEXTS = [
    b"data_\n\nloop_\n_a #1\n_b #2\n1 2\n3 4\n",
    b"data_\n\nloop_\n_a #1\n_b #2\n1 2\n3 4",  # no final newline
    b"data_\nloop_\n_a\n",  # empty only block
    b"data_\nloop_\n_a",  # ... without final newline
    b"data_\nloop_\n_a #1",  # ... label comment at the very end of the text
    b"data_optics\n\nloop_\n_x #1\n1\n\ndata_particles\n\nloop_\n_y #1\n_z #2\n",  # empty last block after a full one
    b"\n\n# c\ndata_stopgap_motivelist\n\nloop_\n_motl_idx\n_class\n\n1\tA\n2\tB\n\n",
    b"data_\r\n\r\nloop_\r\n_a #1\r\n_b #2\r\n1.5\tx\r\n2.5\ty\r\n",
    b"data_\r\n\r\nloop_\r\n_a #1\r\n_b #2\r\n1.5\tx\r\n2.5\ty",
    b"  data_  \n \t \n  loop_\t\n  _a#1\n\t_b\t#2  \n# rows follow\n   1    2   \n\t3\t\t4\t\n#end\ndata_\nloop_\n_q\nq1\n",
    b"data_\nloop_\n_a\n-0.0\n+5.\n.5\n1E3\n",
    b"data_\nloop_\n_a\n007\n+3\n-0\n",
]


# ---------------------------------------------------------------------------------------------------------------------
# the original Starfile.write (text as in the unmodified tree), kept to compare the written texts byte by byte
# ---------------------------------------------------------------------------------------------------------------------
def orig_write(frames, path, specifiers=None, comments=None, number_columns=True, float_precision=6):
    if specifiers is None:
        specifiers = ["data"] * len(frames)
    if comments is None:
        comments = (None,) * len(frames)

    if len(frames) != len(specifiers) or len(frames) != len(comments) or len(specifiers) != len(comments):
        raise ValueError(
            f"Invalid size of the lists found. "
            f"The sizes are (frames: {len(frames)}), "
            f"(specifiers: {len(specifiers)}), "
            f"and (comments: {len(comments)})."
        )

    for i, f in enumerate(frames):
        frames[i] = f.round(float_precision)

    with open(path, "w") as file:

        def write_with_number(name, number):
            file.write(f"_{name} #{number}\n")

        def write_without_number(name, _):
            file.write(f"_{name}\n")

        def format_value(value):
            return "{:<10}".format(str(value))

        for frame, specifier, comment in zip(frames, specifiers, comments):
            # DataFrame.applymap was renamed to DataFrame.map in pandas 2.1 and removed in pandas 3
            frame = frame.map(format_value) if hasattr(frame, "map") else frame.applymap(format_value)
            stopgap = "stopgap" in specifier
            write_function = write_without_number if not number_columns or stopgap else write_with_number
            if comment is not None:
                for c in comment:
                    file.write(f"\n# {c}")
                file.write("\n")
            file.write(f"\n{specifier}\n\n")
            file.write("loop_\n")
            for index, column in enumerate(frame.columns, 1):
                write_function(column, index)
            if stopgap:
                file.write("\n")

            for row in frame.itertuples(index=False):
                file.write("\t".join(map(str, row)) + "\n")
            # formatted_row = "\t".join("{:<10}".format(str(value)) for value in row)
            # file.write(formatted_row + "\n")
            file.write("\n")


def same_text(tables, tag, **kw):
    """current writer and original writer on equal copies: same bytes, same state of the list handed over, same outcome"""
    a, b = [t.copy() for t in tables], [t.copy() for t in tables]
    pa, pb = os.path.join(TMP, "cur.star"), os.path.join(TMP, "orig.star")
    ea = eb = None
    try:
        Starfile.write(a, pa, **copy.deepcopy(kw))
    except Exception as e:  # noqa
        ea = (type(e), str(e))
    try:
        orig_write(b, pb, **copy.deepcopy(kw))
    except Exception as e:  # noqa
        eb = (type(e), str(e))
    ok(ea == eb, f"{tag}: outcome {ea} vs {eb}")
    if ea is None:
        with open(pa, "rb") as fa, open(pb, "rb") as fb:
            ra, rb = fa.read(), fb.read()
        ok(ra == rb, f"{tag}: written text differs from the original writer's")
    ok(len(a) == len(b), f"{tag}: list length")
    for x, y in zip(a, b):
        pd.testing.assert_frame_equal(x, y, check_exact=True)
    return None if ea else ra


def main():
    rng = random.Random(SEED)
    # 1. the property itself: round trips and hand-built texts
    for k, raw in enumerate(FIXED_TEXTS):
        p = os.path.join(TMP, "fx.star")
        with open(p, "wb") as fh:
            fh.write(raw)
        fr, sp, co = Starfile.read(p)
        check_frames_against_blocks(fr, sp, ref_parse(raw), f"fixed{k}")
    for i in range(160):
        tables, kinds, names, number_columns, raw = roundtrip_case(rng, tag=f"rt{i}")
        # 2. current writer against the original writer on the same tables
        got = same_text(tables, f"rt{i}/cmp", specifiers=list(names), number_columns=number_columns)
        ok(got == raw, f"rt{i}: text stable")
        if i % 4 == 0:
            cm = [rng.choice([None, [], ["one comment"], ["first", "second # with hash"]]) for _ in names]
            raw_c = same_text(tables, f"rt{i}/comments", specifiers=tuple(names), comments=cm, number_columns=number_columns,
                              float_precision=rng.choice([0, 2, 6, 9]))
            fr, sp, co = Starfile.read(os.path.join(TMP, "cur.star"))
            ok(sp == list(names) and co == [list(c or []) for c in cm], f"rt{i}: comments come back per block")
    for i in range(200):
        handbuilt_case(rng, tag=f"hb{i}")

    # 3. edge tables: single row / single column, empty last block, integer-valued floats, thresholds of the rounding,
    #    odd element types (outside the property's quantifier, but the text must not change for them either)
    one = pd.DataFrame({"a": [1]})
    single_col = pd.DataFrame({"only": [0.1234565, -0.0, 1e-7, 123456789.123456789]}, index=[9, 9, 3, -1])
    empty_obj = pd.DataFrame(columns=["p", "q"])
    empty_typed = pd.DataFrame({"p": np.array([], dtype=float), "q": np.array([], dtype=np.int64), "r": pd.Series([], dtype=str)})
    dup = pd.DataFrame([[1, 2.5, "x"], [3, 4.5, "y"]], columns=["a", "a", "b"])
    odd = pd.DataFrame({
        "i8": np.array([1, -2, 3], dtype=np.int8), "u64": np.array([1, 2, 2**63 + 5], dtype=np.uint64),
        "f32": np.array([1.1, np.nan, 3.3], dtype=np.float32), "f16": np.array([1.1, 2.2, 3.3], dtype=np.float16),
        "f64": [1.5, np.nan, np.inf], "I64": pd.array([1, None, 3], dtype="Int64"), "I64full": pd.array([1, 2, 3], dtype="Int64"),
        "F64": pd.array([1.5, None, 3], dtype="Float64"), "b": [True, False, True], "B": pd.array([True, None, False], dtype="boolean"),
        "cat": pd.Categorical(["a", "b", "a"]), "catn": pd.Categorical([1, 2, 1]),
        "dt": pd.to_datetime(["2020-01-01", "2020-01-02", None]), "s": pd.Series(["x", None, "z"]),
        "o": pd.Series(["x", None, 3.5], dtype=object), "st": pd.array(["x", None, "z"], dtype="string"),
        "mix": pd.Series([np.int64(3), np.float32(1.1), "a"], dtype=object),
    })
    for tag, tabs, kw in [
        ("one", [one], dict(specifiers=["data_"])),
        ("default specifiers", [one, single_col], dict()),
        ("single column", [single_col], dict(specifiers=["data_particles"], number_columns=False)),
        ("empty last (object)", [single_col, empty_obj], dict(specifiers=["data_optics", "data_particles"])),
        ("empty last (typed)", [one, empty_typed], dict(specifiers=["data_stopgap_motivelist", "data_stopgap_x"])),
        ("only empty", [empty_obj], dict(specifiers=["data_"])),
        ("repeated labels", [dup], dict(specifiers=["data_"])),
        ("odd element types", [odd], dict(specifiers=["data_"])),
        ("odd element types, stopgap", [odd, dup], dict(specifiers=["data_stopgap_a", "data_"], float_precision=3)),
        ("length mismatch", [one], dict(specifiers=["data_", "data_x"])),
        ("no frames", [], dict(specifiers=[])),
    ]:
        same_text(tabs, tag, **kw)
    # the same frame object twice in one list, and the list written again after the first call replaced its elements
    shared = [single_col, single_col]
    Starfile.write(shared, os.path.join(TMP, "s1.star"), specifiers=["data_", "data_"])
    Starfile.write(shared, os.path.join(TMP, "s2.star"), specifiers=["data_", "data_"])
    with open(os.path.join(TMP, "s1.star"), "rb") as f1, open(os.path.join(TMP, "s2.star"), "rb") as f2:
        ok(f1.read() == f2.read(), "repeated write of one list")
    ok(single_col.iloc[0, 0] == 0.1234565, "caller's table untouched by the rounding")

    print(f"PASS ({CHECKS['n']} checks)")
    shutil.rmtree(TMP, ignore_errors=True)


main()
