"""Property C05 (pose bookkeeping): demo for change a.

Run as:  cd /tmp/wt11/C05 && /venv/bin/python /tmp/seedsU/C05/a/demo.py

1. checks the property against an independent numpy model (own zxz matrices, complete position P = x + shift)
   over many random / edge-case particle lists and operation histories of up to 6 steps;
2. runs a copy of the ORIGINAL text of the six anchor methods (below) in lockstep with the methods of the tree and
   demands bit-identical tables (values, dtypes, row index, column order) after every step.
Prints PASS and exits 0 when both hold.
"""
import sys, os

sys.path.insert(0, os.getcwd())
import warnings

warnings.filterwarnings("ignore")
import copy, decimal, logging
import numpy as np
import pandas as pd
from scipy.spatial.transform import Rotation as rot
from cryocat import ioutils
from cryocat.cryomotl import Motl

CHANGE = "a"

# ----------------------------------------------------------------------------------------------------------------
# original text of the anchor methods (HEAD of the scratch worktree, docstrings removed)
# ----------------------------------------------------------------------------------------------------------------
ORIG_SRC = '''
def apply_rotation(self, rotation):
    if not isinstance(rotation, rot):  # Use `rot` instead of `R`
        raise ValueError("rotation must be an instance of scipy.spatial.transform.Rotation")

    angles = self.df.loc[:, ["phi", "theta", "psi"]].to_numpy()

    angles_rot = rot.from_euler("zxz", angles, degrees=True)
    final_rotation = angles_rot * rotation
    angles = final_rotation.as_euler("zxz", degrees=True)
    self.df.loc[:, ["phi", "theta", "psi"]] = angles

def flip_handedness(self, tomo_dimensions=None):
    self.df.loc[:, "theta"] = -self.df.loc[:, "theta"]

    # Position flip
    if tomo_dimensions is not None:
        dims = ioutils.dimensions_load(tomo_dimensions)
        if dims.shape == (1, 3):
            z_dim = float(dims["z"].iloc[0]) + 1
            self.df.loc[:, "z"] = z_dim - self.df.loc[:, "z"]
            self.df.loc[:, "shift_z"] = -self.df.loc[:, "shift_z"]
        else:
            tomos = dims["tomo_id"].unique()
            for t in tomos:
                z_dim = float(dims.loc[dims["tomo_id"] == t, "z"].iloc[0]) + 1
                self.df.loc[self.df["tomo_id"] == t, "z"] = z_dim - self.df.loc[self.df["tomo_id"] == t, "z"]
                self.df.loc[self.df["tomo_id"] == t, "shift_z"] = -self.df.loc[self.df["tomo_id"] == t, "shift_z"]

def get_coordinates(self, tomo_number=None):
    if tomo_number is None:
        coord = self.df.loc[:, ["x", "y", "z"]].values + self.df.loc[:, ["shift_x", "shift_y", "shift_z"]].values
    else:
        coord = (
            self.df.loc[self.df.loc[:, "tomo_id"] == tomo_number, ["x", "y", "z"]].values
            + self.df.loc[
                self.df.loc[:, "tomo_id"] == tomo_number,
                ["shift_x", "shift_y", "shift_z"],
            ].values
        )

    return coord

def scale_coordinates(self, scaling_factor):
    for coord in ("x", "y", "z"):
        self.df[coord] = self.df[coord] * scaling_factor
        shift_column = "shift_" + coord
        self.df[shift_column] = self.df[shift_column] * scaling_factor

def update_coordinates(self):

    # Python 0.5 rounding: round(1.5) = 2, BUT round(2.5) = 2, while in Matlab round(2.5) = 3
    def round_and_recenter(row):
        new_row = row.copy()
        shifted_x = row["x"] + row["shift_x"]
        shifted_y = row["y"] + row["shift_y"]
        shifted_z = row["z"] + row["shift_z"]
        new_row["x"] = float(decimal.Decimal(shifted_x).to_integral_value(rounding=decimal.ROUND_HALF_UP))
        new_row["y"] = float(decimal.Decimal(shifted_y).to_integral_value(rounding=decimal.ROUND_HALF_UP))
        new_row["z"] = float(decimal.Decimal(shifted_z).to_integral_value(rounding=decimal.ROUND_HALF_UP))
        new_row["shift_x"] = shifted_x - new_row["x"]
        new_row["shift_y"] = shifted_y - new_row["y"]
        new_row["shift_z"] = shifted_z - new_row["z"]
        return new_row

    self.df = self.df.apply(round_and_recenter, axis=1)
    warnings.warn("The coordinates for subtomogram extraction were changed, new extraction is necessary!")

def shift_positions(self, shift, inplace=True):

    def shift_coords(row):
        v = np.array(shift)
        euler_angles = np.array([[row["phi"], row["theta"], row["psi"]]])
        orientations = rot.from_euler(seq="zxz", angles=euler_angles, degrees=True)
        rshifts = orientations.apply(v)

        row["shift_x"] = row["shift_x"] + rshifts[0][0]
        row["shift_y"] = row["shift_y"] + rshifts[0][1]
        row["shift_z"] = row["shift_z"] + rshifts[0][2]
        return row

    if inplace:
        self.df = self.df.apply(shift_coords, axis=1).reset_index(drop=True)
    else:
        new_motl = copy.deepcopy(self)
        new_motl.df = new_motl.df.apply(shift_coords, axis=1).reset_index(drop=True)
        return new_motl
'''

_ns = {"np": np, "pd": pd, "rot": rot, "ioutils": ioutils, "decimal": decimal, "copy": copy, "warnings": warnings}
exec(ORIG_SRC, _ns)
ANCHORS = ["get_coordinates", "update_coordinates", "scale_coordinates", "shift_positions", "apply_rotation",
           "flip_handedness"]
OrigMotl = type("OrigMotl", (Motl,), {k: _ns[k] for k in ANCHORS})


# ----------------------------------------------------------------------------------------------------------------
# independent model
# ----------------------------------------------------------------------------------------------------------------
def Rz(a):
    c, s = np.cos(a), np.sin(a)
    return np.array([[c, -s, 0.0], [s, c, 0.0], [0.0, 0.0, 1.0]])


def Rx(a):
    c, s = np.cos(a), np.sin(a)
    return np.array([[1.0, 0.0, 0.0], [0.0, c, -s], [0.0, s, c]])


def euler_to_matrix(phi, theta, psi):
    """cryoCAT convention: rotate about z by phi, then about the fixed x by theta, then about the fixed z by psi."""
    p, t, s = np.deg2rad([float(phi), float(theta), float(psi)])
    return Rz(s) @ Rx(t) @ Rz(p)


def observed_positions(m):
    d = m.df
    return np.column_stack([d["x"].to_numpy(dtype=float) + d["shift_x"].to_numpy(dtype=float),
                            d["y"].to_numpy(dtype=float) + d["shift_y"].to_numpy(dtype=float),
                            d["z"].to_numpy(dtype=float) + d["shift_z"].to_numpy(dtype=float)]).reshape(-1, 3)


def observed_matrices(m):
    d = m.df
    return np.array([euler_to_matrix(a, b, c) for a, b, c in
                     zip(d["phi"].to_numpy(), d["theta"].to_numpy(), d["psi"].to_numpy())]).reshape(-1, 3, 3)


MIRROR = np.diag([1.0, 1.0, -1.0])


class Model:
    def __init__(self, m):
        self.P = observed_positions(m)
        self.R = observed_matrices(m)
        self.tomo = m.df["tomo_id"].to_numpy(dtype=float).copy()
        self.scale = max(1.0, float(np.max(np.abs(self.P)))) if len(self.P) else 1.0

    def update(self):
        pass

    def scale_by(self, f):
        self.P = self.P * f
        self.scale = max(self.scale, self.scale * f)

    def shift(self, s):
        s = np.asarray(s, dtype=float).reshape(3)
        if len(self.P):
            self.P = self.P + np.einsum("nij,j->ni", self.R, s)
        self.scale = self.scale + float(np.max(np.abs(s)))

    def rotate(self, Q):
        if len(self.R):
            self.R = np.einsum("nij,jk->nik", self.R, Q)

    def flip(self, dims):
        """dims: None, a float (single z dimension) or a dict tomo_id -> z dimension"""
        if len(self.R):
            self.R = np.einsum("ij,njk,kl->nil", MIRROR, self.R, MIRROR)
        if dims is None:
            return
        if isinstance(dims, dict):
            zd = np.array([dims[t] for t in self.tomo], dtype=float)
        else:
            zd = np.full(len(self.P), float(dims))
        if len(self.P):
            self.P[:, 2] = zd + 1.0 - self.P[:, 2]
            self.scale = max(self.scale, float(np.max(np.abs(zd))) + 1.0)

    def check(self, m, what):
        P = observed_positions(m)
        R = observed_matrices(m)
        assert P.shape == self.P.shape, (what, P.shape, self.P.shape)
        assert np.array_equal(m.df["tomo_id"].to_numpy(dtype=float), self.tomo), what
        if len(P):
            err = np.max(np.abs(P - self.P))
            assert err <= 1e-9 * self.scale, (what, "position", err, self.scale)
            errR = np.max(np.abs(R - self.R))
            assert errR <= 1e-7, (what, "orientation", errR)
        # the public observation points agree with the table
        gc = np.asarray(m.get_coordinates(), dtype=float).reshape(-1, 3)
        assert np.array_equal(gc, P, equal_nan=True), what
        if len(P):
            gr = m.get_rotations()
            gm = np.array([r.as_matrix() for r in gr]) if isinstance(gr, (list, tuple)) else gr.as_matrix()
            assert np.max(np.abs(gm.reshape(-1, 3, 3) - self.R)) <= 1e-7, (what, "get_rotations")


def same_table(a, b, what):
    """bit-identical tables: values, dtypes, row index, column order"""
    assert list(a.columns) == list(b.columns), (what, "columns")
    assert a.index.equals(b.index) and a.index.dtype == b.index.dtype, (what, "index", a.index, b.index)
    assert (a.dtypes == b.dtypes).all(), (what, "dtypes")
    for c in a.columns:
        x, y = a[c].to_numpy(), b[c].to_numpy()
        assert np.array_equal(x, y, equal_nan=True), (what, c, x, y)
        if x.dtype.kind == "f":  # sign of zero as well
            assert np.array_equal(np.signbit(x), np.signbit(y)), (what, c, "signbit")


# ----------------------------------------------------------------------------------------------------------------
# generators
# ----------------------------------------------------------------------------------------------------------------
POLES = [0.0, 180.0, -180.0, 90.0, -90.0, 360.0, 1e-9, 180.0 - 1e-9]


def make_df(rng, n, kind):
    df = pd.DataFrame(np.zeros((n, 20)), columns=Motl.motl_columns)
    tomo_sets = [[1.0], [1.0, 2.0, 3.0], [5.0, 17.0, 204.0]]
    tomos = tomo_sets[rng.integers(len(tomo_sets))]
    df["tomo_id"] = rng.choice(tomos, size=n)
    df["subtomo_id"] = np.arange(1, n + 1, dtype=float)
    df["object_id"] = rng.integers(1, 4, size=n).astype(float)
    df["score"] = rng.random(n)
    df["class"] = 1.0
    df["phi"] = rng.uniform(-360, 360, n)
    df["theta"] = rng.uniform(-180, 180, n)
    df["psi"] = rng.uniform(-360, 720, n)
    if kind == "float":
        for c in "xyz":
            df[c] = rng.uniform(-300, 300, n)
            df["shift_" + c] = rng.uniform(-3, 3, n)
    elif kind == "ties":  # half-integer complete positions of either sign, reached in several ways
        for c in "xyz":
            base = rng.integers(-20, 21, size=n).astype(float)
            how = rng.integers(0, 4, size=n)
            df[c] = np.where(how == 0, base + 0.5, base)
            df["shift_" + c] = np.select([how == 0, how == 1, how == 2], [0.0, 0.5, -0.5], rng.choice([1.5, -1.5, 2.5, -2.5], n))
    elif kind == "int":  # integer element type for positions, zero integer shifts
        for c in "xyz":
            df[c] = rng.integers(-50, 200, size=n).astype(np.int64)
            df["shift_" + c] = np.zeros(n, dtype=np.int64)
    elif kind == "zeros":
        for c in "xyz":
            df[c] = 0.0
            df["shift_" + c] = rng.choice([0.0, -0.0, 0.5, -0.5], n)
    elif kind == "poles":
        for c in "xyz":
            df[c] = np.round(rng.uniform(1, 100, n))
            df["shift_" + c] = rng.uniform(-0.5, 0.5, n)
        df["theta"] = rng.choice(POLES, n)
        df["phi"] = rng.choice([0.0, 90.0, -37.5, 360.0, 123.0], n)
        df["psi"] = rng.choice([0.0, -90.0, 45.0, 180.0], n)
    else:
        raise AssertionError(kind)
    idx_kind = rng.integers(0, 4)
    if idx_kind == 1:
        df.index = rng.permutation(n) + 10  # non-default, unsorted row labels
    elif idx_kind == 2:
        df.index = np.arange(n)[::-1] * 3
    elif idx_kind == 3:
        df = df[Motl.motl_columns[::-1]]  # another column order
    return df, tomos


def make_dims(rng, tomos, integer):
    """returns (argument for flip_handedness, model description)"""
    def zdim():
        return float(rng.integers(1, 500)) if (integer or rng.random() < 0.7) else float(np.round(rng.uniform(1, 500), 3))
    form = rng.integers(0, 7)
    if form == 0:
        return None, None
    if form in (1, 2, 3):
        d = [float(rng.integers(1, 900)), float(rng.integers(1, 900)), zdim()]
        if form == 1:
            return ([int(v) for v in d] if float(d[2]).is_integer() else d), d[2]
        if form == 2:
            return np.array(d), d[2]
        return pd.DataFrame([d]), d[2]
    extra = [999.0] if rng.random() < 0.5 else []  # a tomogram the list does not contain
    ids = list(rng.permutation(np.array(list(tomos) + extra)))
    table = np.array([[t, float(rng.integers(1, 900)), float(rng.integers(1, 900)), zdim()] for t in ids])
    desc = {float(r[0]): float(r[3]) for r in table}
    if form == 4:
        return table, desc
    if form == 5:
        return pd.DataFrame(table), desc
    return pd.DataFrame(table, columns=["tomo_id", "x", "y", "z"], index=np.arange(len(table))[::-1] + 4), desc


def random_rotation(rng):
    k = rng.integers(0, 5)
    if k == 0:
        return rot.identity()
    if k == 1:
        return rot.from_euler("zxz", [rng.choice([0.0, 90.0, 180.0]), rng.choice(POLES), rng.choice([0.0, -90.0])], degrees=True)
    if k == 2:
        return rot.from_rotvec(rng.choice([np.pi, np.pi / 2]) * np.eye(3)[rng.integers(3)])
    return rot.random(random_state=int(rng.integers(1 << 31)))


def random_shift(rng):
    k = rng.integers(0, 10)
    v = rng.uniform(-10, 10, 3)
    if k == 6:
        return pd.Series(v, index=[7, 3, 5])  # a labelled vector
    if k == 7:
        return v.astype(np.float32)
    if k == 8:
        return np.array([float(v[0]), int(round(v[1])), float(v[2])], dtype=object)
    if k == 9:
        return [[float(x) for x in v]]  # nested list, one row
    if k == 0:
        return [0, 0, 0]
    if k == 1:
        return [int(x) for x in np.round(v)]  # integer element type
    if k == 2:
        return tuple(v)
    if k == 3:
        return np.round(v).astype(np.int32)
    if k == 4:
        return v.reshape(1, 3)  # a row vector is taken as well
    return v


def random_scale(rng):
    return [0.5, 2.0, 1.0, 4, float(rng.uniform(0.05, 8.0)), np.float32(1.5), 1.0 / 3.0][rng.integers(7)]


def single(rot_obj):
    return rot_obj.as_matrix().reshape(3, 3)


def apply_op(op, arg, motls, model):
    for m in motls:
        if op == "update":
            m.update_coordinates()
        elif op == "scale":
            m.scale_coordinates(arg)
        elif op == "shift":
            r = m.shift_positions(arg)
            assert r is None
        elif op == "rotate":
            m.apply_rotation(arg)
        elif op == "flip":
            m.flip_handedness(arg[0])
    if op == "update":
        model.update()
    elif op == "scale":
        model.scale_by(float(arg))
    elif op == "shift":
        model.shift(arg)
    elif op == "rotate":
        model.rotate(single(arg))
    elif op == "flip":
        model.flip(arg[1])


def check_update_postcondition(m, what):
    d = m.df
    for c in "xyz":
        v = d[c].to_numpy(dtype=float)
        s = d["shift_" + c].to_numpy(dtype=float)
        assert np.array_equal(v, np.round(v)), (what, c, "not integer")
        assert np.all(np.abs(s) <= 0.5), (what, c, "residual shift above 0.5")


class Capture(logging.Handler):
    def __init__(self):
        super().__init__(level=logging.DEBUG)
        self.records = []

    def emit(self, record):
        self.records.append(record.getMessage())  # formats the message: a faulty format string would raise here


def main():
    rng = np.random.default_rng(20260928)
    capture = Capture()
    root = logging.getLogger("cryocat")
    root.addHandler(capture)
    root.propagate = False
    logging.raiseExceptions = True
    n_hist = n_steps = 0
    kinds = ["float", "ties", "int", "zeros", "poles"]
    for trial in range(260):
        kind = kinds[trial % len(kinds)]
        n = [0, 1, 2, 7, 30, 3][rng.integers(6)]
        df, tomos = make_df(rng, n, kind)
        # diagnostics switched on for every second history, so both paths of a logging guard are exercised
        root.setLevel(logging.DEBUG if trial % 2 == 0 else logging.WARNING)
        new, old = Motl(df.copy()), OrigMotl(df.copy())
        model = Model(new)
        model.check(new, "start")
        # numpy global random state must not be consumed by any of the operations
        np.random.seed(trial)
        state0 = np.random.get_state()[1].copy()
        for step in range(int(rng.integers(1, 7))):
            op = ["update", "scale", "shift", "rotate", "flip"][rng.integers(5)]
            if op == "scale":
                arg = random_scale(rng)
            elif op == "shift":
                arg = random_shift(rng)
            elif op == "rotate":
                arg = random_rotation(rng)
            elif op == "flip":
                integer_z = new.df["z"].dtype.kind in "iu"
                arg = make_dims(rng, tomos, integer_z)
            else:
                arg = None
            arg_before = copy.deepcopy(arg)
            what = (trial, kind, n, step, op)
            apply_op(op, arg, [new, old], model)
            model.check(new, what)
            same_table(new.df, old.df, what)
            if op == "update":
                check_update_postcondition(new, what)
            # arguments are left alone
            if op == "shift":
                assert np.array_equal(np.asarray(arg), np.asarray(arg_before)), what
            if op == "flip" and isinstance(arg[0], (np.ndarray, pd.DataFrame)):
                assert np.array_equal(np.asarray(arg[0]), np.asarray(arg_before[0])), what
            if op == "rotate":
                assert np.array_equal(arg.as_quat(), arg_before.as_quat()), what
            n_steps += 1
        assert np.array_equal(np.random.get_state()[1], state0), (trial, "random state consumed")
        n_hist += 1

        # explicit composition laws on fresh copies ---------------------------------------------------------------
        s1, s2 = rng.uniform(-5, 5, 3), rng.uniform(-5, 5, 3)
        a, b = Motl(df.copy()), Motl(df.copy())
        a.shift_positions(s1); a.shift_positions(s2); b.shift_positions(s1 + s2)
        if n:
            assert np.max(np.abs(observed_positions(a) - observed_positions(b))) <= 1e-9 * model.scale, (trial, "s1+s2")
        c = Motl(df.copy())
        r = c.shift_positions(s1, inplace=False)  # the copy moves, the original does not
        same_table(c.df, df, (trial, "inplace=False original"))
        oc = OrigMotl(df.copy()).shift_positions(s1, inplace=False)
        same_table(r.df, oc.df, (trial, "inplace=False copy"))
        q1, q2 = random_rotation(rng), random_rotation(rng)
        a, b = Motl(df.copy()), Motl(df.copy())
        a.apply_rotation(q1); a.apply_rotation(q2); b.apply_rotation(q1 * q2)
        if n:
            assert np.max(np.abs(observed_matrices(a) - observed_matrices(b))) <= 1e-7, (trial, "Q1*Q2")
            assert np.array_equal(observed_positions(a), observed_positions(Motl(df.copy()))), (trial, "rotation moved")
        dims, desc = make_dims(rng, tomos, kind == "int")
        a = Motl(df.copy())
        before_P, before_R = observed_positions(a), observed_matrices(a)
        a.flip_handedness(dims); a.flip_handedness(dims)
        if n:
            assert np.max(np.abs(observed_positions(a) - before_P)) <= 1e-9 * max(model.scale, 1000.0), (trial, "flip twice P")
            assert np.max(np.abs(observed_matrices(a) - before_R)) <= 1e-12, (trial, "flip twice R")
        for col in df.columns:
            if col not in ("z", "shift_z", "theta"):
                assert np.array_equal(a.df[col].to_numpy(), df[col].to_numpy()), (trial, "flip touched", col)

    # repeated row labels (e.g. two lists concatenated without renumbering): whatever the original text does with
    # them -- a result or an exception -- the tree does the same
    for trial in range(40):
        df, tomos = make_df(rng, 6, kinds[trial % len(kinds)])
        df = df[Motl.motl_columns] if trial % 2 else df
        df.index = [0, 1, 2, 0, 1, 2]
        ops = [("update", None), ("scale", 2.5), ("shift", random_shift(rng)), ("rotate", random_rotation(rng)),
               ("flip", make_dims(rng, tomos, kinds[trial % len(kinds)] == "int"))]
        for op, arg in ops:
            outcome = []
            for cls in (Motl, OrigMotl):
                m = cls(df.copy())
                try:
                    apply_op(op, arg, [m], Model(m))
                    outcome.append(m.df)
                except Exception as exc:  # noqa
                    outcome.append(type(exc))
            if isinstance(outcome[1], type):
                assert outcome[0] is outcome[1], (trial, op, outcome)
            else:
                same_table(outcome[0], outcome[1], (trial, op, "repeated labels"))

    # NaN / infinite holes in positions or shifts (outside the property, nothing to check against the model):
    # original text and tree still give the same table or the same exception, with the diagnostics on and off
    for trial in range(40):
        root.setLevel(logging.DEBUG if trial % 2 == 0 else logging.WARNING)
        df, tomos = make_df(rng, 5, "float")
        for _ in range(3):
            col = ["x", "y", "z", "shift_x", "shift_y", "shift_z"][rng.integers(6)]
            df.loc[df.index[rng.integers(5)], col] = [np.nan, np.inf, -np.inf][rng.integers(3)]
        for op, arg in [("update", None), ("scale", 2.5), ("shift", random_shift(rng)),
                        ("flip", make_dims(rng, tomos, False))]:
            outcome = []
            for cls in (Motl, OrigMotl):
                m = cls(df.copy())
                try:
                    apply_op(op, arg, [m], Model(m))
                    outcome.append(m.df)
                except Exception as exc:  # noqa
                    outcome.append(type(exc))
            if isinstance(outcome[1], type):
                assert outcome[0] is outcome[1], (trial, op, outcome)
            else:
                same_table(outcome[0], outcome[1], (trial, op, "holes"))

    # the canonical empty list, diagnostics on ---------------------------------------------------------------------
    root.setLevel(logging.DEBUG)
    # the canonical empty list ------------------------------------------------------------------------------------
    for cls in (Motl, OrigMotl):
        e = cls()
        e.update_coordinates(); e.scale_coordinates(2.0); e.shift_positions([1, 2, 3]); e.apply_rotation(rot.identity())
        e.flip_handedness([10, 10, 10]); e.flip_handedness(np.array([[1, 10, 10, 10]]))
        assert e.df.shape == (0, 20) and e.get_coordinates().shape == (0, 3)

    # inputs outside the quantifier are refused by both versions --------------------------------------------------
    df, _ = make_df(rng, 3, "float")
    for bad in ([1, 2], [1, 2, 3, 4], 5.0, np.zeros((0, 3)), None, [[1, 2], [3, 4]]):
        for cls in (Motl, OrigMotl):
            m = cls(df.copy())
            try:
                m.shift_positions(bad)
            except Exception:
                same_table(m.df, df, ("refused shift left the table alone", bad))
            else:
                raise AssertionError(("bad shift accepted", bad, cls.__name__))
    for cls in (Motl, OrigMotl):
        try:
            cls(df.copy()).apply_rotation(np.eye(3))
        except ValueError:
            pass
        else:
            raise AssertionError("apply_rotation accepted a matrix")

    root.removeHandler(capture)
    # how the tree answers inputs outside the quantifier (information only, not part of the verdict)
    for bad in ([1, 2], 5.0, np.zeros((2, 3))):
        for cls, label in ((OrigMotl, "original"), (Motl, "tree")):
            for frame, fl in ((df, "3 rows"), (df.iloc[:0], "0 rows")):
                try:
                    cls(frame.copy()).shift_positions(bad)
                    res = "accepted"
                except Exception as exc:  # noqa
                    res = type(exc).__name__
                print(f"  info: shift of shape {np.shape(bad)} on {fl}, {label}: {res}")

    print(f"change {CHANGE}: {n_hist} histories, {n_steps} steps, {len(capture.records)} diagnostic records captured")
    print("PASS")


if __name__ == "__main__":
    main()
