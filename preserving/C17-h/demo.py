import sys, os

sys.path.insert(0, os.getcwd())
import warnings

warnings.filterwarnings("ignore")
import re
import shutil
import tempfile
import textwrap
import numpy as np
import pandas as pd
import emfile

from cryocat import mdoc, ioutils, wedgeutils, starfileio

TMP = tempfile.mkdtemp(prefix="c17demo_")
FAILS = []
COUNTS = {}


def check(cond, what):
    COUNTS[what] = COUNTS.get(what, 0) + 1
    if not cond:
        FAILS.append(what)
        if len(FAILS) <= 25:
            print("FAIL:", what)
    return cond


def tmp(name):
    return os.path.join(TMP, name)


# --------------------------------------------------------------------------------------------------------------
# independent model of the mdoc grammar
# --------------------------------------------------------------------------------------------------------------
_INT = re.compile(r"^[0-9]+$")
_FLT = re.compile(r"^(?:[0-9]+\.[0-9]*|\.[0-9]+)$")


def model_value(text):
    """Value an mdoc entry stands for: unsigned integers -> int, unsigned decimals -> float, anything else text."""
    t = text.strip()
    if _INT.match(t):
        return int(t)
    if _FLT.match(t):
        return float(t)
    return t


def same_cell(a, b):
    """same python kind and same value (numpy scalars count as their python kind)"""
    if isinstance(a, (bool, np.bool_)) or isinstance(b, (bool, np.bool_)):
        return isinstance(a, (bool, np.bool_)) and isinstance(b, (bool, np.bool_)) and bool(a) == bool(b)
    if isinstance(a, (int, np.integer)):
        return isinstance(b, (int, np.integer)) and int(a) == int(b)
    if isinstance(a, (float, np.floating)):
        return isinstance(b, (float, np.floating)) and float(a) == float(b)
    return isinstance(a, str) and isinstance(b, str) and a == b


def rand_float_text(rng, lo=0.0, hi=5000.0):
    x = rng.uniform(lo, hi)
    k = int(rng.integers(1, 5))
    t = "{:.{k}f}".format(x, k=k)
    if float(t) != 0 and abs(float(t)) < 1e-3:
        t = "0.5"
    return t


def rand_text(rng):
    pool = [
        "SerialEM",
        "X:\\frames\\TS_01_{:03d}_{:.1f}.tif".format(int(rng.integers(0, 99)), rng.uniform(-60, 60)),
        "{:02d}-Mar-21  10:{:02d}:{:02d}".format(int(rng.integers(1, 28)), int(rng.integers(0, 59)), int(rng.integers(0, 59))),
        "{:.3f} {:.3f}".format(rng.uniform(-50, 50), rng.uniform(-50, 50)),
        "-{:.4f}".format(rng.uniform(0, 50)),
        "-{}".format(int(rng.integers(1, 500))),
        "{} {}".format(int(rng.integers(1, 9000)), int(rng.integers(1, 9000))),
        "1e-05",
        "3.2.1",
        "a b  c",
        "NaN",
        "-",
        "+5",
        "0x10",
    ]
    return pool[int(rng.integers(0, len(pool)))]


def rand_value_text(rng):
    r = rng.random()
    if r < 0.3:
        return str(int(rng.integers(0, 100000)))
    if r < 0.6:
        return rand_float_text(rng)
    if r < 0.65:
        return str(int(rng.integers(0, 50))) + "."
    if r < 0.7:
        return "." + str(int(rng.integers(1, 999)))
    return rand_text(rng)


EXTRA_KEYS = [
    "StagePosition",
    "StageZ",
    "Magnification",
    "Intensity",
    "SpotSize",
    "Defocus",
    "ImageShift",
    "RotationAngle",
    "ExposureTime",
    "Binning",
    "CameraIndex",
    "DividedBy2",
    "MagIndex",
    "CountsPerElectron",
    "TargetDefocus",
    "SubFramePath",
    "NumSubFrames",
    "DateTime",
    "FilterSlitAndLoss",
    "UncroppedSize",
]


def tilt_texts(rng, n, ties=False):
    kind = int(rng.integers(0, 4))
    if kind == 0:  # dose-symmetric like scheme, 2 decimals
        step = float(rng.choice([1.0, 2.0, 3.0, 1.5]))
        vals = []
        for i in range(n):
            k = (i + 1) // 2
            vals.append(k * step * (1 if i % 2 else -1) + rng.uniform(-0.04, 0.04))
        texts = ["{:.2f}".format(v) for v in vals]
    elif kind == 1:  # ascending integers
        start = int(rng.integers(-70, 0))
        texts = [str(start + 2 * i) for i in range(n)]
    elif kind == 2:  # random order, many decimals
        vals = rng.permutation(np.linspace(-66.0, 66.0, n) + rng.uniform(-0.3, 0.3, n))
        texts = ["{:.5f}".format(v) for v in vals]
    else:  # descending
        texts = ["{:.1f}".format(60.0 - 2.5 * i) for i in range(n)]
    if ties and n > 2:
        texts[-1] = texts[0]
    return texts


def gen_mdoc(rng, n, with_dose=True, prior=True, ties=False, zvalues=None):
    """returns (text, titles, info, columns, rows) -- rows is a list of dicts of *expected* cell values"""
    info_items = []
    if rng.random() < 0.9:
        info_items.append(("PixelSpacing", rand_float_text(rng, 0.5, 10)))
    if rng.random() < 0.9:
        info_items.append(("Voltage", str(int(rng.choice([200, 300])))))
    if rng.random() < 0.8:
        info_items.append(("ImageFile", "TS_{:02d}.mrc".format(int(rng.integers(0, 99)))))
    if rng.random() < 0.8:
        info_items.append(("ImageSize", "{} {}".format(int(rng.integers(100, 9000)), int(rng.integers(100, 9000)))))
    if rng.random() < 0.8:
        info_items.append(("DataMode", str(int(rng.integers(0, 7)))))
    for j in range(int(rng.integers(0, 3))):
        info_items.append(("Extra{}".format(j), rand_value_text(rng)))
    titles = []
    for j in range(int(rng.integers(0, 4))):
        pool = [
            "T = SerialEM: Digitized on EMBL Krios           {:02d}-Mar-21  10:00:00".format(int(rng.integers(1, 28))),
            "T =     Tilt axis angle = {:.1f}, binning = {}  spot = {}  camera = {}".format(
                rng.uniform(-180, 180), int(rng.integers(1, 8)), int(rng.integers(1, 11)), int(rng.integers(0, 3))
            ),
            "T = plain title {}".format(j),
            "MontSection = {}".format(j),
        ]
        titles.append(pool[int(rng.integers(0, len(pool)))])

    keys = [k for k in EXTRA_KEYS if rng.random() < 0.5]
    keys = list(rng.permutation(keys)) if keys else []
    cols = ["TiltAngle"] + keys
    if with_dose:
        cols.insert(int(rng.integers(1, len(cols) + 1)), "ExposureDose")
        if prior:
            cols.insert(int(rng.integers(1, len(cols) + 1)), "PriorRecordDose")
    if rng.random() < 0.3:  # TiltAngle not always the first entry
        cols.remove("TiltAngle")
        cols.insert(int(rng.integers(0, len(cols) + 1)), "TiltAngle")

    tilts = tilt_texts(rng, n, ties=ties)
    if zvalues is None:
        zvalues = list(range(n)) if rng.random() < 0.7 else [int(z) for z in rng.permutation(n) + int(rng.integers(0, 5))]
    exposure = rand_float_text(rng, 0.5, 5.0) if rng.random() < 0.7 else str(int(rng.integers(1, 5)))
    acc = 0.0
    lines = []
    sp = lambda: " " * int(rng.integers(1, 3))
    for k, v in info_items:
        lines.append("{}{}={}{}".format(k, sp(), sp(), v))
    lines.append("")
    for t in titles:
        lines.append("[{}]".format(t))
        lines.append("")
    rows = []
    for i in range(n):
        lines.append("[ZValue = {}]".format(zvalues[i]))
        row = {"ZValue": int(zvalues[i])}
        for c in cols:
            if c == "TiltAngle":
                v = tilts[i]
                row[c] = float(v)
            elif c == "ExposureDose":
                v = exposure
                row[c] = model_value(v)
            elif c == "PriorRecordDose":
                v = "{:.4f}".format(acc) if acc else "0"
                row[c] = model_value(v)
            else:
                v = rand_value_text(rng)
                row[c] = model_value(v)
            lines.append("{} = {}".format(c, v))
        acc += float(exposure)
        row["Removed"] = False
        rows.append(row)
        lines.append("")
    if rng.random() < 0.5:
        lines.append("")
    text = "\n".join(lines) + "\n"
    info = {k: model_value(v) for k, v in info_items}
    columns = ["ZValue"] + cols + ["Removed"]
    return text, titles, info, columns, rows


def parse_written(text):
    """independent reader of a written mdoc: header dict (texts), titles, list of (zvalue text, [(key, text)...])"""
    info, titles, images = {}, [], []
    cur = None
    for line in text.split("\n"):
        s = line.strip()
        if not s:
            continue
        if s.startswith("[ZValue"):
            cur = (s[1:-1].split("=", 1)[1].strip(), [])
            images.append(cur)
        elif s.startswith("["):
            titles.append(s[1:-1].strip())
        elif cur is None:
            k, v = s.split("=", 1)
            info[k.strip()] = v.strip()
        else:
            k, v = s.split("=", 1)
            cur[1].append((k.strip(), v.strip()))
    return info, titles, images


def table_matches(imgs, columns, rows, what):
    ok = check(list(imgs.columns) == list(columns), what + ": columns")
    ok &= check(imgs.shape[0] == len(rows), what + ": number of images")
    if not ok:
        return False
    good = True
    for pos in range(len(rows)):
        for c in columns:
            a = imgs[c].iloc[pos]
            b = rows[pos][c]
            if not same_cell(a, b):
                good = False
                print("   cell differs", what, pos, c, repr(a), repr(b))
                break
        if not good:
            break
    return check(good, what + ": cells")


def frames_identical(a, b):
    if list(a.columns) != list(b.columns) or list(a.index) != list(b.index) or a.shape != b.shape:
        return False
    if list(a.dtypes) != list(b.dtypes):
        return False
    for c in a.columns:
        for x, y in zip(a[c].tolist(), b[c].tolist()):
            if not same_cell(x, y):
                return False
    return True


def mdoc_checks(rng, n, tag, **kw):
    text, titles, info, columns, rows = gen_mdoc(rng, n, **kw)
    p = tmp("in_{}.mdoc".format(tag))
    with open(p, "w") as f:
        f.write(text)
    m = mdoc.Mdoc(p)
    # reading: header entries and table are what the text says
    check(m.section_id == "ZValue", "read: section id")
    check(m.titles == titles, "read: titles")
    check(list(m.project_info.keys()) == list(info.keys()), "read: header keys")
    check(all(same_cell(m.project_info[k], info[k]) for k in info), "read: header values")
    table_matches(m.imgs, columns, rows, "read")
    check(list(m.imgs.index) == list(range(n)), "read: index 0..n-1")
    check(m.imgs["ZValue"].dtype == np.int64 and m.imgs["TiltAngle"].dtype == np.float64 and m.imgs["Removed"].dtype == bool,
          "read: dtypes of ZValue/TiltAngle/Removed")

    # round trip (twice: repeated calls on the same object give the same file)
    q = tmp("out_{}.mdoc".format(tag))
    m.write(q, overwrite=True)
    first = open(q).read()
    m.write(q, overwrite=True)
    check(open(q).read() == first, "write: repeatable")
    try:
        m.write(q)
        check(False, "write: refuses to overwrite")
    except FileExistsError:
        check(True, "write: refuses to overwrite")
    m2 = mdoc.Mdoc(q)
    check(m2.titles == m.titles == titles, "roundtrip: titles")
    check(list(m2.project_info.items()) == list(m.project_info.items()), "roundtrip: header")
    check(all(same_cell(m2.project_info[k], info[k]) for k in info), "roundtrip: header values")
    check(frames_identical(m2.imgs, m.imgs), "roundtrip: table identical")
    table_matches(m2.imgs, columns, rows, "roundtrip")
    # the text itself, read by the independent reader
    winfo, wtitles, wimages = parse_written(first)
    check(wtitles == titles, "written text: titles")
    check(list(winfo.keys()) == list(info.keys()) and all(same_cell(model_value(winfo[k]), info[k]) for k in info),
          "written text: header")
    check([int(z) for z, _ in wimages] == [r["ZValue"] for r in rows], "written text: sections")
    good = True
    for (z, kv), r in zip(wimages, rows):
        good &= [k for k, _ in kv] == columns[1:-1]
        for k, v in kv:
            exp = r[k]
            got = float(v) if k == "TiltAngle" else model_value(v)
            good &= same_cell(got, exp)
    check(good, "written text: entries")
    check("Removed" not in first, "written text: no Removed entry")

    # sorting by tilt: only the order changes
    ms = mdoc.Mdoc(p)
    before = ms.imgs.copy()
    ms.sort_by_tilt()
    ta = ms.imgs["TiltAngle"].to_numpy()
    check(bool(np.all(ta[:-1] <= ta[1:])), "sort: ascending")
    check(sorted(ms.imgs.index) == list(range(n)), "sort: same rows")
    check(frames_identical(ms.imgs.sort_index(), before), "sort: rows unchanged")
    if len(set(r["TiltAngle"] for r in rows)) == n:
        order = sorted(range(n), key=lambda i: rows[i]["TiltAngle"])
        check(list(ms.imgs.index) == order, "sort: order")
        table_matches(ms.imgs, columns, [rows[i] for i in order], "sort")
        ms.sort_by_tilt()
        check(list(ms.imgs.index) == order, "sort: idempotent")
        qs = tmp("sorted_{}.mdoc".format(tag))
        r1 = mdoc.sort_mdoc_by_tilt_angles(p, output_file=qs)
        check(frames_identical(r1.imgs, ms.imgs), "sort_mdoc_by_tilt_angles: table")
        table_matches(mdoc.Mdoc(qs).imgs, columns, [rows[i] for i in order], "sort: written file")
        r2 = mdoc.sort_mdoc_by_tilt_angles(p, reset_z_value=True)
        exp = [dict(rows[i], ZValue=j) for j, i in enumerate(order)]
        table_matches(r2.imgs, columns, exp, "sort reset z")
        # tilt / dose loaders on the mdoc
        tl = ioutils.tlt_load(p)
        check(tl.dtype == np.float64 and np.array_equal(tl, np.array([rows[i]["TiltAngle"] for i in order])), "tlt_load(mdoc)")
        tl = ioutils.tlt_load(p, sort_angles=False)
        check(np.array_equal(tl, np.array([r["TiltAngle"] for r in rows])), "tlt_load(mdoc, unsorted)")
        ga = mdoc.get_tilt_angles(p)
        check(np.array_equal(ga, np.array([r["TiltAngle"] for r in rows])), "get_tilt_angles")
        if "ExposureDose" in columns and "PriorRecordDose" in columns:
            d = ioutils.total_dose_load(p)
            exp = [rows[i]["ExposureDose"] + rows[i]["PriorRecordDose"] for i in order]
            check(len(d) == n and all(float(a) == float(b) for a, b in zip(d, exp)), "total_dose_load(mdoc) = prior + exposure")
            d = ioutils.total_dose_load(p, sort_mdoc=False)
            exp = [r["ExposureDose"] + r["PriorRecordDose"] for r in rows]
            check(len(d) == n and all(float(a) == float(b) for a, b in zip(d, exp)), "total_dose_load(mdoc, unsorted)")

    # removing images: only the flag changes, the written file omits exactly the removed images
    mr = mdoc.Mdoc(p)
    if rng.random() < 0.5:
        mr.sort_by_tilt()
    base = mr.imgs.copy()
    labels = list(mr.imgs.index)
    k = int(rng.integers(0, n + 1))
    if rng.random() < 0.1:
        k = n
    sel = [int(i) for i in rng.choice(n, size=k, replace=False)]
    if rng.random() < 0.3 and sel:
        sel = sel + [sel[0]]  # a repeated index
    if rng.random() < 0.3:
        sel = [i - n for i in sel]  # negative positions
    mr.remove_images(sel)
    removed = set(labels[i] for i in sel)
    check(list(mr.imgs.index) == labels, "remove: order kept")
    check(frames_identical(mr.imgs.drop(columns="Removed"), base.drop(columns="Removed")), "remove: other columns untouched")
    check([bool(x) for x in mr.imgs["Removed"]] == [l in removed for l in labels], "remove: flags")
    check(mr.imgs["Removed"].dtype == bool, "remove: flag dtype")
    check(list(mr.kept_images().index) == [l for l in labels if l not in removed], "kept_images")
    check(list(mr.removed_images().index) == [l for l in labels if l in removed], "removed_images")
    # second call counts positions among the kept images only
    kept = [l for l in labels if l not in removed]
    if kept and rng.random() < 0.7:
        k2 = int(rng.integers(1, len(kept) + 1))
        sel2 = [int(i) for i in rng.choice(len(kept), size=k2, replace=False)]
        mr.remove_images(sel2)
        removed |= set(kept[i] for i in sel2)
        check([bool(x) for x in mr.imgs["Removed"]] == [l in removed for l in labels], "remove twice: flags")
    elif rng.random() < 0.5:
        sel3 = [int(i) for i in rng.choice(n, size=int(rng.integers(1, n + 1)), replace=False)]
        mr.remove_images(sel3, kept_only=False)
        removed |= set(labels[i] for i in sel3)
        check([bool(x) for x in mr.imgs["Removed"]] == [l in removed for l in labels], "remove (all images counted): flags")
    kept = [l for l in labels if l not in removed]
    qr = tmp("removed_{}.mdoc".format(tag))
    mr.write(qr, overwrite=True)
    wtext = open(qr).read()
    winfo, wtitles, wimages = parse_written(wtext)
    check(wtitles == titles and list(winfo.keys()) == list(info.keys()), "remove: written header")
    check([int(z) for z, _ in wimages] == [rows[l]["ZValue"] for l in kept], "remove: written file omits exactly the removed images")
    good = True
    for (z, kv), l in zip(wimages, kept):
        good &= [k_ for k_, _ in kv] == columns[1:-1]
        for k_, v in kv:
            good &= same_cell(float(v) if k_ == "TiltAngle" else model_value(v), rows[l][k_])
    check(good, "remove: written entries")
    if kept:
        table_matches(mdoc.Mdoc(qr).imgs, columns, [rows[l] for l in kept], "remove: re-read")
    mr.write(qr, overwrite=True, removed=True)
    winfo, wtitles, wimages = parse_written(open(qr).read())
    check([int(z) for z, _ in wimages] == [rows[l]["ZValue"] for l in labels], "write(removed=True): all images")
    mr.write(qr, overwrite=True)
    check(open(qr).read() == wtext, "remove: write repeatable")
    # module level function, indices numbered from 1 or 0, list / array / file input
    k = int(rng.integers(1, n + 1))
    sel = sorted(int(i) for i in rng.choice(n, size=k, replace=False))
    from1 = bool(rng.random() < 0.5)
    arg = [i + (1 if from1 else 0) for i in sel]
    form = int(rng.integers(0, 3))
    if form == 1:
        arg = np.array(arg)
    elif form == 2 and k > 1:
        fp = tmp("idx_{}.txt".format(tag))
        with open(fp, "w") as f:
            f.write("\n".join(str(a) for a in arg) + "\n")
        arg = fp
    qm = tmp("removed2_{}.mdoc".format(tag))
    r = mdoc.remove_images(p, arg, numbered_from_1=from1, output_file=qm)
    check([bool(x) for x in r.imgs["Removed"]] == [i in sel for i in range(n)], "mdoc.remove_images: flags")
    _, _, wimages = parse_written(open(qm).read())
    check([int(z) for z, _ in wimages] == [rows[i]["ZValue"] for i in range(n) if i not in sel], "mdoc.remove_images: file")


# --------------------------------------------------------------------------------------------------------------
# loaders
# --------------------------------------------------------------------------------------------------------------
def write_lines(path, lines, trailing_newline=True):
    with open(path, "w") as f:
        f.write("\n".join(lines) + ("\n" if trailing_newline else ""))
    return path


def asc_tilts(rng, n):
    lo = rng.uniform(-70, -1)
    vals = np.sort(np.round(lo + np.cumsum(rng.uniform(0.5, 3.0, n)), 2))
    return vals


def tilt_file(rng, n, name):
    vals = asc_tilts(rng, n)
    style = int(rng.integers(0, 4))
    if style == 0:
        lines = ["{:.2f}".format(v) for v in vals]
    elif style == 1:
        lines = ["{:8.2f}".format(v) for v in vals]  # IMOD style with leading blanks
    elif style == 2:
        vals = np.round(vals)
        vals = np.sort(np.unique(vals))
        lines = [str(int(v)) for v in vals]
    else:
        lines = ["{:.1f}  ".format(v) for v in vals]
        vals = np.array([float(l) for l in lines])
    vals = np.array([float(l) for l in lines])
    return write_lines(tmp(name), lines, trailing_newline=bool(rng.random() < 0.8)), vals


def dose_file(rng, n, name):
    per = rng.uniform(0.5, 4.0)
    order = rng.permutation(n)
    vals = np.round((order + 1) * per, 3)
    lines = ["{:.3f}".format(v) for v in vals]
    return write_lines(tmp(name), lines), np.array([float(l) for l in lines])


def gctf_file(rng, n, name, phase=None):
    if phase is None:
        phase = bool(rng.random() < 0.5)
    u = np.round(rng.uniform(5000, 60000, n), 2)
    v = np.round(u - rng.uniform(-800, 800, n), 2)
    ang = np.round(rng.uniform(-90, 90, n), 2)
    ph = np.round(rng.uniform(0, 180, n), 2)
    if rng.random() < 0.2:
        u = np.round(u)
        v = np.round(v)  # integer looking values
    cols = ["rlnMicrographName", "rlnDefocusU", "rlnDefocusV", "rlnDefocusAngle"]
    if phase:
        cols.append("rlnPhaseShift")
    cols += ["rlnCtfFigureOfMerit", "rlnFinalResolution"]
    if rng.random() < 0.3:  # other column order
        cols = ["rlnMicrographName", "rlnDefocusAngle", "rlnCtfFigureOfMerit", "rlnDefocusV", "rlnDefocusU"] + (
            ["rlnPhaseShift"] if phase else []
        )
    numbered = bool(rng.random() < 0.7)
    lines = ["", "data_", "", "loop_"]
    for i, c in enumerate(cols, 1):
        lines.append("_{} #{}".format(c, i) if numbered else "_" + c)
    for i in range(n):
        vals = {
            "rlnMicrographName": "TS_01_{:03d}.mrc".format(i),
            "rlnDefocusU": "{:.2f}".format(u[i]) if u[i] != round(u[i]) or rng.random() < 0.5 else str(int(u[i])),
            "rlnDefocusV": "{:.2f}".format(v[i]),
            "rlnDefocusAngle": "{:.2f}".format(ang[i]),
            "rlnPhaseShift": "{:.2f}".format(ph[i]),
            "rlnCtfFigureOfMerit": "{:.5f}".format(rng.uniform(0, 0.3)),
            "rlnFinalResolution": "{:.3f}".format(rng.uniform(3, 30)),
        }
        lines.append("  ".join("{:>12}".format(vals[c]) for c in cols))
    lines.append("")
    write_lines(tmp(name), lines)
    exp = pd.DataFrame(
        {
            "defocus1": u / 1.0e4,
            "defocus2": v / 1.0e4,
            "astigmatism": ang,
            "phase_shift": ph if phase else np.zeros(n),
        }
    )
    exp["defocus_mean"] = (u + v) / 2.0 / 1.0e4
    return tmp(name), exp


def ctffind_file(rng, n, name):
    u = np.round(rng.uniform(5000, 60000, n), 2)
    v = np.round(u - rng.uniform(-800, 800, n), 2)
    ang = np.round(rng.uniform(-90, 90, n), 2)
    ph = np.round(rng.uniform(0, 3.14, n), 4)
    lines = [
        "# Output from CTFFind version 4.1.14, run on 2021-03-11 10:00:00",
        "# Input file: TS_01.st ; Number of micrographs: {}".format(n),
        "# Pixel size: 1.350 Angstroms ; acceleration voltage: 300.0 keV ; spherical aberration: 2.70 mm ; amplitude contrast: 0.07",
        "# Box size: 512 pixels ; min. res.: 30.0 Angstroms ; max. res.: 5.0 Angstroms ; min. def.: 5000.0 um; max. def. 50000.0 um",
        "# Columns: #1 - micrograph number; #2 - defocus 1 [Angstroms]; #3 - defocus 2; #4 - azimuth of astigmatism; #5 - additional phase shift [radians]; #6 - cross correlation; #7 - spacing (in Angstroms) up to which CTF rings were fit successfully",
    ][: int(rng.integers(0, 6))]
    for i in range(n):
        lines.append(
            "{:.6f} {:.6f} {:.6f} {:.6f} {:.6f} {:.6f} {:.6f}".format(
                i + 1.0, u[i], v[i], ang[i], ph[i], rng.uniform(0, 0.3), rng.uniform(3, 30)
            )
        )
    write_lines(tmp(name), lines)
    exp = pd.DataFrame({"defocus1": u / 1.0e4, "defocus2": v / 1.0e4, "astigmatism": ang, "phase_shift": ph})
    exp["defocus_mean"] = (u + v) / 2.0 / 1.0e4
    return tmp(name), exp


DEF_COLS = ["defocus1", "defocus2", "astigmatism", "phase_shift", "defocus_mean"]


def defocus_ok(df, exp, rtol, what, dtype):
    ok = check(list(df.columns) == DEF_COLS, what + ": columns")
    ok &= check(df.shape == exp.shape and list(df.index) == list(range(exp.shape[0])), what + ": shape, index")
    if ok:
        check(all(df[c].dtype == dtype for c in DEF_COLS), what + ": dtype")
        check(np.allclose(df.to_numpy(dtype=float), exp[DEF_COLS].to_numpy(), rtol=rtol, atol=1e-7), what + ": values")
        mean = (df["defocus1"].to_numpy() + df["defocus2"].to_numpy()) / 2
        check(np.allclose(df["defocus_mean"].to_numpy(), mean, rtol=rtol, atol=0), what + ": mean = (U+V)/2")
    return ok


def loader_checks(rng, n, tag):
    # tilt angles
    tf, tv = tilt_file(rng, n, "t_{}.tlt".format(tag))
    for rep in range(2):
        got = ioutils.tlt_load(tf)
        check(isinstance(got, np.ndarray) and got.dtype == np.float32 and got.shape == tv.shape, "tlt_load(file): type")
        check(np.array_equal(got, tv.astype(np.float32)), "tlt_load(file): values")
        check(bool(np.all(got[:-1] <= got[1:])), "tlt_load(file): ascending")
    got = ioutils.tlt_load(tf, sort_angles=False)
    check(np.array_equal(got, tv.astype(np.float32)), "tlt_load(file, sort_angles=False)")
    got = ioutils.one_value_per_line_read(tf)
    check(got.dtype == np.float32 and np.array_equal(got, tv.astype(np.float32)), "one_value_per_line_read")
    got = ioutils.one_value_per_line_read(tf, data_type=np.float64)
    check(got.dtype == np.float64 and np.array_equal(got, tv), "one_value_per_line_read float64")
    # a file that is not ascending is sorted
    perm = rng.permutation(len(tv))
    uf = write_lines(tmp("u_{}.rawtlt".format(tag)), ["{:.2f}".format(v) for v in tv[perm]])
    check(np.array_equal(ioutils.tlt_load(uf), np.sort(tv.astype(np.float32))), "tlt_load(unsorted file): ascending")
    check(np.array_equal(ioutils.tlt_load(uf, sort_angles=False), tv[perm].astype(np.float32)), "tlt_load(unsorted file, as is)")
    arr = tv.copy()
    check(ioutils.tlt_load(arr) is arr, "tlt_load(array) is the array")
    lst = [float(x) for x in tv]
    got = ioutils.tlt_load(lst)
    check(isinstance(got, np.ndarray) and np.array_equal(got, tv), "tlt_load(list)")
    for bad in (np.array([]), []):
        try:
            ioutils.tlt_load(bad)
            check(False, "tlt_load(empty) raises")
        except ValueError:
            check(True, "tlt_load(empty) raises")
    # dose
    df_, dv = dose_file(rng, n, "d_{}.txt".format(tag))
    got = ioutils.total_dose_load(df_)
    check(got.dtype == np.float32 and np.array_equal(got, dv.astype(np.float32)), "total_dose_load(file): values in file order")
    check(ioutils.total_dose_load(dv) is dv, "total_dose_load(array)")
    check(np.array_equal(ioutils.total_dose_load(list(dv)), dv), "total_dose_load(list)")
    # defocus
    gf, gexp = gctf_file(rng, n, "g_{}.star".format(tag))
    for rep in range(2):
        g = ioutils.gctf_read(gf)
        defocus_ok(g, gexp, 1e-12, "gctf_read", np.float64)
    g2 = ioutils.defocus_load(gf, "gctf")
    check(frames_identical(g, g2), "defocus_load(gctf) = gctf_read")
    check(frames_identical(g, ioutils.defocus_load(gf, "GCTF")), "defocus_load: file type case")
    cf, cexp = ctffind_file(rng, n, "c_{}.txt".format(tag))
    for rep in range(2):
        c = ioutils.ctffind4_read(cf)
        defocus_ok(c, cexp, 2e-6, "ctffind4_read", np.float32)
    check(frames_identical(c, ioutils.defocus_load(cf, "ctffind4")), "defocus_load(ctffind4) = ctffind4_read")
    check(ioutils.defocus_load(g) is g, "defocus_load(DataFrame)")
    a = gexp[DEF_COLS].to_numpy()
    da = ioutils.defocus_load(a)
    check(list(da.columns) == DEF_COLS and np.array_equal(da.to_numpy(), a), "defocus_load(array)")
    try:
        ioutils.defocus_load(gf, "other")
        check(False, "defocus_load: unknown type raises")
    except ValueError:
        check(True, "defocus_load: unknown type raises")
    return tf, tv, df_, dv, gf, gexp, cf, cexp


# --------------------------------------------------------------------------------------------------------------
# wedge lists
# --------------------------------------------------------------------------------------------------------------
SG_COLS = ["tomo_num", "pixelsize", "tomo_x", "tomo_y", "tomo_z", "z_shift", "tilt_angle", "defocus", "exposure",
           "voltage", "amp_contrast", "cs"]


def expected_sg(tomo, pixel, dims, zs, tilts, defocus, dose, voltage, amp, cs):
    n = len(tilts)
    d = {
        "tomo_num": [tomo] * n,
        "pixelsize": [pixel] * n,
        "tomo_x": [dims[0]] * n,
        "tomo_y": [dims[1]] * n,
        "tomo_z": [dims[2]] * n,
        "z_shift": [zs] * n,
        "tilt_angle": list(tilts),
        "defocus": list(defocus) if defocus is not None else [np.nan] * n,
        "exposure": list(dose) if dose is not None else [np.nan] * n,
        "voltage": [voltage] * n,
        "amp_contrast": [amp] * n,
        "cs": [cs] * n,
    }
    return pd.DataFrame(d, columns=SG_COLS)


def sg_ok(got, exp, what, rtol=0.0):
    exp = exp.dropna(axis=1, how="all")
    ok = check(list(got.columns) == list(exp.columns), what + ": columns")
    ok &= check(got.shape == exp.shape and list(got.index) == list(range(exp.shape[0])), what + ": one row per tilt, index")
    if ok:
        g = got.to_numpy(dtype=float)
        e = exp.to_numpy(dtype=float)
        if rtol:
            check(np.allclose(g, e, rtol=rtol, atol=1e-6), what + ": values")
        else:
            check(np.array_equal(g, e), what + ": values")
    return ok


def read_star_table(path):
    frames, specs, _ = starfileio.Starfile.read(path)
    return frames[0], specs[0]


def wedge_checks(rng, tag):
    nt = int(rng.integers(1, 6))
    tomos = sorted(int(t) for t in rng.choice(np.arange(1, 400), size=nt, replace=False))
    pixel = float(np.round(rng.uniform(0.8, 12.0), 3))
    voltage = float(rng.choice([200.0, 300.0]))
    amp = float(rng.choice([0.07, 0.1]))
    cs = float(rng.choice([2.7, 0.01]))
    sub = tmp("w_{}".format(tag))
    os.makedirs(sub, exist_ok=True)
    per = {}
    ctf_type = str(rng.choice(["gctf", "ctffind4"]))
    use_ctf = bool(rng.random() < 0.8)
    use_dose = bool(rng.random() < 0.8)
    for t in tomos:
        n = int(rng.integers(1, 81)) if rng.random() < 0.8 else int(rng.integers(1, 4))
        rel = os.path.join("w_{}".format(tag), "{:03d}".format(t))
        tf, tv = tilt_file(rng, n, rel + ".tlt")
        n = len(tv)
        dfile, dv = dose_file(rng, n, rel + "_dose.txt")
        if ctf_type == "gctf":
            cfile, cexp = gctf_file(rng, n, rel + "_ctf.star")
        else:
            cfile, cexp = ctffind_file(rng, n, rel + "_ctf.txt")
        dims = [float(rng.integers(50, 4100)), float(rng.integers(50, 4100)), float(rng.integers(10, 2100))]
        zs = float(np.round(rng.uniform(-200, 200), 1)) if rng.random() < 0.8 else 0.0
        write_lines(tmp(rel + "_dim.txt"), ["{} {} {}".format(int(dims[0]), int(dims[1]), int(dims[2]))])
        write_lines(tmp(rel + "_shift.txt"), ["{}".format(zs)])
        per[t] = dict(tf=tf, tv=tv, dfile=dfile, dv=dv, cfile=cfile, cexp=cexp, dims=dims, zs=zs, n=n)

    # ---- single tomogram, file and array inputs
    singles = {}
    for t in tomos:
        P = per[t]
        tl32 = P["tv"].astype(np.float32)
        file_inputs = bool(rng.random() < 0.5)
        if file_inputs:
            kw = dict(tomo_dim=tmp(os.path.join("w_{}".format(tag), "{:03d}_dim.txt".format(t))), tlt_file=P["tf"],
                      z_shift=tmp(os.path.join("w_{}".format(tag), "{:03d}_shift.txt".format(t))))
            if use_ctf:
                kw.update(ctf_file=P["cfile"], ctf_file_type=ctf_type)
            if use_dose:
                kw.update(dose_file=P["dfile"])
            e_t = tl32
            e_d = P["dv"].astype(np.float32) if use_dose else None
            rt = 2e-6 if ctf_type == "ctffind4" else 1e-12
        else:
            dims_in = [P["dims"], np.array(P["dims"]), np.array([P["dims"]])][int(rng.integers(0, 3))]
            kw = dict(tomo_dim=dims_in, tlt_file=[P["tv"].copy(), list(P["tv"])][int(rng.integers(0, 2))], z_shift=P["zs"])
            if use_ctf:
                kw.update(ctf_file=[P["cexp"][DEF_COLS].copy(), P["cexp"][DEF_COLS].to_numpy()][int(rng.integers(0, 2))])
            if use_dose:
                kw.update(dose_file=[P["dv"].copy(), list(P["dv"])][int(rng.integers(0, 2))])
            e_t = P["tv"]
            e_d = P["dv"] if use_dose else None
            rt = 1e-12
        out = tmp(os.path.join("w_{}".format(tag), "{:03d}_wl.star".format(t)))
        got = wedgeutils.create_wedge_list_sg(t, pixel_size=pixel, voltage=voltage, amp_contrast=amp, cs=cs, output_file=out, **kw)
        exp = expected_sg(t, pixel, P["dims"], P["zs"], e_t, P["cexp"]["defocus_mean"].to_numpy() if use_ctf else None, e_d,
                          voltage, amp, cs)
        sg_ok(got, exp, "create_wedge_list_sg", rtol=rt)
        back, spec = read_star_table(out)
        check(spec == "data_stopgap_wedgelist", "wedge list file: specifier")
        sg_ok(back, got.round(6), "wedge list file re-read", rtol=1e-6)
        got_nan = wedgeutils.create_wedge_list_sg(t, pixel_size=pixel, voltage=voltage, amp_contrast=amp, cs=cs,
                                                  drop_nan_columns=False, **kw)
        check(list(got_nan.columns) == SG_COLS, "create_wedge_list_sg(drop_nan_columns=False): all columns")
        singles[t] = exp

    # ---- batch
    form = int(rng.integers(0, 3))
    if form == 0:
        tomo_list = np.array(tomos)
    elif form == 1:
        tomo_list = [int(t) for t in tomos]
    else:
        tomo_list = write_lines(tmp(os.path.join("w_{}".format(tag), "tomos.txt")), [str(t) for t in tomos])
    base = os.path.join(TMP, "w_{}".format(tag))
    kw = dict(tlt_file_format=base + "/$xxx.tlt")
    dims_by_file = bool(rng.random() < 0.4)
    if dims_by_file:
        kw.update(tomo_dim_file_format=base + "/$xxx_dim.txt")
    else:
        kw.update(tomo_dim=np.array([[t] + per[t]["dims"] for t in tomos]))
    zmode = int(rng.integers(0, 3))
    zs_of = {t: per[t]["zs"] for t in tomos}
    if zmode == 0:
        kw.update(z_shift_file_format=base + "/$xxx_shift.txt")
    elif zmode == 1:
        kw.update(z_shift=np.array([[float(t), per[t]["zs"]] for t in tomos]))
    else:
        common = float(np.round(rng.uniform(-100, 100), 1))
        kw.update(z_shift=common)
        zs_of = {t: common for t in tomos}
    if use_ctf:
        kw.update(ctf_file_format=base + ("/$xxx_ctf.star" if ctf_type == "gctf" else "/$xxxx_ctf.txt".replace("$xxxx", "$xxx")),
                  ctf_file_type=ctf_type)
    if use_dose:
        kw.update(dose_file_format=base + "/$xxx_dose.txt")
    out = tmp(os.path.join("w_{}".format(tag), "wl_all.star"))
    got = wedgeutils.create_wedge_list_sg_batch(tomo_list, pixel, voltage=voltage, amp_contrast=amp, cs=cs, output_file=out, **kw)
    parts = []
    for t in tomos:
        P = per[t]
        parts.append(expected_sg(t, pixel, P["dims"], zs_of[t], P["tv"].astype(np.float32),
                                 P["cexp"]["defocus_mean"].to_numpy() if use_ctf else None,
                                 P["dv"].astype(np.float32) if use_dose else None, voltage, amp, cs))
    exp = pd.concat(parts, ignore_index=True)
    rt = 2e-6 if ctf_type == "ctffind4" else 1e-12
    sg_ok(got, exp, "create_wedge_list_sg_batch", rtol=rt)
    check(got.shape[0] == sum(per[t]["n"] for t in tomos), "batch: one row per tilt per tomogram")
    back, spec = read_star_table(out)
    sg_ok(back, got.round(6), "batch wedge list file re-read", rtol=1e-6)

    # ---- EM wedge list
    oute = tmp(os.path.join("w_{}".format(tag), "wl_all.em"))
    em = wedgeutils.create_wedge_list_em_batch(tomo_list, base + "/$xxx.tlt", output_file=oute)
    check(list(em.columns) == ["tomo_num", "min_angle", "max_angle"] and em.shape == (nt, 3), "em wedge list: shape")
    check([int(x) for x in em["tomo_num"]] == tomos, "em wedge list: tomograms")
    mins = np.array([per[t]["tv"].astype(np.float32).min() for t in tomos])
    maxs = np.array([per[t]["tv"].astype(np.float32).max() for t in tomos])
    check(np.array_equal(em["min_angle"].to_numpy(), mins) and np.array_equal(em["max_angle"].to_numpy(), maxs), "em wedge list: min / max tilt")
    check(all(per[t]["tv"][0] == per[t]["tv"].min() and per[t]["tv"][-1] == per[t]["tv"].max() for t in tomos), "em: sorted inputs")
    hdr, data = emfile.read(oute)
    check(data.shape == (1, nt, 3) and data.dtype == np.float32, "em wedge list file: shape")
    check(np.array_equal(data[0], np.column_stack([np.array(tomos, dtype=np.float32), mins, maxs])), "em wedge list file: values")
    # ---- STOPGAP -> EM
    outc = tmp(os.path.join("w_{}".format(tag), "wl_conv.em"))
    conv = wedgeutils.wedge_list_sg_to_em(out, outc)
    check(list(conv.columns) == ["tomo_id", "min_tilt_angle", "max_tilt_angle"] and conv.shape == (nt, 3), "sg_to_em: shape")
    check([int(x) for x in conv["tomo_id"]] == tomos, "sg_to_em: tomograms")
    check(np.allclose(conv["min_tilt_angle"].to_numpy(), mins, rtol=0, atol=1e-6)
          and np.allclose(conv["max_tilt_angle"].to_numpy(), maxs, rtol=0, atol=1e-6), "sg_to_em: min / max")
    hdr, data2 = emfile.read(outc)
    check(data2.shape == (1, nt, 3) and np.allclose(data2, data, atol=1e-5), "sg_to_em: file")
    conv2 = wedgeutils.wedge_list_sg_to_em(out, outc, write_out=False)
    check(conv2.equals(conv), "sg_to_em: repeatable")


def run_property_checks(seed=20260928, n_mdoc=70, n_loader=40, n_wedge=30):
    rng = np.random.default_rng(seed)
    sizes = [1, 1, 2, 2, 3, 5, 41, 80, 80] + [int(x) for x in rng.integers(1, 81, size=n_mdoc)]
    for i, n in enumerate(sizes):
        mdoc_checks(rng, n, "m{}".format(i), with_dose=bool(rng.random() < 0.8), prior=bool(rng.random() < 0.8),
                    ties=bool(rng.random() < 0.15))
    sizes = [1, 1, 2, 3, 80, 80] + [int(x) for x in rng.integers(1, 81, size=n_loader)]
    for i, n in enumerate(sizes):
        loader_checks(rng, n, "l{}".format(i))
    for i in range(n_wedge):
        wedge_checks(rng, "w{}".format(i))


def finish():
    shutil.rmtree(TMP, ignore_errors=True)
    total = sum(COUNTS.values())
    if FAILS:
        print("FAIL: {} of {} checks failed: {}".format(len(FAILS), total, sorted(set(FAILS))[:20]))
        sys.exit(1)
    print("PASS ({} checks, {} kinds)".format(total, len(COUNTS)))
    sys.exit(0)


# --------------------------------------------------------------------------------------------------------------
# change a: Mdoc._format_value and Mdoc.write against the original function texts
# --------------------------------------------------------------------------------------------------------------
ORIGINAL_A = '''
from os import path

def _format_value(value):
    if value.strip().isdigit():
        formatted = int(value.strip())
    elif value.strip().replace(".", "", 1).isdigit():
        formatted = float(value.strip())
    else:
        formatted = value.strip()
    return formatted

def write(self, out_path=None, overwrite=False, removed=False):
    if not out_path:
        out_path = self.file_path
    if path.isfile(out_path) and not overwrite:
        raise FileExistsError("File {} already exists. Set overwrite=True to overwrite.".format(out_path))

    with open(out_path, "w") as f:
        # write header
        for key, value in self.project_info.items():
            f.write("{} = {}\\n".format(key, value))
        f.write("\\n")
        for title in self.titles:
            f.write("[{}]\\n".format(title))
            f.write("\\n")

        # write images
        for index, row in self.imgs.iterrows():
            if removed or (not removed and not row["Removed"]):
                f.write("[{} = {}]\\n".format(self.section_id, row[self.section_id]))
                for column in self.imgs.columns:
                    if (column != self.section_id) and (column != "Removed"):
                        f.write("{} = {}\\n".format(column, row[column]))
                f.write("\\n")
'''


def outcome(fn, *a, **k):
    try:
        r = fn(*a, **k)
        return ("value", type(r).__name__, r)
    except Exception as e:  # noqa
        return ("raises", type(e).__name__, None)


def compare_with_original_a(seed=7):
    ns = {}
    exec(ORIGINAL_A, ns)
    o_format, o_write = ns["_format_value"], ns["write"]
    rng = np.random.default_rng(seed)
    fixed = ["", " ", "0", "00", "007", " 12 ", "\t3\n", "1.", ".5", ".", "..", "1.2.3", "-1", "-1.5", "+2", "1e5", "1E-05",
             "nan", "NaN", "inf", "1 2", "1. 2", " 1.50 \n", "1,5", "١٢", "\u00b2", "1.\u00b2", "\u00bd", "0x1f", "1_000", "abc",
             "4096 4096", "X:\\frames\\a.tif", "11-Mar-21  10:00:01", "3.", " .25", "9" * 30, "0." + "3" * 25, "１２"]
    texts = fixed + [rand_value_text(rng) for _ in range(3000)] + [" " * int(rng.integers(0, 3)) + rand_value_text(rng) + "\n" for _ in range(1000)]
    chars = list("0123456789.-+e \t")
    texts += ["".join(rng.choice(chars, size=int(rng.integers(0, 7)))) for _ in range(4000)]
    for t in texts:
        a, b = outcome(o_format, t), outcome(mdoc.Mdoc._format_value, t)
        check(a[:2] == b[:2] and (a[2] == b[2]), "_format_value: same outcome as the original")

    for i in range(40):
        n = int(rng.integers(1, 81)) if i > 4 else [1, 1, 2, 3, 80][i]
        text, titles, info, columns, rows = gen_mdoc(rng, n, ties=bool(rng.random() < 0.2))
        p = tmp("cmp_{}.mdoc".format(i))
        with open(p, "w") as f:
            f.write(text)
        m = mdoc.Mdoc(p)
        step = int(rng.integers(0, 4))
        if step in (1, 3):
            m.sort_by_tilt(reset_z_value=bool(rng.random() < 0.3))
        if step in (2, 3):
            m.remove_images([int(x) for x in rng.choice(n, size=int(rng.integers(0, n + 1)), replace=False)])
        snapshot = m.imgs.copy()
        for removed in (False, True):
            pa, pb = tmp("cmp_o_{}.mdoc".format(i)), tmp("cmp_n_{}.mdoc".format(i))
            o_write(m, pa, overwrite=True, removed=removed)
            m.write(pb, overwrite=True, removed=removed)
            check(open(pa).read() == open(pb).read(), "write: same text as the original writer")
        check(frames_identical(m.imgs, snapshot), "write: table untouched")
        # default path / overwrite protection as before
        m.file_path = tmp("cmp_d_{}.mdoc".format(i))
        m.write()
        o_write(m, tmp("cmp_d2_{}.mdoc".format(i)))
        check(open(m.file_path).read() == open(tmp("cmp_d2_{}.mdoc".format(i))).read(), "write: default path")
        check(outcome(m.write)[:2] == outcome(o_write, m)[:2] == ("raises", "FileExistsError"), "write: existing file")
    # tables without a Removed column / empty tables behave as before
    m = mdoc.Mdoc(titles=["T = x"], project_info={"A": 1}, imgs=pd.DataFrame({"ZValue": [0, 1], "TiltAngle": [1.0, 2.0]}))
    check(outcome(m.write, tmp("nr1.mdoc"), True)[:2] == outcome(o_write, m, tmp("nr2.mdoc"), True)[:2], "write: no Removed column, kept only")
    check(open(tmp("nr1.mdoc")).read() == open(tmp("nr2.mdoc")).read(), "write: no Removed column, partial text")
    m.write(tmp("nr1.mdoc"), True, True)
    o_write(m, tmp("nr2.mdoc"), True, True)
    check(open(tmp("nr1.mdoc")).read() == open(tmp("nr2.mdoc")).read(), "write: no Removed column, removed=True")
    m = mdoc.Mdoc(titles=[], project_info={}, imgs=pd.DataFrame(columns=["ZValue", "TiltAngle", "Removed"]))
    m.write(tmp("e1.mdoc"), True)
    o_write(m, tmp("e2.mdoc"), True)
    check(open(tmp("e1.mdoc")).read() == open(tmp("e2.mdoc")).read() == "\n", "write: empty table")


if __name__ == "__main__":
    compare_with_original_a()
    run_property_checks()
    finish()
