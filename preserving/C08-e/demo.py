import sys, os

sys.path.insert(0, os.getcwd())

import contextlib
import copy
import inspect
import io
import math
import warnings

import numpy as np
import pandas as pd

from cryocat import cryomotl
from cryocat.cryomotl import Motl

warnings.simplefilter("ignore")

# ---------------------------------------------------------------------------------------------------------------------
# 1. The ORIGINAL text of every function the property depends on (copied from the unmodified tree, docstrings dropped).
#    They are compiled into a subclass OrigMotl; inside these texts the name `Motl` resolves to OrigMotl, so that the
#    originals only ever call originals.
# ---------------------------------------------------------------------------------------------------------------------
ORIG_SRC = '''
class OrigMotl(Motl):

    @staticmethod
    def create_empty_motl_df():
        empty_motl_df = pd.DataFrame(
            columns=Motl.motl_columns,
            dtype=float,
        )

        empty_motl_df = empty_motl_df.fillna(0.0)

        return empty_motl_df

    @staticmethod
    def check_df_correct_format(input_df):
        if sorted(Motl.motl_columns) == sorted(input_df.columns):
            return True
        else:
            return False

    def get_unique_values(self, feature_id):
        return self.df.loc[:, feature_id].unique()

    def get_motl_subset(self, feature_values, feature_id="tomo_id", return_df=False, reset_index=True):
        if isinstance(feature_values, (list, np.ndarray)):
            feature_values = np.atleast_1d(np.array(feature_values))  # a 0-d array is one value
        else:
            feature_values = np.array([feature_values])

        new_df = Motl.create_empty_motl_df()
        for i in feature_values:
            df_i = self.df.loc[self.df[feature_id] == i].copy()
            new_df = pd.concat([new_df, df_i])

        if reset_index:
            new_df = new_df.reset_index(drop=True)

        if return_df:
            return new_df
        else:
            return Motl(motl_df=new_df)

    @classmethod
    def get_motl_intersection(cls, motl1, motl2, feature_id="subtomo_id"):
        m1 = cls.load(motl1.df)
        m2 = cls.load(motl2.df)

        s1 = m1.df.loc[m1.df[feature_id].isin(m2.df[feature_id])]

        if s1.shape[0] == 0:
            warnings.warn("The intersection of the two motls is empty.")

        return cls(s1.reset_index(drop=True))

    def renumber_objects_sequentially(self, starting_number=1):
        start_number = starting_number

        def assign_new_object_id(group):
            nonlocal start_number
            group["object_id"] = group["object_id"].factorize()[0] + start_number
            start_number = group["object_id"].max() + 1
            return group

        df_reset = self.df.reset_index(drop=True)

        renumbered = [assign_new_object_id(group.copy()) for _, group in df_reset.groupby("tomo_id")]
        self.df = pd.concat(renumbered).sort_index() if renumbered else df_reset

    def remove_feature(self, feature_id, feature_values):
        if not isinstance(feature_values, (list, np.ndarray)):
            feature_values = [feature_values]
        for value in feature_values:
            self.df = self.df.loc[self.df[feature_id] != value]

    def renumber_particles(self):
        self.df.loc[:, "subtomo_id"] = list(range(1, len(self.df) + 1))

    def split_by_feature(self, feature_id, write_out=False, output_prefix=""):
        uniq_values = self.get_unique_values(feature_id)
        motls = list()

        for value in uniq_values:
            submotl = Motl(self.df.loc[self.df[feature_id] == value])
            motls.append(submotl)

            if write_out:
                out_name = f"{output_prefix}{str(int(value))}.em"
                submotl.write_out(out_name)

        return motls

    @classmethod
    def merge_and_renumber(cls, motl_list):
        if not isinstance(motl_list, list) or len(motl_list) == 0:
            raise UserInputError(f"Input must be a list of em file paths, or Motl instances.")

        merged_df = cls.create_empty_motl_df()
        feature_add = 0

        if not isinstance(motl_list, list) or len(motl_list) == 0:
            raise UserInputError(
                f"You must provide a list of em file paths, or Motl instances. "
                f"Instead, an instance of {type(motl_list).__name__} was given."
            )

        for m in motl_list:
            if m is None:
                raise ValueError("Motl list cannot contain None values.")
            motl = cls.load(m)
            if not motl.df.empty:
                feature_min = min(motl.df.loc[:, "object_id"])
            else:
                print("Warning: Encountered an empty Motl DataFrame. Skipping.")
                continue

            if feature_min <= feature_add:
                motl.df.loc[:, "object_id"] = motl.df.loc[:, "object_id"] + (feature_add - feature_min + 1)

            merged_df = pd.concat([merged_df, motl.df])
            feature_add = max(motl.df.loc[:, "object_id"])

        merged_motl = cls(merged_df)
        merged_motl.renumber_particles()
        merged_motl.df.reset_index(inplace=True, drop=True)

        return merged_motl

    @classmethod
    def merge_and_drop_duplicates(cls, motl_list):
        merged_df = cls.create_empty_motl_df()
        feature_add = 0

        if not isinstance(motl_list, list) or len(motl_list) == 0:
            raise UserInputError(
                f"You must provide a list of em file paths, or Motl instances. "
                f"Instead, an instance of {type(motl_list).__name__} was given."
            )

        for m in motl_list:
            motl = cls.load(m)
            if motl.df.empty:
                print(f"Skipping empty Motl: {motl}")
                continue  # Skip empty motls
            feature_min = min(motl.df.loc[:, "object_id"])

            if feature_min <= feature_add:
                motl.df.loc[:, "object_id"] = motl.df.loc[:, "object_id"] + (feature_add - feature_min + 1)

            merged_df = pd.concat([merged_df, motl.df])
            feature_add = max(motl.df.loc[:, "object_id"])

        merged_motl = cls(merged_df)
        merged_motl.drop_duplicates()
        merged_motl.df.reset_index(inplace=True, drop=True)

        return merged_motl

    def drop_duplicates(self, duplicates_column="subtomo_id", decision_column="score", decision_sort_ascending=False):
        self.df = self.df.sort_values(
            by=[duplicates_column, decision_column], ascending=[True, decision_sort_ascending]
        )

        self.df = self.df.drop_duplicates(subset=duplicates_column)
        self.df.reset_index(inplace=True, drop=True)
'''
_ns = dict(vars(cryomotl))
exec(compile(ORIG_SRC, "<original cryomotl text>", "exec"), _ns)
OrigMotl = _ns["OrigMotl"]
_ns["Motl"] = OrigMotl  # from now on the original texts see only originals

COLS = list(Motl.motl_columns)
CI = {c: i for i, c in enumerate(COLS)}
FAILS = []
COUNTS = {}


def fail(msg):
    FAILS.append(msg)
    if len(FAILS) <= 15:
        print("FAIL:", msg)


def count(k):
    COUNTS[k] = COUNTS.get(k, 0) + 1


# ---------------------------------------------------------------------------------------------------------------------
# 2. comparison helpers
# ---------------------------------------------------------------------------------------------------------------------
def frames_identical(a, b, what):
    """installed result vs original result: same columns (and order), same index, same dtypes, same cells."""
    try:
        if list(a.columns) != list(b.columns):
            raise AssertionError(f"columns differ {list(a.columns)} vs {list(b.columns)}")
        if type(a.index) is not type(b.index):
            raise AssertionError(f"index type differs {type(a.index)} vs {type(b.index)}")
        pd.testing.assert_frame_equal(a, b, check_exact=True)
    except AssertionError as e:
        fail(f"{what}: installed and original disagree: {str(e)[:300]}")
        return False
    return True


def rows_of(df):
    return [tuple(float(v) for v in r) for r in df[COLS].to_numpy(dtype=float)]


def cell_eq(x, y):
    return x == y or (math.isnan(x) and math.isnan(y))


def rows_eq(r1, r2):
    return len(r1) == len(r2) and all(
        len(a) == len(b) and all(cell_eq(x, y) for x, y in zip(a, b)) for a, b in zip(r1, r2)
    )


def check_table(df, what):
    if sorted(df.columns) != sorted(COLS) or df.shape[1] != 20:
        fail(f"{what}: table does not have exactly the 20 fields: {list(df.columns)}")


def check_model(df, model_rows, what):
    check_table(df, what)
    if not rows_eq(rows_of(df), model_rows):
        fail(f"{what}: table differs from the row-set model ({len(df)} rows vs {len(model_rows)} model rows)")
        return False
    return True


def nan0(rows):
    return [tuple(0.0 if math.isnan(v) else v for v in r) for r in rows]


# ---------------------------------------------------------------------------------------------------------------------
# 3. the pure-Python row-set model
# ---------------------------------------------------------------------------------------------------------------------
def m_subset(rows, values, f):
    return [r for v in values for r in rows if r[CI[f]] == v]


def m_remove(rows, f, values):
    return [r for r in rows if all(r[CI[f]] != v for v in values)]


def m_split(rows, f):
    uniq = []
    for r in rows:
        if r[CI[f]] not in uniq:
            uniq.append(r[CI[f]])
    return [[r for r in rows if r[CI[f]] == u] for u in uniq]


def m_intersection(rows1, rows2, f):
    rows1, rows2 = nan0(rows1), nan0(rows2)
    keys = {r[CI[f]] for r in rows2}
    return [r for r in rows1 if r[CI[f]] in keys]


def m_drop_dup(rows, dup="subtomo_id", dec="score", asc=False):
    sign = 1.0 if asc else -1.0
    srt = sorted(rows, key=lambda r: (r[CI[dup]], sign * r[CI[dec]]))  # stable
    seen, out = set(), []
    for r in srt:
        if r[CI[dup]] not in seen:
            seen.add(r[CI[dup]])
            out.append(r)
    return out


def m_merge(list_of_rows, raw):
    # a raw table is loaded (missing values become 0), a Motl instance is deep-copied as it is
    merged, add = [], 0
    for rows, is_raw in zip(list_of_rows, raw):
        rows = nan0(rows) if is_raw else list(rows)
        if not rows:
            continue
        omin = min(r[CI["object_id"]] for r in rows)
        if omin <= add:
            sh = add - omin + 1
            rows = [r[: CI["object_id"]] + (r[CI["object_id"]] + sh,) + r[CI["object_id"] + 1 :] for r in rows]
        merged += rows
        add = max(r[CI["object_id"]] for r in rows)
    return merged


def m_renumber_particles(rows, start=1):
    k = CI["subtomo_id"]
    return [r[:k] + (float(start + i),) + r[k + 1 :] for i, r in enumerate(rows)]


def m_renumber_objects(rows, start=1):
    k, t = CI["object_id"], CI["tomo_id"]
    mapping, nxt = {}, start
    for tomo in sorted({r[t] for r in rows}):
        for r in rows:
            if r[t] == tomo and (tomo, r[k]) not in mapping:
                mapping[(tomo, r[k])] = float(nxt)
                nxt += 1
    return [r[:k] + (mapping[(r[t], r[k])],) + r[k + 1 :] for r in rows]


def other_fields_unchanged(before, after, changed, what):
    idx = [i for c, i in CI.items() if c not in changed]
    if len(before) != len(after) or any(
        not cell_eq(b[i], a[i]) for b, a in zip(before, after) for i in idx
    ):
        fail(f"{what}: a field other than {changed} changed")


# ---------------------------------------------------------------------------------------------------------------------
# 4. random particle lists
# ---------------------------------------------------------------------------------------------------------------------
KEYS = ["tomo_id", "object_id", "class", "geom1", "geom2", "subtomo_id", "score", "subtomo_mean"]


def rand_df(rng, n=None, key_nans=False):
    if n is None:
        n = int(rng.choice([0, 0, 1, 2, 3, 7, 20, 60, 200, int(rng.integers(0, 201))]))
    df = pd.DataFrame(np.round(rng.normal(size=(n, 20)) * 30, 2), columns=COLS)
    df["tomo_id"] = rng.integers(1, int(rng.integers(2, 6)), size=n).astype(float)
    df["object_id"] = rng.integers(int(rng.integers(-2, 3)), int(rng.integers(3, 12)), size=n).astype(float)
    df["class"] = rng.integers(1, 4, size=n).astype(float)
    df["geom1"] = rng.integers(0, 3, size=n).astype(float)
    df["geom2"] = rng.integers(1, 5, size=n).astype(float)
    df["subtomo_mean"] = rng.integers(0, 2, size=n).astype(float)
    df["score"] = rng.choice(np.round(rng.random(max(3, n // 3 + 1)), 3), size=n)  # ties on purpose
    mode = rng.integers(0, 3)
    if mode == 0:  # unique unsorted ids
        df["subtomo_id"] = rng.permutation(np.arange(1, n + 1) * int(rng.integers(1, 4))).astype(float)
    elif mode == 1:  # repeated unsorted ids
        df["subtomo_id"] = rng.integers(1, max(2, n // 2 + 1), size=n).astype(float)
    else:  # gaps and repeats
        df["subtomo_id"] = rng.choice(np.arange(1, 3 * n + 2), size=n).astype(float)
    if n:  # missing values in the fields that are no keys
        for c in ["geom3", "geom4", "geom5", "shift_x", "phi", "x"]:
            if rng.random() < 0.4:
                df.loc[rng.random(n) < 0.15, c] = np.nan
        if key_nans:
            for c in KEYS:
                if rng.random() < 0.3:
                    df.loc[rng.random(n) < 0.1, c] = np.nan
    if rng.random() < 0.25:
        df = df[list(rng.permutation(COLS))]
    if rng.random() < 0.25 and n:
        df.index = rng.permutation(np.arange(n)) + int(rng.integers(0, 5))
    return df


def pick_values(rng, rows, f):
    present = sorted({r[CI[f]] for r in rows if not math.isnan(r[CI[f]])})
    cand = present + [-77.0, 1234.5]
    k = int(rng.integers(0, 4))
    vals = [float(cand[int(rng.integers(0, len(cand)))]) for _ in range(k)]
    return vals


def quiet(fn, *a, **k):
    """run fn, swallow prints, return (result, exception type or None)"""
    buf = io.StringIO()
    try:
        with contextlib.redirect_stdout(buf), warnings.catch_warnings():
            warnings.simplefilter("ignore")
            return fn(*a, **k), None
    except Exception as e:  # noqa
        return None, type(e).__name__


def both(what, call_a, call_b):
    """call installed (A) and original (B); they must raise the same or return; returns (ra, rb, ok)"""
    ra, ea = quiet(call_a)
    rb, eb = quiet(call_b)
    if ea != eb:
        fail(f"{what}: installed raised {ea}, original raised {eb}")
        return ra, rb, False
    return ra, rb, ea is None


# ---------------------------------------------------------------------------------------------------------------------
# 5. histories: three parallel universes (installed code A, original code B, row-set model M) get the same operations
# ---------------------------------------------------------------------------------------------------------------------
OPS = ["subset", "remove", "split", "intersection", "drop_dup", "merge_renumber", "merge_dropdup",
       "renumber_particles", "renumber_objects", "edit", "fresh_empty"]


def run_history(rng, n_ops=10, key_nans=False, n_slots=3):
    A, B, M = [], [], []
    for _ in range(n_slots):
        df = rand_df(rng, key_nans=key_nans)
        A.append(Motl(df.copy()))
        B.append(OrigMotl(df.copy()))
        M.append(rows_of(df))
    use_model = not key_nans

    def sync(i, what):
        ok = frames_identical(A[i].df, B[i].df, what)
        check_table(A[i].df, what)
        if use_model:
            ok = check_model(A[i].df, M[i], what) and ok
        return ok

    for step in range(n_ops):
        op = OPS[int(rng.integers(0, len(OPS)))]
        i, j, k = (int(x) for x in rng.integers(0, n_slots, size=3))
        what = f"step {step} {op}"
        count(op)
        if op == "subset":
            f = KEYS[int(rng.integers(0, 6))]
            vals = pick_values(rng, M[j], f)
            arg = vals if (len(vals) != 1 or rng.random() < 0.5) else vals[0]
            ri = bool(rng.integers(0, 2))
            kw = {} if rng.random() < 0.3 else {"reset_index": ri}
            if f != "tomo_id" or rng.random() < 0.5:
                kw["feature_id"] = f
            fa, fb, ok = both(what + " df", lambda: A[j].get_motl_subset(arg, return_df=True, **kw),
                              lambda: B[j].get_motl_subset(arg, return_df=True, **kw))
            if ok:
                frames_identical(fa, fb, what + " return_df")
            ra, rb, ok = both(what, lambda: A[j].get_motl_subset(arg, **kw), lambda: B[j].get_motl_subset(arg, **kw))
            if ok:
                before_j = rows_of(A[j].df)
                A[i], B[i] = ra, rb
                M[i] = m_subset(M[j], vals, f)
                sync(i, what)
                if i != j and not rows_eq(rows_of(A[j].df), before_j):
                    fail(what + ": source list changed")
        elif op == "remove":
            f = KEYS[int(rng.integers(0, 6))]
            vals = pick_values(rng, M[i], f)
            form = int(rng.integers(0, 3))
            arg = vals if form == 0 else (np.array(vals) if form == 1 else (vals[0] if len(vals) == 1 else vals))
            # complement of the selection
            sa, _ = quiet(lambda: A[i].get_motl_subset(sorted(set(vals)), feature_id=f))
            n_before = len(A[i].df)
            _, _, ok = both(what, lambda: A[i].remove_feature(f, arg), lambda: B[i].remove_feature(f, arg))
            if ok:
                M[i] = m_remove(M[i], f, vals)
                sync(i, what)
                if sa is not None and use_model:
                    if len(sa.df) + len(A[i].df) != n_before:
                        fail(what + ": removal and selection are not complementary")
        elif op == "split":
            f = KEYS[int(rng.integers(0, 5))]
            pa, pb, ok = both(what, lambda: A[j].split_by_feature(f), lambda: B[j].split_by_feature(f))
            if ok:
                if len(pa) != len(pb):
                    fail(what + ": number of parts differs")
                else:
                    for x, y in zip(pa, pb):
                        frames_identical(x.df, y.df, what + " part")
                    if use_model:
                        mp = m_split(M[j], f)
                        if len(mp) != len(pa) or any(not rows_eq(rows_of(x.df), y) for x, y in zip(pa, mp)):
                            fail(what + ": parts differ from model partition")
                        if sum(len(x.df) for x in pa) != len(M[j]):
                            fail(what + ": parts do not partition the list")
                    if pa:
                        q = int(rng.integers(0, len(pa)))
                        A[i], B[i] = pa[q], pb[q]
                        M[i] = rows_of(pa[q].df) if not use_model else m_split(M[j], f)[q]
                        sync(i, what)
        elif op == "intersection":
            f = ["subtomo_id", "subtomo_id", "object_id", "tomo_id"][int(rng.integers(0, 4))]
            kw = {} if f == "subtomo_id" and rng.random() < 0.5 else {"feature_id": f}
            ra, rb, ok = both(what, lambda: Motl.get_motl_intersection(A[j], A[k], **kw),
                              lambda: OrigMotl.get_motl_intersection(B[j], B[k], **kw))
            if ok:
                A[i], B[i] = ra, rb
                M[i] = m_intersection(M[j], M[k], f)
                sync(i, what)
        elif op == "drop_dup":
            form = int(rng.integers(0, 4))
            if form == 0:
                kw, mk = {}, {}
            elif form == 1:
                kw, mk = {"decision_sort_ascending": True}, {"asc": True}
            elif form == 2:
                kw = {"decision_column": "geom1", "decision_sort_ascending": bool(rng.integers(0, 2))}
                mk = {"dec": "geom1", "asc": kw["decision_sort_ascending"]}
            else:
                kw = {"duplicates_column": "object_id", "decision_column": "score"}
                mk = {"dup": "object_id"}
            _, _, ok = both(what, lambda: A[i].drop_duplicates(**kw), lambda: B[i].drop_duplicates(**kw))
            if ok:
                M[i] = m_drop_dup(M[i], **mk)
                sync(i, what)
                if use_model:
                    ids = [r[CI[mk.get("dup", "subtomo_id")]] for r in rows_of(A[i].df)]
                    if len(ids) != len(set(ids)):
                        fail(what + ": an id survived twice")
        elif op in ("merge_renumber", "merge_dropdup"):
            n_in = int(rng.integers(1, 5))
            sel = [int(x) for x in rng.integers(0, n_slots, size=n_in)]
            raw = [bool(rng.random() < 0.3) for _ in sel]
            la = [A[s].df if r else A[s] for s, r in zip(sel, raw)]
            lb = [B[s].df if r else B[s] for s, r in zip(sel, raw)]
            before = [rows_of(A[s].df) for s in sel]
            name = "merge_and_renumber" if op == "merge_renumber" else "merge_and_drop_duplicates"
            ra, rb, ok = both(what, lambda: getattr(Motl, name)(la), lambda: getattr(OrigMotl, name)(lb))
            if ok:
                for s, b in zip(sel, before):
                    if not rows_eq(rows_of(A[s].df), b):
                        fail(what + ": an input list was changed by the merge")
                srcs = [nan0(M[s]) if r else list(M[s]) for s, r in zip(sel, raw)]
                mm = m_merge([M[s] for s in sel], raw)
                A[i], B[i] = ra, rb
                if op == "merge_renumber":
                    M[i] = m_renumber_particles(mm)
                    sync(i, what)
                    if use_model:
                        out = rows_of(ra.df)
                        if [r[CI["subtomo_id"]] for r in out] != [float(x) for x in range(1, len(out) + 1)]:
                            fail(what + ": subtomogram numbers are not 1..N")
                        # object numbers never collide across inputs, grouping of each input kept
                        pos, seen = 0, set()
                        for src in srcs:
                            part = out[pos : pos + len(src)]
                            pos += len(src)
                            new_ids = {r[CI["object_id"]] for r in part}
                            if new_ids & seen:
                                fail(what + ": object numbers collide across inputs")
                            seen |= new_ids
                            pairs = {(a[CI["object_id"]], b[CI["object_id"]]) for a, b in zip(src, part)}
                            if len(pairs) != len({p[0] for p in pairs}) or len(pairs) != len({p[1] for p in pairs}):
                                fail(what + ": grouping of an input not kept")
                            other_fields_unchanged(src, part, {"object_id", "subtomo_id"}, what)
                        if pos != len(out):
                            fail(what + ": merged list has rows of no input")
                else:
                    M[i] = m_drop_dup(mm)
                    sync(i, what)
        elif op == "renumber_particles":
            before = rows_of(A[i].df)
            _, _, ok = both(what, lambda: A[i].renumber_particles(), lambda: B[i].renumber_particles())
            if ok:
                M[i] = m_renumber_particles(M[i])
                sync(i, what)
                other_fields_unchanged(before, rows_of(A[i].df), {"subtomo_id"}, what)
        elif op == "renumber_objects":
            start = int(rng.choice([1, 1, 1, 0, 5, 100]))
            form = int(rng.integers(0, 3))
            args, kw = ((), {}) if start == 1 and form == 0 else (((start,), {}) if form == 1 else ((), {"starting_number": start}))
            before = rows_of(A[i].df)
            _, _, ok = both(what, lambda: A[i].renumber_objects_sequentially(*args, **kw),
                            lambda: B[i].renumber_objects_sequentially(*args, **kw))
            if ok:
                if use_model:
                    M[i] = m_renumber_objects(M[i], start)
                sync(i, what)
                after = rows_of(A[i].df)
                if use_model:
                    other_fields_unchanged(before, after, {"object_id"}, what)
                if use_model and after:
                    grp = {}
                    for b, a in zip(before, after):
                        grp.setdefault((b[CI["tomo_id"]], b[CI["object_id"]]), set()).add(a[CI["object_id"]])
                    news = sorted(next(iter(v)) for v in grp.values())
                    if any(len(v) != 1 for v in grp.values()) or news != [float(start + q) for q in range(len(grp))]:
                        fail(what + ": (tomogram, object) grouping not kept under consecutive numbers")
        elif op == "edit":
            # the caller edits a list in place (same edit in all universes); later results must reflect it
            n = len(A[i].df)
            if n:
                c = ["score", "class", "object_id", "tomo_id", "geom3", "subtomo_id"][int(rng.integers(0, 6))]
                pos = np.unique(rng.integers(0, n, size=int(rng.integers(1, 4))))
                val = float(rng.integers(1, 6))
                for U in (A, B):
                    U[i].df.iloc[pos, U[i].df.columns.get_loc(c)] = val
                rows = [list(r) for r in M[i]]
                for p in pos:
                    rows[int(p)][CI[c]] = val
                M[i] = [tuple(r) for r in rows]
                sync(i, what)
        elif op == "fresh_empty":
            A[i], B[i], M[i] = Motl(), OrigMotl(), []
            sync(i, what)
            if rng.random() < 0.5:  # and grow it in place: must not leak into any later empty table
                row = rand_df(rng, n=2)
                for U in (A, B):
                    U[i].df = pd.concat([U[i].df, row[COLS]]).reset_index(drop=True)
                    U[i].df.loc[0, "score"] = 0.5
                M[i] = rows_of(A[i].df)
                sync(i, what)
    for s in range(n_slots):
        sync(s, "end of history")


def run_all_histories(seed0=0, n_hist=220):
    for h in range(n_hist):
        rng = np.random.default_rng(seed0 + h)
        run_history(rng, n_ops=10, key_nans=(h % 5 == 4))


def finish():
    print("operations exercised:", dict(sorted(COUNTS.items())))
    if FAILS:
        print(f"FAIL ({len(FAILS)} disagreements)")
        sys.exit(1)
    print("PASS")
    sys.exit(0)


# ---------------------------------------------------------------------------------------------------------------------
# 6. change-specific part: renumber_particles called the way every caller of the package calls it (no argument), on
#    many table shapes, repeatedly on the same object; merge_and_renumber on top of it
# ---------------------------------------------------------------------------------------------------------------------
def renumber_focus(n_rounds=250):
    has_start = "starting_number" in inspect.signature(Motl.renumber_particles).parameters
    for h in range(n_rounds):
        rng = np.random.default_rng(20_000 + h)
        df = rand_df(rng, key_nans=(h % 4 == 3))
        shape = int(rng.integers(0, 5))
        if shape == 1 and len(df):  # a filtered table with gaps in the index
            df = df.loc[rng.random(len(df)) < 0.6]
        elif shape == 2 and len(df):  # repeated index labels
            df.index = rng.integers(0, 3, size=len(df))
        elif shape == 3:  # integer id column
            df = df.fillna(0.0).astype({"subtomo_id": int})
        elif shape == 4 and len(df):  # ids stored as negative / huge numbers
            df["subtomo_id"] = df["subtomo_id"] * float(rng.choice([-1, 1e6]))
        a, b = Motl(df.copy()), OrigMotl(df.copy())
        for call in range(3):
            what = f"renumber focus {h}/{call}"
            before = rows_of(a.df)
            _, _, ok = both(what, lambda: a.renumber_particles(), lambda: b.renumber_particles())
            count("focus renumber_particles")
            if ok:
                frames_identical(a.df, b.df, what)
                after = rows_of(a.df)
                check_model(a.df, m_renumber_particles(before), what)
                other_fields_unchanged(before, after, {"subtomo_id"}, what)
            if has_start and len(a.df) < 60:
                # the new optional argument: 1 (by position or keyword) is today's behaviour, k gives k..k+N-1
                for args, kw in (((1,), {}), ((), {"starting_number": 1}), ((), {"starting_number": np.int64(1)})):
                    c = Motl(a.df.copy())
                    c.renumber_particles(*args, **kw)
                    frames_identical(c.df, b.df, what + f" explicit {args}{kw}")
                k = int(rng.integers(-3, 50))
                c = Motl(a.df.copy())
                c.renumber_particles(starting_number=k)
                check_model(c.df, m_renumber_particles(before, k), what + f" start {k}")
            # in-place edits before the next call: delete rows, shuffle, overwrite ids
            if len(a.df):
                keep = rng.random(len(a.df)) < 0.8
                perm = rng.permutation(int(keep.sum()))
                for u in (a, b):
                    u.df = u.df.loc[keep].iloc[perm]
                    if len(u.df):
                        u.df.iloc[0, u.df.columns.get_loc("subtomo_id")] = 99.0
        # merge_and_renumber (calls renumber_particles) on the very same objects afterwards
        ra, rb, ok = both(f"renumber focus {h} merge", lambda: Motl.merge_and_renumber([a, a.df, Motl(df.copy())]),
                          lambda: OrigMotl.merge_and_renumber([b, b.df, OrigMotl(df.copy())]))
        if ok:
            frames_identical(ra.df, rb.df, f"renumber focus {h} merge")
            ids = [r[CI["subtomo_id"]] for r in rows_of(ra.df)]
            if ids != [float(x) for x in range(1, len(ids) + 1)]:
                fail(f"renumber focus {h} merge: subtomogram numbers are not 1..N")


run_all_histories(seed0=500, n_hist=220)
renumber_focus()
finish()
