#!/venv/bin/python
"""C17 demo: tilt-series metadata -- mdoc round trip, loaders and wedge lists are consistent.

Run as:  cd /tmp/wt13/C17 && /venv/bin/python <this file>

Three layers of checks, all over randomly generated inputs (fixed seeds) plus edge cases:
  1. the property itself against an independent computation (own mdoc parser / formatter, own arithmetic
     for the loaders and the wedge lists),
  2. the functions of the tree against verbatim copies of the ORIGINAL function texts kept below
     (Mdoc.write and create_wedge_list_sg_batch) on the same inputs: same files byte for byte, same tables
     cell for cell including dtypes, labels and column order,
  3. the caller's objects (Mdoc tables, input arrays / lists) are left untouched.
Prints PASS and exits 0 when everything holds.
"""
import sys, os

sys.path.insert(0, os.getcwd())

import copy
import random
import re
import shutil
import tempfile
import warnings

import numpy as np
import pandas as pd

warnings.simplefilter("ignore")

import emfile
from cryocat import mdoc as mdoc_mod
from cryocat import ioutils
from cryocat import wedgeutils
from cryocat.mdoc import Mdoc

# --------------------------------------------------------------------------------------------------------------
# verbatim copies of the original function texts (HEAD b1093bd)
# --------------------------------------------------------------------------------------------------------------
ORIG_WRITE = '''
def write(self, out_path=None, overwrite=False, removed=False):
    if not out_path:
        out_path = self.file_path
    if path.isfile(out_path) and not overwrite:
        raise FileExistsError("File {} already exists. Set overwrite=True to overwrite.".format(out_path))

    with open(out_path, "w") as f:
        # write header
        for key, value in self.project_info.items():
            f.write("{} = {}\\n".format(key, value))
        f.write("\\n")
        for title in self.titles:
            f.write("[{}]\\n".format(title))
            f.write("\\n")

        # write images
        for index, row in self.imgs.iterrows():
            if removed or (not removed and not row["Removed"]):
                f.write("[{} = {}]\\n".format(self.section_id, row[self.section_id]))
                for column in self.imgs.columns:
                    if (column != self.section_id) and (column != "Removed"):
                        f.write("{} = {}\\n".format(column, row[column]))
                f.write("\\n")
'''

ORIG_SG_BATCH = '''
def create_wedge_list_sg_batch(
    tomo_list,
    pixel_size,
    tlt_file_format,
    tomo_dim=None,
    tomo_dim_file_format=None,
    z_shift=0.0,
    z_shift_file_format=None,
    ctf_file_format=None,
    ctf_file_type="gctf",
    dose_file_format=None,
    voltage=300.0,
    amp_contrast=0.07,
    cs=2.7000,
    output_file=None,
):
    wedge_list_df = pd.DataFrame()
    ctf_file = None
    dose_file = None

    tomograms = ioutils.tlt_load(tomo_list).astype(int)

    if tomo_dim_file_format is None:
        if tomo_dim is not None:
            tomo_dimensions = ioutils.dimensions_load(tomo_dim)
            if "tomo_id" not in tomo_dimensions.columns:
                repeated_values = np.repeat(tomo_dimensions[["x", "y", "z"]].values, len(tomograms), axis=0)
                tomo_dimensions = pd.DataFrame(repeated_values, columns=["x", "y", "z"])
                tomo_dimensions["tomo_id"] = tomograms
        else:
            raise ValueError("Either tomo_dim or tomo_dim_file_format has to be specified!")

    if z_shift_file_format is None:
        z_shift_df = ioutils.z_shift_load(z_shift)
        if "tomo_id" not in z_shift_df.columns:
            repeated_values = np.repeat(z_shift_df["z_shift"].values, len(tomograms), axis=0)
            z_shift_df = pd.DataFrame(repeated_values, columns=["z_shift"])
            z_shift_df["tomo_id"] = tomograms

    for t in tomograms:
        tlt_file = ioutils.fileformat_replace_pattern(tlt_file_format, t, "x", raise_error=False)

        if ctf_file_format is not None:
            ctf_file = ioutils.fileformat_replace_pattern(ctf_file_format, t, "x", raise_error=False)

        if dose_file_format is not None:
            dose_file = ioutils.fileformat_replace_pattern(dose_file_format, t, "x", raise_error=False)

        if tomo_dim_file_format is not None:
            t_dim = ioutils.fileformat_replace_pattern(tomo_dim_file_format, t, "x", raise_error=False)
        else:
            t_dim = tomo_dimensions.loc[tomo_dimensions["tomo_id"] == t, ["x", "y", "z"]].values[0]

        if z_shift_file_format is not None:
            z_shift_input = ioutils.fileformat_replace_pattern(z_shift_file_format, t, "x", raise_error=False)
        else:
            z_shift_input = z_shift_df.loc[z_shift_df["tomo_id"] == t, "z_shift"].values[0]

        wl_single_df = create_wedge_list_sg(
            t,
            tomo_dim=t_dim,
            pixel_size=pixel_size,
            tlt_file=tlt_file,
            z_shift=z_shift_input,
            ctf_file=ctf_file,
            ctf_file_type=ctf_file_type,
            dose_file=dose_file,
            voltage=voltage,
            amp_contrast=amp_contrast,
            cs=cs,
            output_file=None,
            drop_nan_columns=False,
        )

        wedge_list_df = pd.concat([wedge_list_df, wl_single_df])

    wedge_list_df = wedge_list_df.dropna(axis=1, how="all")
    wedge_list_df.reset_index(drop=True, inplace=True)
    if output_file is not None:
        starfileio.Starfile.write(
            [wedge_list_df], output_file, specifiers=["data_stopgap_wedgelist"], number_columns=False
        )
    return wedge_list_df
'''

_ns = dict(vars(mdoc_mod))
exec(ORIG_WRITE, _ns)
orig_write = _ns["write"]
_ns = dict(vars(wedgeutils))
exec(ORIG_SG_BATCH, _ns)
orig_sg_batch = _ns["create_wedge_list_sg_batch"]

# --------------------------------------------------------------------------------------------------------------
FAILS = []
NCHECK = [0]


def check(cond, msg):
    NCHECK[0] += 1
    if not cond:
        FAILS.append(msg)
        if len(FAILS) <= 25:
            print("FAIL:", msg)


def same_cell(a, b):
    if type(a) is not type(b):
        return False
    if isinstance(a, float) and a != a:
        return b != b
    return a == b


def same_table(a, b, index_type=True):
    """strict equality of two tables: columns, dtypes, labels, cell types and values"""
    if list(a.columns) != list(b.columns):
        return False
    if [str(d) for d in a.dtypes] != [str(d) for d in b.dtypes]:
        return False
    if (index_type and type(a.index) is not type(b.index)) or list(a.index) != list(b.index):
        return False
    for ci in range(a.shape[1]):
        ca, cb = a.iloc[:, ci].tolist(), b.iloc[:, ci].tolist()
        if len(ca) != len(cb) or not all(same_cell(x, y) for x, y in zip(ca, cb)):
            return False
    return True


def read_bytes(p):
    with open(p, "rb") as f:
        return f.read()


TMP = tempfile.mkdtemp(prefix="c17demo_")

# --------------------------------------------------------------------------------------------------------------
# 1. mdoc: grammar, independent parser, round trip, sort, remove
# --------------------------------------------------------------------------------------------------------------
TEXTS = ["018_01.mrc", "X:\\frames\\TS_018\\018_02.eer", "06-Jun-23  23:19:46", "0 1948 630.934", "-0.0733564 0.646703",
         "4096 4096", "SerialEM Version 4.0.20 64-bit,  built Feb 17 2023", "abc def", "a.b.c", "1.2.3", "-", "n/a"]
IMG_KEYS = ["MinMaxMean", "StagePosition", "StageZ", "Magnification", "Intensity", "ExposureDose", "DoseRate",
            "PixelSpacing", "SpotSize", "Defocus", "ImageShift", "RotationAngle", "ExposureTime", "Binning",
            "CameraIndex", "DividedBy2", "TargetDefocus", "PriorRecordDose", "SubFramePath", "NumSubFrames",
            "FrameDosesAndNumber", "DateTime", "NavigatorLabel", "FilterSlitAndLoss", "UncroppedSize"]
HDR_KEYS = ["PixelSpacing", "Voltage", "Version", "ImageFile", "ImageSize", "DataMode", "Montage", "T"]


def rand_value_text(rng):
    k = rng.randrange(6)
    if k == 0:
        return str(rng.randrange(0, 100000))
    if k == 1:  # positive float, at most 4 decimals, repr without exponent
        return "%d.%s" % (rng.randrange(0, 5000), rng.choice(["0", "5", "25", "50", "1234", "0064", "971", "10"]))
    if k == 2:  # negative numbers stay text in cryoCAT
        return "-%d.%d" % (rng.randrange(0, 500), rng.randrange(0, 10000))
    if k == 3:
        return "-%d" % rng.randrange(0, 500)
    if k == 4:
        return rng.choice(["1.", ".5", "007", "0", "0.0"])
    return rng.choice(TEXTS)


def expected_value(text):
    """independent statement of the value rule: unsigned integers, unsigned decimals, otherwise text"""
    t = text.strip()
    if re.fullmatch(r"[0-9]+", t):
        return int(t)
    if re.fullmatch(r"[0-9]*\.[0-9]*", t) and re.search(r"[0-9]", t):
        return float(t)
    return t


def gen_mdoc(rng, n_images, with_dose=False, section="ZValue"):
    """returns text and the generated content: header [(k, text)], titles [text], images [(z, [(k, text)])]"""
    header = [(k, rand_value_text(rng)) for k in rng.sample(HDR_KEYS, rng.randrange(0, len(HDR_KEYS) + 1))]
    titles = []
    for _ in range(rng.randrange(0, 4)):
        titles.append(rng.choice([
            "T = SerialEM: Titan Krios G4 D3946 at MPI BP                06-Jun-23  23:19:%02d" % rng.randrange(60),
            "T =     Tilt axis angle = %d.%d, binning = 1  spot = 5  camera = 1 dosym = 8.0" % (rng.randrange(90), rng.randrange(10)),
            "T = x", "Title %d" % rng.randrange(100)]))
    keys = rng.sample(IMG_KEYS, rng.randrange(0, 12))
    if with_dose:
        keys = [k for k in keys if k not in ("ExposureDose", "PriorRecordDose")] + ["ExposureDose", "PriorRecordDose"]
        rng.shuffle(keys)
    keys.insert(rng.randrange(0, len(keys) + 1), "TiltAngle")
    zvalues = list(range(n_images))
    if rng.random() < 0.3:
        rng.shuffle(zvalues)
    if rng.random() < 0.2:
        zvalues = [z + 5 for z in zvalues]
    # unique tilt angles (so that sorting has one answer), negative / integer / decimal spellings
    tilts = rng.sample(range(-7000, 7000), n_images)
    images = []
    for z, t in zip(zvalues, tilts):
        items = []
        for k in keys:
            if k == "TiltAngle":
                sp = rng.randrange(3)
                if sp == 0 and t % 100 == 0:
                    txt = str(t // 100)
                else:
                    txt = ("-" if t < 0 else "") + "%d.%02d" % (abs(t) // 100, abs(t) % 100) + rng.choice(["", "64", "01"])
            elif with_dose and k in ("ExposureDose", "PriorRecordDose"):
                txt = rng.choice(["%d.%d" % (rng.randrange(0, 200), rng.randrange(1, 1000)), str(rng.randrange(0, 150))])
            else:
                txt = rand_value_text(rng)
            items.append((k, txt))
        images.append((z, items))
    lines = []
    for k, v in header:
        lines.append("%s = %s%s" % (k, v, rng.choice(["", " ", "  "])))
    lines.append("")
    for t in titles:
        lines.append("[%s%s]" % (t, rng.choice(["", "    "])))
        lines.append("")
    for z, items in images:
        lines.append("[%s = %d]" % (section, z))
        for k, v in items:
            lines.append("%s = %s" % (k, v))
        lines.extend([""] * rng.randrange(1, 3))
    return "\n".join(lines) + "\n", header, titles, images, keys


def parse_mdoc_text(text, section="ZValue"):
    """own reader of a written mdoc: header [(k, text)], titles, sections [(ztext, [(k, text)])]; all raw text"""
    header, titles, sections = [], [], []
    cur = None
    for line in text.split("\n"):
        s = line.strip()
        if not s:
            continue
        m = re.fullmatch(r"\[" + section + r" = (.*)\]", s)
        if m:
            cur = (m.group(1), [])
            sections.append(cur)
        elif cur is None and s.startswith("["):
            titles.append(s[1:-1])
        else:
            k, v = s.split(" = ", 1) if " = " in s else (s.split(" =", 1)[0], "")
            (header if cur is None else cur[1]).append((k, v))
    return header, titles, sections


def cell_text(v):
    """how a table cell is expected to appear in the written file"""
    if isinstance(v, (bool, np.bool_)):
        return str(bool(v))
    if isinstance(v, (int, np.integer)):
        return str(int(v))
    if isinstance(v, (float, np.floating)):
        return repr(float(v))
    return str(v)


def check_written(tag, m, text, expect_labels):
    """the written text holds the header, the titles and exactly the rows `expect_labels` of m.imgs in that order"""
    header, titles, sections = parse_mdoc_text(text, m.section_id)
    check(header == [(k, cell_text(v)) for k, v in m.project_info.items()], tag + ": written header")
    check(titles == list(m.titles), tag + ": written titles")
    keys = [c for c in m.imgs.columns if c not in (m.section_id, "Removed")]
    exp = []
    for lab in expect_labels:
        row = m.imgs.loc[lab]
        exp.append((cell_text(row[m.section_id]), [(k, cell_text(row[k])) for k in keys]))
    check(sections == exp, tag + ": written sections are exactly the expected images")


def write_both(tag, m, removed):
    """write with the tree's Mdoc.write and with the original text, compare bytes, check the object is untouched"""
    before = copy.deepcopy(m)
    twin = copy.deepcopy(m)
    p_new = os.path.join(TMP, "w_new.mdoc")
    p_old = os.path.join(TMP, "w_old.mdoc")
    for p in (p_new, p_old):
        if os.path.exists(p):
            os.remove(p)
    r_new = m.write(p_new, removed=removed)
    r_old = orig_write(twin, p_old, removed=removed)
    check(r_new is None and r_old is None, tag + ": write returns None")
    check(read_bytes(p_new) == read_bytes(p_old), tag + ": file differs from the original write (removed=%s)" % removed)
    # refusing to overwrite, then overwriting: both behave the same
    for fn, obj, p in ((Mdoc.write, m, p_new), (orig_write, twin, p_old)):
        try:
            fn(obj, p, removed=removed)
            check(False, tag + ": existing file overwritten without overwrite=True")
        except FileExistsError:
            pass
        fn(obj, p, overwrite=True, removed=removed)
    check(read_bytes(p_new) == read_bytes(p_old), tag + ": file differs after overwrite")
    check(same_table(m.imgs, before.imgs) and m.project_info == before.project_info and m.titles == before.titles
          and m.section_id == before.section_id, tag + ": write changed the Mdoc object")
    with open(p_new) as f:
        return f.read()


def mdoc_case(seed, n_images):
    rng = random.Random(seed)
    tag = "mdoc[%d,%d]" % (seed, n_images)
    text, header, titles, images, keys = gen_mdoc(rng, n_images)
    src = os.path.join(TMP, "src_%d.mdoc" % seed)
    with open(src, "w") as f:
        f.write(text)
    m = Mdoc(src)

    # --- reading: the table holds the numbers / texts of the file
    check(m.section_id == "ZValue", tag + ": section id")
    check(m.titles == [t.strip() for t in titles], tag + ": titles read")
    exp_info = {}
    for k, v in header:
        exp_info[k] = expected_value(v)
    check(list(m.project_info.items()) == list(exp_info.items())
          and all(type(m.project_info[k]) is type(exp_info[k]) for k in exp_info), tag + ": header read")
    check(list(m.imgs.columns) == ["ZValue"] + keys + ["Removed"], tag + ": columns")
    check(len(m.imgs) == n_images and list(m.imgs.index) == list(range(n_images)), tag + ": one row per image")
    ok = True
    for i, (z, items) in enumerate(images):
        row = m.imgs.iloc[i]
        ok &= int(row["ZValue"]) == z and row["Removed"] == False
        for k, v in items:
            ev = float(v) if k == "TiltAngle" else expected_value(v)
            ok &= same_cell(row[k] if not isinstance(row[k], np.generic) else row[k].item(), ev)
    check(ok, tag + ": image values read")

    # --- round trip: write, re-read -> same header entries and same per-image table
    out_text = write_both(tag + " fresh", m, removed=False)
    check_written(tag + " fresh", m, out_text, list(m.imgs.index))
    m2 = Mdoc(os.path.join(TMP, "w_new.mdoc"))
    check(m2.titles == m.titles, tag + ": round trip titles")
    check(list(m2.project_info.items()) == list(m.project_info.items())
          and all(type(m2.project_info[k]) is type(m.project_info[k]) for k in m.project_info), tag + ": round trip header")
    check(same_table(m2.imgs, m.imgs), tag + ": round trip table")
    check(m2.section_id == m.section_id, tag + ": round trip section id")
    # writing the re-read object gives the same text again
    m2.write(os.path.join(TMP, "w_again.mdoc"), overwrite=True)
    check(read_bytes(os.path.join(TMP, "w_again.mdoc")) == out_text.encode(), tag + ": second generation text")

    # --- removing images: only the flag changes, the file omits exactly the removed images
    removed_labels = set()
    for rnd in range(3):
        kept = [lab for lab in m.imgs.index if lab not in removed_labels]
        if not kept:
            break
        before = m.imgs.copy()
        kept_only = rng.random() < 0.8
        pool = kept if kept_only else list(m.imgs.index)
        how = rng.randrange(4)
        if how == 0:
            idx = []
        elif how == 1:
            idx = list(range(len(pool)))  # everything that is left
        else:
            idx = sorted(rng.sample(range(len(pool)), rng.randrange(1, len(pool) + 1)))
            if rng.random() < 0.3:
                rng.shuffle(idx)
        idx_in = list(idx)
        m.remove_images(idx_in, kept_only=kept_only)
        check(idx_in == idx, tag + ": remove_images changed its index list")
        removed_labels |= {pool[i] for i in idx}
        check(list(m.imgs.index) == list(before.index), tag + ": remove_images changed the order")
        check(same_table(m.imgs.drop(columns="Removed"), before.drop(columns="Removed")), tag + ": remove_images changed values")
        check([bool(x) for x in m.imgs["Removed"]] == [lab in removed_labels for lab in m.imgs.index], tag + ": removed flags")
        check(list(m.kept_images().index) == [lab for lab in m.imgs.index if lab not in removed_labels], tag + ": kept_images")
        t_kept = write_both(tag + " removed r%d" % rnd, m, removed=False)
        check_written(tag + " kept r%d" % rnd, m, t_kept, [lab for lab in m.imgs.index if lab not in removed_labels])
        t_all = write_both(tag + " removed-all r%d" % rnd, m, removed=True)
        check_written(tag + " all r%d" % rnd, m, t_all, list(m.imgs.index))
        check(t_all == out_text, tag + ": write(removed=True) is the full file")

    # --- sorting by tilt: only the order changes
    before = m.imgs.copy()
    m.sort_by_tilt()
    check(same_table(m.imgs.sort_index(), before, index_type=False), tag + ": sort_by_tilt changed more than the order")
    check(list(m.imgs["TiltAngle"]) == sorted(before["TiltAngle"]), tag + ": ascending tilt")
    t_sorted = write_both(tag + " sorted", m, removed=False)
    check_written(tag + " sorted", m, t_sorted, [lab for lab in m.imgs.index if lab not in removed_labels])
    write_both(tag + " sorted-all", m, removed=True)
    sorted_once = m.imgs.copy()
    m.sort_by_tilt(reset_z_value=True)
    check(list(m.imgs["ZValue"]) == list(range(n_images)), tag + ": reset z values")
    check(same_table(m.imgs.drop(columns="ZValue"), sorted_once.drop(columns="ZValue")), tag + ": reset changed other columns")
    write_both(tag + " sorted-reset", m, removed=False)

    # --- the module level entry points on files
    idx = sorted(rng.sample(range(n_images), rng.randrange(1, n_images + 1)))
    from_1 = rng.random() < 0.5
    arg = [i + 1 for i in idx] if from_1 else list(idx)
    arg_in = np.array(arg) if rng.random() < 0.5 else list(arg)
    out = os.path.join(TMP, "removed_%d.mdoc" % seed)
    mr = mdoc_mod.remove_images(src, arg_in, numbered_from_1=from_1, output_file=out)
    check(list(arg_in) == arg, tag + ": remove_images (module) changed its indices")
    check([bool(x) for x in mr.imgs["Removed"]] == [i in idx for i in range(n_images)], tag + ": module remove flags")
    with open(out) as f:
        _, _, secs = parse_mdoc_text(f.read())
    check([s[0] for s in secs] == [str(z) for i, (z, _) in enumerate(images) if i not in idx], tag + ": module remove file")
    out = os.path.join(TMP, "sorted_%d.mdoc" % seed)
    reset = rng.random() < 0.5
    ms = mdoc_mod.sort_mdoc_by_tilt_angles(src, reset_z_value=reset, output_file=out)
    order = sorted(range(n_images), key=lambda i: float(dict(images[i][1])["TiltAngle"]))
    with open(out) as f:
        _, _, secs = parse_mdoc_text(f.read())
    check([s[0] for s in secs] == [str(j if reset else images[i][0]) for j, i in enumerate(order)], tag + ": module sort file")
    check([dict(s[1])["TiltAngle"] for s in secs] == [repr(float(dict(images[i][1])["TiltAngle"])) for i in order], tag + ": module sort tilts")
    ta = mdoc_mod.get_tilt_angles(src)
    check(list(ta) == [float(dict(it)["TiltAngle"]) for _, it in images], tag + ": get_tilt_angles")
    check(read_bytes(src) == text.encode(), tag + ": source file changed")


for seed, n in enumerate([1, 2, 3, 5, 8, 13, 21, 40, 80, 1, 4, 7, 17, 33, 64, 80, 2, 6, 11, 29]):
    mdoc_case(1000 + seed, n)

# an Mdoc built from parts, every image removed: the written file has the header only; repeated writes agree
m = Mdoc(titles=["T = only"], project_info={"Voltage": 300, "PixelSpacing": 1.971},
         imgs=pd.DataFrame({"ZValue": [0, 1, 2], "TiltAngle": [3.0, -3.0, 0.0], "SubFramePath": ["a", "b", "c"], "Removed": False}))
m.remove_images([0, 1, 2])
t = write_both("all removed", m, removed=False)
check(parse_mdoc_text(t) == ([("Voltage", "300"), ("PixelSpacing", "1.971")], ["T = only"], []), "all removed: header only")
t = write_both("all removed, on request", m, removed=True)
check([s[0] for s in parse_mdoc_text(t)[2]] == ["0", "1", "2"], "all removed: written on request")
m.keep_image(1)  # a kept image after removed ones, followed by a removed one
t = write_both("one kept", m, removed=False)
check(parse_mdoc_text(t)[2] == [("1", [("TiltAngle", "-3.0"), ("SubFramePath", "b")])], "one kept: only that image")
m.imgs = m.imgs.iloc[0:0]  # no images at all
t = write_both("no images", m, removed=False)
check(parse_mdoc_text(t)[2] == [], "no images")
# FrameSet sections
rng = random.Random(77)
text, header, titles, images, keys = gen_mdoc(rng, 6, section="FrameSet")
p = os.path.join(TMP, "frameset.mdoc")
open(p, "w").write(text)
m = Mdoc(p)
check(m.section_id == "FrameSet" and list(m.imgs["FrameSet"]) == [z for z, _ in images], "FrameSet read")
t = write_both("FrameSet", m, removed=False)
check_written("FrameSet", m, t, list(m.imgs.index))
check(same_table(Mdoc(os.path.join(TMP, "w_new.mdoc")).imgs, m.imgs), "FrameSet round trip")

# --------------------------------------------------------------------------------------------------------------
# 2. loaders
# --------------------------------------------------------------------------------------------------------------

def write_lines(p, values, fmt="%s"):
    os.makedirs(os.path.dirname(p), exist_ok=True)
    with open(p, "w") as f:
        for v in values:
            f.write((fmt % v) + "\n")


def gen_tilts(rng, n):
    vals = sorted(rng.sample(range(-7000, 7000), n))
    return ["%.2f" % (v / 100.0) for v in vals]


def gen_doses(rng, n):
    return ["%.4f" % (rng.random() * 150) for _ in range(n)]


def write_gctf(p, U, V, A, PS=None):
    os.makedirs(os.path.dirname(p), exist_ok=True)
    cols = ["rlnMicrographName", "rlnCtfImage", "rlnDefocusU", "rlnDefocusV", "rlnDefocusAngle", "rlnVoltage"]
    if PS is not None:
        cols.insert(5, "rlnPhaseShift")
    with open(p, "w") as f:
        f.write("\ndata_\n\nloop_\n")
        for i, c in enumerate(cols, 1):
            f.write("_%s #%d\n" % (c, i))
        for i in range(len(U)):
            row = ["split.mrc.%02d" % (i + 1), "split.mrc.%02d.ctf:mrc" % (i + 1), U[i], V[i], A[i]]
            if PS is not None:
                row.append(PS[i])
            row.append("300.000000")
            f.write(" ".join(row) + "\n")
        f.write("\n")


def write_ctffind(p, U, V, A, PS):
    os.makedirs(os.path.dirname(p), exist_ok=True)
    with open(p, "w") as f:
        f.write("# Output from CTFFind version 4.1.8, run on 2019-02-25 11:33:34\n")
        f.write("# Input file: 031.mrc ; Number of micrographs: %d\n" % len(U))
        f.write("# Pixel size: 1.327 Angstroms ; acceleration voltage: 300.0 keV\n")
        f.write("# Columns: #1 - micrograph number; #2 - defocus 1 [Angstroms]; #3 - defocus 2; ...\n")
        for i in range(len(U)):
            f.write("%d.000000 %s %s %s %s 0.001071 12.144508\n" % (i + 1, U[i], V[i], A[i], PS[i]))


def gen_ctf(rng, n):
    U = ["%.6f" % (10000 + rng.random() * 60000) for _ in range(n)]
    V = ["%.6f" % (10000 + rng.random() * 60000) for _ in range(n)]
    A = ["%.6f" % (rng.random() * 180 - 90) for _ in range(n)]
    PS = ["%.6f" % (rng.random() * 3 if rng.random() < 0.5 else 0.0) for _ in range(n)]
    return U, V, A, PS


def expected_ctf(U, V, A, PS):
    u = np.array([float(x) for x in U]) * 1e-4
    v = np.array([float(x) for x in V]) * 1e-4
    a = np.array([float(x) for x in A])
    ps = np.zeros(len(U)) if PS is None else np.array([float(x) for x in PS])
    return np.column_stack([u, v, a, ps, (u + v) / 2.0])


CTF_COLS = ["defocus1", "defocus2", "astigmatism", "phase_shift", "defocus_mean"]


def loaders_case(seed, n):
    rng = random.Random(seed)
    tag = "loaders[%d,%d]" % (seed, n)
    d = os.path.join(TMP, "ld_%d" % seed)
    tl = gen_tilts(rng, n)
    p = os.path.join(d, "a.tlt")
    write_lines(p, tl)
    r = ioutils.tlt_load(p)
    check(r.dtype == np.float32 and np.array_equal(r, np.array([float(x) for x in tl], dtype=np.float32)), tag + ": tlt file")
    r2 = ioutils.tlt_load(p)
    check(np.array_equal(r, r2), tag + ": tlt file, second call")
    # a file in acquisition order comes back ascending
    sh = list(tl)
    rng.shuffle(sh)
    p2 = os.path.join(d, "b.rawtlt")
    write_lines(p2, sh)
    check(np.array_equal(ioutils.tlt_load(p2), np.array(sorted(float(x) for x in sh), dtype=np.float32)), tag + ": ascending")
    check(np.array_equal(ioutils.tlt_load(p2, sort_angles=False), np.array([float(x) for x in sh], dtype=np.float32)), tag + ": unsorted on request")
    arr = np.array([float(x) for x in tl])
    keep = arr.copy()
    check(np.array_equal(ioutils.tlt_load(arr), keep) and np.array_equal(arr, keep), tag + ": tlt array")
    lst = [float(x) for x in tl]
    check(np.array_equal(ioutils.tlt_load(lst), keep) and lst == [float(x) for x in tl], tag + ": tlt list")
    check(np.array_equal(ioutils.one_value_per_line_read(p), np.array([float(x) for x in tl], dtype=np.float32)), tag + ": one value per line")
    ds = gen_doses(rng, n)
    p = os.path.join(d, "dose.txt")
    write_lines(p, ds)
    r = ioutils.total_dose_load(p)
    check(r.dtype == np.float32 and np.array_equal(r, np.array([float(x) for x in ds], dtype=np.float32)), tag + ": dose file")
    arr = np.array([float(x) for x in ds])
    check(np.array_equal(ioutils.total_dose_load(arr), arr) and np.array_equal(ioutils.total_dose_load(list(arr)), arr), tag + ": dose array / list")
    # mdoc: angles ascending, dose = prior + exposure in that order
    text, header, titles, images, keys = gen_mdoc(rng, n, with_dose=True)
    p = os.path.join(d, "ts.mdoc")
    open(p, "w").write(text)
    recs = sorted((float(dict(it)["TiltAngle"]), float(dict(it)["ExposureDose"]) + float(dict(it)["PriorRecordDose"])) for _, it in images)
    check(np.array_equal(ioutils.tlt_load(p), np.array([a for a, _ in recs])), tag + ": mdoc tilts")
    r = np.asarray(ioutils.total_dose_load(p), dtype=float)
    check(r.shape == (n,) and np.allclose(r, [b for _, b in recs], rtol=1e-12, atol=0), tag + ": mdoc dose")
    r = np.asarray(ioutils.total_dose_load(p, sort_mdoc=False), dtype=float)
    check(np.allclose(r, [float(dict(it)["ExposureDose"]) + float(dict(it)["PriorRecordDose"]) for _, it in images], rtol=1e-12, atol=0), tag + ": mdoc dose unsorted")
    check(read_bytes(p) == text.encode(), tag + ": mdoc file changed by the loaders")
    # defocus
    U, V, A, PS = gen_ctf(rng, n)
    for with_ps in (False, True):
        p = os.path.join(d, "g%d_gctf.star" % with_ps)
        write_gctf(p, U, V, A, PS if with_ps else None)
        for r in (ioutils.gctf_read(p), ioutils.defocus_load(p, "gctf"), ioutils.defocus_load(p, "GCTF")):
            check(list(r.columns) == CTF_COLS and r.shape == (n, 5), tag + ": gctf shape")
            check(np.allclose(r.to_numpy(dtype=float), expected_ctf(U, V, A, PS if with_ps else None), rtol=1e-9, atol=1e-12), tag + ": gctf values")
            check(np.allclose(r["defocus_mean"], (r["defocus1"] + r["defocus2"]) / 2, rtol=1e-12), tag + ": gctf mean")
    p = os.path.join(d, "c_ctffind4.txt")
    write_ctffind(p, U, V, A, PS)
    for r in (ioutils.ctffind4_read(p), ioutils.defocus_load(p, "ctffind4")):
        check(list(r.columns) == CTF_COLS and r.shape == (n, 5), tag + ": ctffind shape")
        check(np.allclose(r.to_numpy(dtype=float), expected_ctf(U, V, A, PS), rtol=2e-6, atol=1e-6), tag + ": ctffind values")
    df = pd.DataFrame(expected_ctf(U, V, A, PS), columns=CTF_COLS)
    check(ioutils.defocus_load(df) is df, tag + ": defocus table passes through")
    arr = expected_ctf(U, V, A, PS)
    keep = arr.copy()
    r = ioutils.defocus_load(arr)
    check(list(r.columns) == CTF_COLS and np.array_equal(r.to_numpy(), keep) and np.array_equal(arr, keep), tag + ": defocus array")


for seed, n in enumerate([1, 2, 5, 17, 41, 80, 3, 60]):
    loaders_case(2000 + seed, n)

# --------------------------------------------------------------------------------------------------------------
# 3. wedge lists
# --------------------------------------------------------------------------------------------------------------
SG_COLS = ["tomo_num", "pixelsize", "tomo_x", "tomo_y", "tomo_z", "z_shift", "tilt_angle", "defocus", "exposure",
           "voltage", "amp_contrast", "cs"]


def expected_sg(tomos, info, pixel_size, ctf, dose, voltage, amp, cs):
    rows = []
    for t in tomos:
        ti = info[t]
        for i in range(len(ti["tilts"])):
            row = {"tomo_num": t, "pixelsize": pixel_size, "tomo_x": ti["dim"][0], "tomo_y": ti["dim"][1], "tomo_z": ti["dim"][2],
                   "z_shift": ti["zs"], "tilt_angle": ti["tilts"][i]}
            if ctf:
                row["defocus"] = ti["ctf"][i, 4]
            if dose:
                row["exposure"] = ti["dose"][i]
            row.update({"voltage": voltage, "amp_contrast": amp, "cs": cs})
            rows.append(row)
    cols = [c for c in SG_COLS if (c != "defocus" or ctf) and (c != "exposure" or dose)]
    return pd.DataFrame(rows, columns=cols)


def close_tables(a, exp, rtol=2e-6, atol=1e-6):
    if list(a.columns) != list(exp.columns) or a.shape != exp.shape:
        return False
    if list(a.index) != list(range(len(exp))):
        return False
    return bool(np.allclose(a.to_numpy(dtype=float), exp.to_numpy(dtype=float), rtol=rtol, atol=atol))


def wedge_case(seed, n_tomos, sizes=None):
    rng = random.Random(seed)
    tag = "wedge[%d,%d]" % (seed, n_tomos)
    d = os.path.join(TMP, "wg_%d" % seed)
    os.makedirs(d)
    tomos = rng.sample(range(1, 1000), n_tomos)
    if rng.random() < 0.5:
        tomos.sort()
    info = {}
    for j, t in enumerate(tomos):
        n = sizes[j] if sizes else rng.choice([1, 2, 3, 7, 21, 41, 61, 80])
        tl = gen_tilts(rng, n)
        ds = gen_doses(rng, n)
        U, V, A, PS = gen_ctf(rng, n)
        dim = [rng.choice([928, 1024, 3708, 4096]), rng.choice([928, 960, 3838, 4096]), rng.choice([200, 464, 1000, 2000])]
        zs = rng.choice([0.0, 12.5, -30.0, 7.0, 100.25])
        write_lines(os.path.join(d, "TS_%03d" % t, "%03d.tlt" % t), tl)
        write_lines(os.path.join(d, "TS_%03d" % t, "%03d_dose.txt" % t), ds)
        write_gctf(os.path.join(d, "TS_%03d" % t, "%03d_gctf.star" % t), U, V, A, PS if rng.random() < 0.5 else None)
        write_ctffind(os.path.join(d, "ctf", "%04d_ctffind4.txt" % t), U, V, A, PS)
        write_lines(os.path.join(d, "TS_%03d" % t, "dims_%03d.txt" % t), ["%d %d %d" % tuple(dim)])
        write_lines(os.path.join(d, "TS_%03d" % t, "zs_%03d.txt" % t), ["%s" % zs])
        info[t] = {"tilts": np.array([float(x) for x in tl]), "dose": np.array([float(x) for x in ds]),
                   "ctf": expected_ctf(U, V, A, PS), "dim": dim, "zs": zs, "U": U}
    tlt_fmt = os.path.join(d, "TS_$xxx", "$xxx.tlt")
    dose_fmt = os.path.join(d, "TS_$xxx", "$xxx_dose.txt")
    gctf_fmt = os.path.join(d, "TS_$xxx", "$xxx_gctf.star")
    ctff_fmt = os.path.join(d, "ctf", "$xxxx_ctffind4.txt")
    dim_fmt = os.path.join(d, "TS_$xxx", "dims_$xxx.txt")
    zs_fmt = os.path.join(d, "TS_$xxx", "zs_$xxx.txt")
    list_file = os.path.join(d, "tomo_list.txt")
    write_lines(list_file, tomos, "%d")

    # ---- single tomogram, files and arrays
    t = tomos[0]
    ti = info[t]
    px = rng.choice([1.327, 2.654, 7.884])
    for variant in range(3):
        ctf = variant != 0
        dose = variant != 1
        kw = {}
        if ctf:
            kw["ctf_file"] = ioutils.fileformat_replace_pattern(ctff_fmt if variant == 1 else gctf_fmt, t, "x")
            kw["ctf_file_type"] = "ctffind4" if variant == 1 else "gctf"
        if dose:
            kw["dose_file"] = ioutils.fileformat_replace_pattern(dose_fmt, t, "x")
        out = os.path.join(d, "single_%d.star" % variant)
        r = wedgeutils.create_wedge_list_sg(t, list(ti["dim"]), px, ioutils.fileformat_replace_pattern(tlt_fmt, t, "x"), z_shift=ti["zs"], output_file=out, **kw)
        check(close_tables(r, expected_sg([t], info, px, ctf, dose, 300.0, 0.07, 2.7)), tag + ": single wedge list v%d" % variant)
        back = wedgeutils.load_wedge_list_sg(out)
        check(close_tables(back, expected_sg([t], info, px, ctf, dose, 300.0, 0.07, 2.7), rtol=1e-5, atol=2e-6), tag + ": single wedge list file v%d" % variant)
    tl_arr, ds_arr, ctf_arr, dim_arr = ti["tilts"].copy(), ti["dose"].copy(), ti["ctf"].copy(), np.array(ti["dim"])
    r = wedgeutils.create_wedge_list_sg(t, dim_arr, px, tl_arr, z_shift=ti["zs"], ctf_file=ctf_arr, dose_file=ds_arr, voltage=200.0, amp_contrast=0.1, cs=2.2)
    check(close_tables(r, expected_sg([t], info, px, True, True, 200.0, 0.1, 2.2), rtol=1e-12, atol=0), tag + ": single from arrays")
    check(np.array_equal(tl_arr, ti["tilts"]) and np.array_equal(ds_arr, ti["dose"]) and np.array_equal(ctf_arr, ti["ctf"])
          and np.array_equal(dim_arr, np.array(ti["dim"])), tag + ": single changed its input arrays")

    # ---- batch, all ways of passing the per-tomogram data; tree against the original text and the expectation
    for variant in range(6):
        px = rng.choice([1.327, 2.654, 7.884])
        kw = {}
        inf = info
        # tomogram list
        lv = rng.randrange(3)
        tomo_list = list(tomos) if lv == 0 else (np.array(tomos) if lv == 1 else list_file)
        # dimensions
        dv = variant % 3
        if dv == 0:
            same = [rng.choice([928, 4096]), 928, rng.choice([300, 2000])]
            kw["tomo_dim"] = list(same) if rng.random() < 0.5 else np.array(same)
            inf = {k: dict(v, dim=same) for k, v in inf.items()}
        elif dv == 1:
            rows = [[k] + inf[k]["dim"] for k in tomos]
            rng.shuffle(rows)
            kw["tomo_dim"] = np.array(rows) if rng.random() < 0.5 else pd.DataFrame(np.array(rows), columns=["tomo_id", "x", "y", "z"])
        else:
            kw["tomo_dim_file_format"] = dim_fmt
        # z-shift
        zv = (variant // 2) % 3
        if zv == 0:
            z = rng.choice([0.0, 5.0, -12.5])  # an int fails in z_shift_load (numpy.int64), also in the original
            kw["z_shift"] = z
            inf = {k: dict(v, zs=z) for k, v in inf.items()}
        elif zv == 1:
            rows = [[k, inf[k]["zs"]] for k in tomos]
            rng.shuffle(rows)
            kw["z_shift"] = np.array(rows)
        else:
            kw["z_shift_file_format"] = zs_fmt
        cv = rng.randrange(3)
        if cv == 1:
            kw["ctf_file_format"], kw["ctf_file_type"] = gctf_fmt, "gctf"
        elif cv == 2:
            kw["ctf_file_format"], kw["ctf_file_type"] = ctff_fmt, "ctffind4"
        dose = rng.random() < 0.6
        if dose:
            kw["dose_file_format"] = dose_fmt
        if rng.random() < 0.5:
            kw.update(voltage=200.0, amp_contrast=0.1, cs=2.2)
        # a list read from a file goes through tlt_load and comes back ascending
        order = sorted(tomos) if lv == 2 else tomos
        exp = expected_sg(order, inf, px, cv != 0, dose, kw.get("voltage", 300.0), kw.get("amp_contrast", 0.07), kw.get("cs", 2.7))
        keep = copy.deepcopy((tomo_list, kw))
        out_new = os.path.join(d, "batch_new_%d.star" % variant)
        out_old = os.path.join(d, "batch_old_%d.star" % variant)
        r_new = wedgeutils.create_wedge_list_sg_batch(tomo_list, px, tlt_fmt, output_file=out_new, **kw)
        r_old = orig_sg_batch(tomo_list, px, tlt_fmt, output_file=out_old, **kw)
        r_again = wedgeutils.create_wedge_list_sg_batch(tomo_list, px, tlt_fmt, **kw)
        vt = tag + " batch v%d" % variant
        check(close_tables(r_new, exp), vt + ": wedge list differs from the expectation")
        check(len(r_new) == sum(len(info[k]["tilts"]) for k in tomos), vt + ": one row per tilt per tomogram")
        check(same_table(r_new, r_old), vt + ": table differs from the original function")
        check(type(r_new.index) is type(r_old.index) and r_new.index.equals(r_old.index), vt + ": labels differ from the original function")
        check(same_table(r_new, r_again), vt + ": second call differs")
        check(read_bytes(out_new) == read_bytes(out_old), vt + ": written file differs from the original function")
        back = wedgeutils.load_wedge_list_sg(out_new)
        check(close_tables(back, exp, rtol=1e-5, atol=2e-6), vt + ": written wedge list differs from the expectation")

        def same_obj(a, b):
            if isinstance(a, np.ndarray):
                return isinstance(b, np.ndarray) and a.dtype == b.dtype and np.array_equal(a, b)
            if isinstance(a, pd.DataFrame):
                return same_table(a, b)
            return type(a) is type(b) and a == b

        check(same_obj(tomo_list, keep[0]) and list(kw) == list(keep[1]) and all(same_obj(kw[k], keep[1][k]) for k in kw), vt + ": inputs changed")

        # STOPGAP list -> EM list
        em = wedgeutils.wedge_list_sg_to_em(out_new, os.path.join(d, "sg2em_%d.em" % variant), write_out=True)
        st = sorted(tomos)
        exp_em = np.array([[k, info[k]["tilts"].min(), info[k]["tilts"].max()] for k in st])
        check(list(em.columns) == ["tomo_id", "min_tilt_angle", "max_tilt_angle"] and np.allclose(em.to_numpy(dtype=float), exp_em, rtol=1e-5, atol=2e-6), vt + ": sg -> em")
        _, data = emfile.read(os.path.join(d, "sg2em_%d.em" % variant))
        check(np.allclose(np.asarray(data, dtype=float).reshape(-1, 3), exp_em, rtol=1e-5, atol=1e-5), vt + ": sg -> em file")

    # ---- EM wedge list
    for tomo_list in (list(tomos), np.array(tomos), list_file):
        out = os.path.join(d, "wl.em")
        r = wedgeutils.create_wedge_list_em_batch(tomo_list, tlt_fmt, output_file=out)
        order = sorted(tomos) if isinstance(tomo_list, str) else tomos
        exp_em = np.array([[k, np.float32(info[k]["tilts"].min()), np.float32(info[k]["tilts"].max())] for k in order])
        check(list(r.columns) == ["tomo_num", "min_angle", "max_angle"] and list(r.index) == list(range(n_tomos)), tag + ": em columns")
        check(np.array_equal(r.to_numpy(dtype=float), exp_em), tag + ": em min / max")
        _, data = emfile.read(out)
        check(np.array_equal(np.asarray(data, dtype=float).reshape(-1, 3), exp_em.astype(np.float32).astype(float)), tag + ": em file")
    check(list(np.loadtxt(list_file, dtype=int, ndmin=1)) == tomos, tag + ": tomogram list file changed")


wedge_case(3000, 1, [1])
wedge_case(3001, 1, [80])
wedge_case(3002, 2, [1, 41])
wedge_case(3003, 3, [41, 1, 80])
wedge_case(3004, 5, [3, 61, 1, 2, 80])
for s in range(3005, 3013):
    wedge_case(s, random.Random(s).randrange(1, 6))

shutil.rmtree(TMP, ignore_errors=True)
print("checks:", NCHECK[0], "failed:", len(FAILS))
if FAILS:
    print("FAIL")
    sys.exit(1)
print("PASS")
