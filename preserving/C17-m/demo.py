"""C17 / change c: shortcuts in Mdoc.write (columns filtered once, `continue` for removed images) and in
Mdoc._parse_images (blank lines dropped up front).

Checks (1) the property: an mdoc written by cryoCAT re-reads to the same header entries and per-image table; sorting
by tilt and removing images change only the order / the removed flag; the written file omits exactly the removed
images; (2) the methods of the tree give exactly what the ORIGINAL method texts (kept below) give on the same objects
(same text written, same tables parsed, same exceptions).
Run:  cd /tmp/wt7/C17 && /venv/bin/python /tmp/seedsS/C17/c/demo.py
"""
import sys, os
sys.path.insert(0, os.getcwd())
import warnings
warnings.filterwarnings("ignore")
import tempfile, shutil, copy
import numpy as np
import pandas as pd
from cryocat import mdoc as mdoc_module
from cryocat.mdoc import Mdoc

ORIG_MDOC = r'''
def write(self, out_path=None, overwrite=False, removed=False):
    if not out_path:
        out_path = self.file_path
    if path.isfile(out_path) and not overwrite:
        raise FileExistsError("File {} already exists. Set overwrite=True to overwrite.".format(out_path))

    with open(out_path, "w") as f:
        # write header
        for key, value in self.project_info.items():
            f.write("{} = {}\n".format(key, value))
        f.write("\n")
        for title in self.titles:
            f.write("[{}]\n".format(title))
            f.write("\n")

        # write images
        for index, row in self.imgs.iterrows():
            if removed or (not removed and not row["Removed"]):
                f.write("[{} = {}]\n".format(self.section_id, row[self.section_id]))
                for column in self.imgs.columns:
                    if (column != self.section_id) and (column != "Removed"):
                        f.write("{} = {}\n".format(column, row[column]))
                f.write("\n")

@staticmethod
def _parse_images(data, section_id):
    # split the lines into sections, each starting with line starting with "[ZValue"
    sections = []
    section = []
    for line in data:
        if line.startswith("[" + section_id) and section:
            sections.append(section)
            section = []
        if line.strip():
            section.append(line)
    sections.append(section)

    # determine dataframe columns from the first section
    columns = [section_id]
    columns.extend([line.split("=")[0].strip() for line in sections[0][1:]])

    imgs = pd.DataFrame(columns=columns)
    for section in sections:
        # parse section
        img = {}
        for line in section:
            if line.startswith("["):
                img[section_id] = line.split("=")[1].strip().strip("]").strip()
            else:
                key, value = line.split("=")
                img[key.strip()] = Mdoc._format_value(value)
        imgs = pd.concat([imgs, pd.DataFrame(img, index=[0])], ignore_index=True)

    # prepare flag for removed images
    imgs["Removed"] = False

    # convert ZValues to int
    temp_column = imgs.astype({section_id: int})
    imgs[section_id] = temp_column[section_id]

    # convert TiltAngle to float
    imgs["TiltAngle"] = imgs["TiltAngle"].astype(float)

    return imgs

@staticmethod
def _read_mdoc(file_path):
    with open(file_path, "r") as f:
        lines = f.readlines()

        # separate first part of lines until a first occurrence of a line starting with "[ZValue"
        header = []  # list of header lines
        for line in lines:
            if line.startswith("[ZValue"):
                section_id = "ZValue"
                break
            elif line.startswith("[FrameSet"):
                section_id = "FrameSet"
                break
            # append only non-empty lines
            if line.strip():
                header.append(line.strip())

        titles, project_info = Mdoc._parse_header(header)

        # continue after header
        data = lines[lines.index(line) :]
        imgs = Mdoc._parse_images(data, section_id)

        return titles, project_info, imgs, section_id
'''

m_ns = dict(vars(mdoc_module))
class OrigMdoc(Mdoc):
    pass
m_ns["Mdoc"] = OrigMdoc                         # Mdoc._parse_images(...) inside the original reader -> original parser
exec(ORIG_MDOC, m_ns)
OrigMdoc.write = m_ns["write"]
OrigMdoc._parse_images = m_ns["_parse_images"]  # a staticmethod object
OrigMdoc._read_mdoc = m_ns["_read_mdoc"]        # same text as in the tree, but bound to the original parser

FAIL = []
def check(cond, msg):
    if not cond:
        FAIL.append(msg)
        if len(FAIL) < 15:
            print("FAIL:", msg)

def outcome(f, *a, **k):
    try:
        return ("ok", f(*a, **k))
    except Exception as e:
        return ("exc", type(e).__name__, str(e))

# ---- mdoc grammar: text + the independently known content -------------------------------------------------------
import re as _re

def expected_value(text):
    """independent statement of how an mdoc value is typed: unsigned whole number -> int, unsigned decimal -> float,
    anything else (negative numbers, several numbers, text) stays text"""
    t = text.strip()
    if _re.fullmatch(r"[0-9]+", t):
        return int(t)
    if _re.fullmatch(r"[0-9]*\.[0-9]*", t) and _re.search(r"[0-9]", t):
        return float(t)
    return t

def num_text(rng, allow_negative=True):
    k = rng.integers(0, 6)
    if k == 0:
        return str(int(rng.integers(0, 5000)))
    if k == 1:
        return "%.*f" % (int(rng.integers(1, 5)), rng.uniform(0, 900))
    if k == 2 and allow_negative:
        return "%.*f" % (int(rng.integers(1, 4)), -rng.uniform(0, 900))
    if k == 3 and allow_negative:
        return str(-int(rng.integers(0, 400)))
    if k == 4:
        return ["0", "0.0", "1", "0.5", "10", "0.0010", "007", "5.", ".5"][int(rng.integers(0, 9))]
    return "%.2f" % rng.uniform(0, 10)

TEXTS = ["TS_01.mrc", "4096 4096", "-123.4 56.7", "X:\\frames\\pos_12_003_-9.0.tif", "12-Jan-22  10:00:00", "0 0 0 0",
         "1.2.3", "1e-05", "nan", "-", "a b  c", "3,5", "SerialEM: x", "+3", "1 ", "0x10", "1_000", "--2"]
HEADER_KEYS = ["PixelSpacing", "Voltage", "ImageFile", "ImageSize", "DataMode", "Binning", "Tag", "Offset"]
IMG_KEYS = ["StagePosition", "StageZ", "Magnification", "Intensity", "SpotSize", "Defocus", "ImageShift", "RotationAngle",
            "ExposureTime", "Binning", "CameraIndex", "DividedBy2", "MinMaxMean", "TargetDefocus", "NumSubFrames", "Note"]

def gen_mdoc(rng, n, prior=True, datetime=True, exposure=True, distinct_tilts=True, section="ZValue", zorder="acq"):
    """returns text, header (dict), titles (list), images (list of dicts in file order; values as expected after reading)"""
    header = {}
    lines = []
    for k in rng.permutation(HEADER_KEYS)[: int(rng.integers(0, len(HEADER_KEYS) + 1))]:
        v = num_text(rng) if rng.integers(0, 3) else TEXTS[int(rng.integers(0, len(TEXTS)))]
        pad = " " * int(rng.integers(0, 3))
        lines.append("%s =%s%s%s" % (k, " " if rng.integers(0, 4) else "", v, pad))
        header[str(k)] = expected_value(v)
    lines.append("")
    titles = []
    for i in range(int(rng.integers(0, 4))):
        t = ["T = SerialEM: Digitized on Titan %d" % i, "T = Tilt axis angle = 85.3, binning = 1  spot = 8  camera = 0",
             "T =   padded title", "Montage"][int(rng.integers(0, 4))]
        lines.append("[%s]" % t)
        lines.append("")
        titles.append(t.strip())
    # tilt angles: dose-symmetric-like acquisition order, so the file order is not the tilt order
    if distinct_tilts:
        tilts = (rng.permutation(n) - n // 2) * 3.0 + (0.01 if rng.integers(0, 2) else 0.0)
    else:
        tilts = np.round(rng.uniform(-3, 3, n), 0)
    keys = [str(k) for k in rng.permutation(IMG_KEYS)[: int(rng.integers(0, 9))]]
    exposure_dose = "%.3f" % rng.uniform(0.5, 5) if rng.integers(0, 3) else "3"
    images = []
    zvals = list(range(n)) if zorder == "acq" else [int(z) for z in rng.permutation(n) + int(rng.integers(0, 3))]
    prior_acc = 0.0
    for i in range(n):
        img = {}
        lines.append("[%s = %d]" % (section, zvals[i]))
        img[section] = zvals[i]
        ttxt = ("%d" % tilts[i]) if (float(tilts[i]).is_integer() and rng.integers(0, 2)) else ("%.2f" % tilts[i])
        entries = [("TiltAngle", ttxt)]
        if exposure:
            e = exposure_dose if rng.integers(0, 5) else ["0", "0.0", "2.5"][int(rng.integers(0, 3))]
            entries.append(("ExposureDose", e))
        if prior:
            ptxt = "0" if i == 0 else "%.3f" % prior_acc
            entries.append(("PriorRecordDose", ptxt))
            prior_acc += float(entries[1][1]) if exposure else 1.0
        if datetime:
            entries.append(("DateTime", "12-Jan-22  %02d:%02d:%02d" % (10 + i // 3600, (i // 60) % 60, i % 60)))
        for k in keys:
            v = num_text(rng) if rng.integers(0, 3) else TEXTS[int(rng.integers(0, len(TEXTS)))]
            entries.append((k, v))
        entries.append(("SubFramePath", "X:\\frames\\ts_%03d_%.1f.tif" % (i, tilts[i])))
        for k, v in entries:                    # every section has the same keys in the same order
            lines.append("%s = %s" % (k, v))
            img[k] = float(v) if k == "TiltAngle" else expected_value(v)
        lines.append("")
        images.append(img)
    return "\n".join(lines) + "\n", header, titles, images

def same_value(a, b):
    if isinstance(a, str) or isinstance(b, str):
        return isinstance(a, str) and isinstance(b, str) and a == b
    if isinstance(a, (bool, np.bool_)) or isinstance(b, (bool, np.bool_)):
        return bool(a) == bool(b) and isinstance(a, (bool, np.bool_)) and isinstance(b, (bool, np.bool_))
    fa, fb = float(a), float(b)
    if isinstance(a, (int, np.integer)) != isinstance(b, (int, np.integer)):
        return False
    return fa == fb

def check_mdoc_content(m, header, titles, images, section, what, removed=None):
    """m: Mdoc object; images: expected rows in the expected order"""
    check(m.section_id == section, what + ": section id")
    check(m.titles == titles, what + ": titles %r vs %r" % (m.titles, titles))
    check(list(m.project_info.keys()) == list(header.keys()), what + ": header keys")
    for k in header:
        check(same_value(m.project_info[k], header[k]), what + ": header %s %r vs %r" % (k, m.project_info[k], header[k]))
    check(len(m.imgs) == len(images), what + ": number of images %d vs %d" % (len(m.imgs), len(images)))
    exp_cols = list(images[0].keys()) + ["Removed"] if images else None
    if images:
        check(list(m.imgs.columns) == exp_cols, what + ": columns %s vs %s" % (list(m.imgs.columns), exp_cols))
    for pos, img in enumerate(images[: len(m.imgs)]):
        row = m.imgs.iloc[pos]
        for k, v in img.items():
            if k == "TiltAngle":
                ok = float(row[k]) == float(v)
            else:
                ok = same_value(row[k], v)
            check(ok, what + ": image %d %s %r vs %r" % (pos, k, row[k], v))
        if removed is not None:
            check(bool(row["Removed"]) == removed[pos], what + ": removed flag of image %d" % pos)


def same_mdoc(a, b, msg):
    check(a.titles == b.titles and a.project_info == b.project_info and a.section_id == b.section_id, msg + ": header")
    check([type(v) for v in a.project_info.values()] == [type(v) for v in b.project_info.values()], msg + ": header types")
    try:
        pd.testing.assert_frame_equal(a.imgs, b.imgs, check_exact=True)
    except AssertionError as e:
        check(False, msg + ": " + str(e).replace("\n", " ")[:300])

def write_text(p, text):
    with open(p, "w") as f:
        f.write(text)
    return p

def as_orig(m):
    o = OrigMdoc(titles=m.titles, project_info=m.project_info, imgs=m.imgs, section_id=m.section_id)
    if hasattr(m, "file_path"):
        o.file_path = m.file_path
    return o

def both_write(m, d, tag, msg, **kw):
    """write the same object with the method of the tree and with the original text; returns the text written"""
    pa, pb = os.path.join(d, tag + "_new.mdoc"), os.path.join(d, tag + "_orig.mdoc")
    a = outcome(Mdoc.write, m, pa, **kw)
    b = outcome(OrigMdoc.write, as_orig(m), pb, **kw)
    check(a[0] == b[0] and (a[0] == "ok" or a == b), msg + ": outcome %r vs %r" % (a, b))
    ta = open(pa).read() if os.path.isfile(pa) else None
    tb = open(pb).read() if os.path.isfile(pb) else None
    check(ta == tb, msg + ": written text differs from the original method's")
    return ta

def sections_of(text, section):
    return [int(l.split("=")[1].strip(" ]\n")) for l in text.split("\n") if l.startswith("[" + section)]

# ---- part 1: generated mdoc files --------------------------------------------------------------------------------
def part_files(rng, d):
    for case in range(60):
        n = [1, 2, 80, 3][case] if case < 4 else int(rng.integers(1, 81))
        section = "FrameSet" if case % 9 == 4 else "ZValue"
        text, header, titles, images = gen_mdoc(rng, n, prior=case % 3 != 1, datetime=case % 5 != 3, section=section,
                                                zorder="acq" if case % 4 else "mixed", distinct_tilts=case % 6 != 5)
        if case % 4 == 1:      # other blank-line layouts: none at all / several / blanks with spaces / no final newline
            text = text.replace("\n\n", "\n")
        elif case % 4 == 2:
            text = text.replace("\n\n", "\n\n  \n\t\n")
        elif case % 4 == 3:
            text = text.rstrip("\n")
        p = write_text(os.path.join(d, "f%03d.mdoc" % case), text)
        m = Mdoc(p)
        check_mdoc_content(m, header, titles, images, section, "read %d" % case, removed=[False] * n)
        same_mdoc(m, OrigMdoc(p), "reader vs original %d" % case)
        lines = open(p).readlines()
        first = [i for i, l in enumerate(lines) if l.startswith("[" + section)][0]
        a, b = Mdoc._parse_images(lines[first:], section), OrigMdoc._parse_images(lines[first:], section)
        try:
            pd.testing.assert_frame_equal(a, b, check_exact=True)
        except AssertionError as e:
            check(False, "_parse_images vs original: " + str(e)[:200])

        # round trip
        t1 = both_write(m, d, "f%03d_rt" % case, "round trip write %d" % case)
        m2 = Mdoc(os.path.join(d, "f%03d_rt_new.mdoc" % case))
        check_mdoc_content(m2, header, titles, images, section, "round trip %d" % case, removed=[False] * n)
        check(both_write(m2, d, "f%03d_rt2" % case, "second write") == t1, "second write gives the same text")

        # sorting changes only the order
        if section == "ZValue":
            before = m.imgs.copy()
            m.sort_by_tilt()
            tilts = m.imgs["TiltAngle"].to_numpy()
            check(np.all(np.diff(tilts) >= 0), "sorted by tilt")
            try:
                pd.testing.assert_frame_equal(m.imgs.sort_index(), before, check_exact=True)
            except AssertionError as e:
                check(False, "sorting changed more than the order: " + str(e)[:200])
            if len(set(tilts)) == n:
                order = np.argsort([im["TiltAngle"] for im in images])
                images = [images[i] for i in order]
            else:
                images = [images[i] for i in m.imgs.index]      # ties: take the order the sort chose
            check_mdoc_content(m, header, titles, images, section, "sorted %d" % case, removed=[False] * n)
            both_write(m, d, "f%03d_sorted" % case, "sorted write %d" % case)

        # removing: any subset of positions among the kept images, in two rounds
        flags = [False] * n
        for rnd in range(2):
            kept = [i for i in range(n) if not flags[i]]
            if not kept:
                break
            k = [0, 1, len(kept)][case % 3] if rnd == 0 else int(rng.integers(0, len(kept) + 1))
            k = min(k, len(kept))
            sel = rng.choice(len(kept), k, replace=False)
            if case % 5 == 0 and k:
                sel = np.array([0, len(kept) - 1][: k])          # first and last kept image
            before = m.imgs.copy()
            m.remove_images([int(s) for s in sel] if case % 2 else sel)
            for s in sel:
                flags[kept[int(s)]] = True
            check(list(m.imgs["Removed"]) == flags, "removed flags %d" % case)
            check(m.imgs.drop(columns="Removed").equals(before.drop(columns="Removed")), "removing changed only the flag")
            check_mdoc_content(m, header, titles, images, section, "after removal %d" % case, removed=flags)
            check(len(m.kept_images()) == n - sum(flags) and len(m.removed_images()) == sum(flags), "kept / removed views")
            tk = both_write(m, d, "f%03d_kept%d" % (case, rnd), "write kept %d" % case)
            ta = both_write(m, d, "f%03d_all%d" % (case, rnd), "write all %d" % case, removed=True)
            exp_kept = [images[i][section] for i in range(n) if not flags[i]]
            check(sections_of(tk, section) == exp_kept, "written file omits exactly the removed images %d" % case)
            check(sections_of(ta, section) == [im[section] for im in images], "removed=True writes every image")
            if exp_kept:
                mk = Mdoc(os.path.join(d, "f%03d_kept%d_new.mdoc" % (case, rnd)))
                check_mdoc_content(mk, header, titles, [images[i] for i in range(n) if not flags[i]], section, "kept file %d" % case,
                                   removed=[False] * len(exp_kept))
            else:
                check("[" + section not in tk.split("\n\n", 1)[-1] or not sections_of(tk, section), "nothing but the header")
            mall = Mdoc(os.path.join(d, "f%03d_all%d_new.mdoc" % (case, rnd)))
            check_mdoc_content(mall, header, titles, images, section, "full file %d" % case, removed=[False] * n)
        # overwrite protection and the default path: same outcome as the original
        pa = os.path.join(d, "f%03d_rt_new.mdoc" % case)
        a = outcome(m.write, pa)
        b = outcome(as_orig(m).write, pa)
        check(a == b and a[:2] == ("exc", "FileExistsError"), "existing file is not overwritten: %r" % (a,))
        m.file_path = os.path.join(d, "f%03d_default.mdoc" % case)
        m.write(overwrite=True)
        o = as_orig(m); o.file_path = os.path.join(d, "f%03d_default_orig.mdoc" % case); o.write(None, True)
        check(open(m.file_path).read() == open(o.file_path).read(), "default path")

# ---- part 2: hand-made tables (the inputs the idiom is notorious for) ------------------------------------------
def part_tables(rng, d):
    base = pd.DataFrame({"ZValue": [0, 1, 2, 3], "TiltAngle": [-3.0, 0.0, 3.0, 6.0], "ExposureDose": [0, 1.5, 0.0, 2],
                         "Note": ["a", "", "0", "False"]})
    info = {"PixelSpacing": 1.35, "Voltage": 300, "ImageFile": "x.mrc"}
    variants = {}
    v = base.copy(); v["Removed"] = False; variants["none removed"] = v
    v = base.copy(); v["Removed"] = True; variants["all removed"] = v
    v = base.copy(); v["Removed"] = [True, False, False, True]; variants["first and last removed"] = v
    v = base.copy(); v["Removed"] = pd.Series([True, False, True, False], dtype=object); variants["object flags"] = v
    v = base.copy(); v["Removed"] = [1, 0, 0, 1]; variants["0/1 flags"] = v
    v = base.copy(); v["Removed"] = [np.nan, False, True, np.nan]; variants["flags with holes"] = v
    v = base.copy(); v["Removed"] = [None, False, True, None]; variants["flags with None"] = v
    v = base.copy(); v["Removed"] = ["", "x", "False", ""]; variants["text flags"] = v
    v = base.copy(); variants["no flag column"] = v
    v = base.copy(); v["Removed"] = False; v = v[["Removed", "Note", "ZValue", "TiltAngle", "ExposureDose"]]; variants["column order"] = v
    v = base.copy(); v["Removed"] = [False, True, False, False]; v.index = [7, 7, 3, 0]; variants["repeated row labels"] = v
    v = base.copy(); v["Removed"] = [False, True, False, False]; v = v.sort_values("TiltAngle", ascending=False); variants["reversed rows"] = v
    v = base.copy(); v["Removed"] = False; v = v.iloc[0:0]; variants["no rows"] = v
    v = base.copy(); v["Removed"] = [False, True, False, True]; v = v.iloc[1:2]; variants["single removed row"] = v
    v = base.copy(); v["Removed"] = False; v["removed"] = 5; v["ZValue2"] = 1; variants["look-alike columns"] = v
    v = base.copy(); v["Removed"] = False; v.insert(1, "Removed", [True, True, False, False], allow_duplicates=True); variants["two flag columns"] = v
    v = base.rename(columns={"ZValue": "FrameSet"}); v["Removed"] = [False, False, True, False]; variants["FrameSet"] = v
    v = base.copy(); v["Removed"] = False; v[3] = [1, 2, 3, 4]; variants["numeric column name"] = v
    for name, frame in variants.items():
        section = "FrameSet" if name == "FrameSet" else "ZValue"
        for titles in ([], ["T = one"], ["T = one", "two"]):
            for removed in (False, True, 0, 1, None, "", "yes"):
                m = Mdoc(titles=titles, project_info=info, imgs=frame.copy(), section_id=section)
                tag = "t_%s_%d_%r" % (name.replace(" ", "_").replace("/", "_"), len(titles), removed)
                both_write(m, d, tag, "table '%s', removed=%r" % (name, removed), removed=removed)
        # positional call, as mdoc.remove_images / sort_mdoc_by_tilt_angles do
        m = Mdoc(titles=[], project_info=info, imgs=frame.copy(), section_id=section)
        pa, pb = os.path.join(d, "pos_a.mdoc"), os.path.join(d, "pos_b.mdoc")
        a, b = outcome(m.write, pa, True), outcome(as_orig(m).write, pb, True)
        check(a[0] == b[0] and (a[0] == "ok" or a == b) and open(pa).read() == open(pb).read(), "positional call '%s'" % name)
    # property on the plain variants: exactly the flagged rows are missing
    for name in ("none removed", "all removed", "first and last removed", "reversed rows", "single removed row", "no rows"):
        frame = variants[name]
        m = Mdoc(titles=[], project_info=info, imgs=frame.copy(), section_id="ZValue")
        p = os.path.join(d, "prop.mdoc")
        m.write(p, overwrite=True)
        check(sections_of(open(p).read(), "ZValue") == list(frame.loc[~frame["Removed"].astype(bool), "ZValue"]), "omits exactly the removed rows: " + name)
        m.write(p, overwrite=True, removed=True)
        check(sections_of(open(p).read(), "ZValue") == list(frame["ZValue"]), "removed=True keeps all rows: " + name)

    # the parser on odd line lists (lists of lines, as _read_mdoc passes them)
    blocks = [
        ["[ZValue = 0]\n", "TiltAngle = 1\n"],
        ["[ZValue = 0]\n", "\n", "TiltAngle = 1\n", "\n", "\n", "[ZValue = 1]\n", "TiltAngle = -2\n"],
        ["[ZValue = 0]\n", "TiltAngle = 1\n", "[ZValue = 1]\n", "TiltAngle = 2"],
        ["[ZValue = 0]\n", "   \n", "TiltAngle = 1\n", "\t\n", " [ZValue = 1]\n"],                     # indented header is no header -> same error
        ["\n", "  \n", "[ZValue = 3]\n", "TiltAngle = 1\n", "[ZValue = 3]\n", "TiltAngle = 1\n"],       # leading blanks, repeated z
        ["[ZValue = 0]\n", "TiltAngle = 1\n", "A = 1\n", "[ZValue = 1]\n", "TiltAngle = 2\n", "B = x\n"],  # holes
        ["[ZValue = 0]\n", "[ZValue = 1]\n", "TiltAngle = 2\n"],                                          # section without entries
        ["[ZValue = 0]\n"], [], ["\n"], ["TiltAngle = 1\n"],
        ["[ZValue = 0]\n", "TiltAngle = 1\n", "\n", "[T = a title in between]\n", "\n", "[ZValue = 1]\n", "TiltAngle = 2\n"],
    ]
    for i, blk in enumerate(blocks):
        for sec in ("ZValue", "FrameSet"):
            lines = [l.replace("ZValue", sec) for l in blk]
            keep = list(lines)
            a, b = outcome(Mdoc._parse_images, lines, sec), outcome(OrigMdoc._parse_images, list(keep), sec)
            check(lines == keep, "the caller's list of lines is left alone")
            if a[0] == "ok" and b[0] == "ok":
                try:
                    pd.testing.assert_frame_equal(a[1], b[1], check_exact=True)
                except AssertionError as e:
                    check(False, "parser block %d: %s" % (i, str(e)[:200]))
            else:
                check(a == b, "parser block %d: %r vs %r" % (i, a, b))

def main():
    d = tempfile.mkdtemp(prefix="c17c_")
    try:
        rng = np.random.default_rng(1703)
        part_tables(rng, d)
        part_files(rng, d)
    finally:
        shutil.rmtree(d, ignore_errors=True)
    if FAIL:
        print("FAIL (%d checks)" % len(FAIL))
        sys.exit(1)
    print("PASS")

main()
