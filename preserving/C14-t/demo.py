import sys, os

sys.path.insert(0, os.getcwd())
import copy
import itertools
import warnings

warnings.filterwarnings("ignore")
import numpy as np
import pandas as pd
from scipy.ndimage import affine_transform as _ref_affine

from cryocat import cryomap, cryomotl

FAILS = []


def check(cond, msg):
    if not cond:
        FAILS.append(msg)
        if len(FAILS) <= 20:
            print("FAIL:", msg)


# ----------------------------------------------------------------------------------------------------------------
# independent pieces: zxz matrix by hand, a motl builder, reference implementations written with explicit indices
# ----------------------------------------------------------------------------------------------------------------
def Rz(a):
    c, s = np.cos(np.deg2rad(a)), np.sin(np.deg2rad(a))
    return np.array([[c, -s, 0.0], [s, c, 0.0], [0.0, 0.0, 1.0]])


def Rx(a):
    c, s = np.cos(np.deg2rad(a)), np.sin(np.deg2rad(a))
    return np.array([[1.0, 0.0, 0.0], [0.0, c, -s], [0.0, s, c]])


def zxz_matrix(phi, theta, psi):
    # extrinsic z (phi), x (theta), z (psi):  R = Rz(psi) Rx(theta) Rz(phi)
    return Rz(psi) @ Rx(theta) @ Rz(phi)


def make_motl(pos, shifts, angles, object_id=None, klass=None):
    n = len(pos)
    df = pd.DataFrame(np.zeros((n, 20)), columns=cryomotl.Motl.motl_columns)
    df[["x", "y", "z"]] = np.asarray(pos, dtype=float)
    df[["shift_x", "shift_y", "shift_z"]] = np.asarray(shifts, dtype=float)
    ang = np.asarray(angles, dtype=float).reshape(n, 3)
    df["phi"], df["theta"], df["psi"] = ang[:, 0], ang[:, 1], ang[:, 2]
    df["subtomo_id"] = np.arange(1, n + 1, dtype=float)
    df["tomo_id"] = 1.0
    df["object_id"] = np.arange(1, n + 1, dtype=float) if object_id is None else np.asarray(object_id, dtype=float)
    df["class"] = 1.0 if klass is None else np.asarray(klass, dtype=float)
    return cryomotl.Motl(motl_df=df)


def blob_map(shape, centres, sigma, weights=None):
    g = np.indices(shape).astype(float)
    out = np.zeros(shape)
    for k, c in enumerate(centres):
        w = 1.0 if weights is None else weights[k]
        r2 = sum((g[d] - c[d]) ** 2 for d in range(3))
        out += w * np.exp(-r2 / (2.0 * sigma**2))
    return out


def centre_of_mass(m):
    g = np.indices(m.shape).astype(float)
    t = m.sum()
    return np.array([(g[d] * m).sum() / t for d in range(3)])


def ref_rotate_active(vol, R):
    """density at offset v from floor(N/2) goes to R v:  out[c + u] = in[c + R^T u]"""
    c = np.asarray(vol.shape) // 2
    M = R.T
    off = c - M @ c
    out = np.empty(vol.shape)
    _ref_affine(np.asarray(vol, dtype=float), M, offset=off, output=out, order=3)
    return out


def ref_window(volume, coord, box):
    """window of shape box whose first voxel is floor(coord - box/2); outside the volume -> mean of the volume"""
    box = np.asarray(box)
    start = np.floor(np.asarray(coord, dtype=float) - box / 2.0).astype(int)
    out = np.full(tuple(box), float(np.mean(volume)))
    for i in range(box[0]):
        for j in range(box[1]):
            for k in range(box[2]):
                p = start + (i, j, k)
                if np.all(p >= 0) and np.all(p < np.asarray(volume.shape)):
                    out[i, j, k] = volume[tuple(p)]
    return out


def ref_place(template, motl, container, feature="object_id"):
    out = np.array(container, dtype=float, copy=True)
    df = motl.df
    box = np.asarray(template.shape)
    for n in range(len(df)):
        row = df.iloc[n]
        R = zxz_matrix(row["phi"], row["theta"], row["psi"])
        stamp = ref_rotate_active(template, R) > 0.1
        pos = np.array([row["x"] + row["shift_x"], row["y"] + row["shift_y"], row["z"] + row["shift_z"]]) - 1.0
        start = np.floor(pos - box / 2.0).astype(int)
        for idx in np.argwhere(stamp):
            p = start + idx
            if np.all(p >= 0) and np.all(p < np.asarray(out.shape)):
                out[tuple(p)] = row[feature]
    return out


# ----------------------------------------------------------------------------------------------------------------
# the property
# ----------------------------------------------------------------------------------------------------------------
def property_cube_rotations(rng):
    seen = set()
    for N in (7, 8):
        vol = rng.standard_normal((N, N, N))
        keep = vol.copy()
        c = N // 2
        idx = np.indices((N, N, N)).reshape(3, -1).T
        for phi, theta, psi in itertools.product((0, 90, 180, 270), repeat=3):
            R = np.rint(zxz_matrix(phi, theta, psi)).astype(int)
            seen.add(tuple(R.ravel()))
            out_a = cryomap.rotate(vol, rotation_angles=[phi, theta, psi])
            rot = cryomotl.Motl  # noqa (only to make the link below explicit)
            m = make_motl([[1, 1, 1]], [[0, 0, 0]], [[phi, theta, psi]])
            r = m.get_rotations()[0]
            out_b = cryomap.rotate(vol, rotation=r, transpose_rotation=True)
            out_inv = cryomap.rotate(vol, rotation=r)
            q = (idx - c) @ R.T + c  # density at p moves to q = c + R (p - c)
            ok = np.all((idx >= 1) & (idx <= N - 2) & (q >= 1) & (q <= N - 2), axis=1)
            src, dst = idx[ok], q[ok]
            check(ok.sum() >= (N - 3) ** 3, "too few voxels compared")
            va = vol[src[:, 0], src[:, 1], src[:, 2]]
            for name, o in (("angles", out_a), ("rotation^T", out_b)):
                err = np.max(np.abs(o[dst[:, 0], dst[:, 1], dst[:, 2]] - va))
                check(err < 1e-10, f"cube rotation {(phi, theta, psi)} N={N} via {name}: err {err}")
            # the untransposed Rotation is the inverse: density at q goes back to p
            err = np.max(np.abs(out_inv[src[:, 0], src[:, 1], src[:, 2]] - vol[dst[:, 0], dst[:, 1], dst[:, 2]]))
            check(err < 1e-10, f"cube rotation {(phi, theta, psi)} N={N} inverse: err {err}")
            # the particle orientation carries offsets the same way
            v = np.array([1.0, 2.0, 3.0])
            check(np.allclose(r.apply(v), R @ v, atol=1e-12), "Motl.get_rotations disagrees with zxz matrix")
        check(np.array_equal(vol, keep), "rotate changed its input")
    check(len(seen) == 24, f"expected the 24 cube rotations, got {len(seen)}")


def property_random_rotations(rng, n=12):
    for it in range(n):
        N = int(rng.choice([24, 25, 28]))
        c = N // 2
        v = rng.uniform(-3.0, 3.0, 3)
        vol = blob_map((N, N, N), [c + v, c - 0.5 * v[::-1]], 2.0, [1.0, 0.35])
        keep = vol.copy()
        ang = rng.uniform(-180, 180, 3)
        ang[1] = rng.uniform(0, 180)
        R = zxz_matrix(*ang)
        out = cryomap.rotate(vol, rotation_angles=ang)
        ref = ref_rotate_active(vol, R)
        check(np.max(np.abs(out - ref)[2:-2, 2:-2, 2:-2]) < 1e-9, f"random rotation {ang}: differs from reference")
        # single blob: its centre travels to R v
        one = blob_map((N, N, N), [c + v], 2.0)
        com = centre_of_mass(cryomap.rotate(one, rotation_angles=ang)) - c
        check(np.linalg.norm(com - R @ v) < 0.05, f"blob went to {com}, expected {R @ v}")
        m = make_motl([[5, 5, 5]], [[0, 0, 0]], [ang])
        check(np.allclose(m.get_rotations()[0].apply(v), R @ v, atol=1e-10), "particle orientation differs")
        # rotating back restores the smooth map
        back = cryomap.rotate(out, rotation=m.get_rotations()[0])
        check(np.max(np.abs(back - vol)) < 0.02 * vol.max(), f"inverse does not restore: {np.max(np.abs(back - vol))}")
        back2 = cryomap.rotate(out, rotation_angles=[-ang[2], -ang[1], -ang[0]])
        check(np.max(np.abs(back2 - back)) < 1e-9, "inverse by angles differs from inverse by Rotation")
        check(np.array_equal(vol, keep), "rotate changed its input")
        check(np.array_equal(cryomap.rotate(vol, rotation_angles=ang), out), "repeated rotate differs")


def property_windows(rng, n=40):
    for it in range(n):
        shape = tuple(int(s) for s in rng.integers(6, 13, 3))
        vol = rng.standard_normal(shape) + 3.0
        keep = vol.copy()
        box = tuple(int(2 * s) for s in rng.integers(1, 5, 3))
        kind = it % 4
        if kind == 0:  # fully inside
            lo = np.asarray(box) / 2
            hi = np.asarray(shape) - np.asarray(box) / 2
            coord = np.array([rng.uniform(l, max(l, h)) for l, h in zip(lo, hi)])
        elif kind == 1:  # partly outside
            coord = rng.uniform(-1, 1, 3) + rng.choice([0, 1], 3) * np.asarray(shape)
        elif kind == 2:  # fully outside
            coord = np.asarray(shape) + np.asarray(box) + rng.uniform(0, 3, 3)
            if it % 8 == 2:
                coord = -np.asarray(box) - rng.uniform(0, 3, 3)
        else:  # integer and half-integer centres
            coord = rng.integers(-2, max(shape) + 2, 3) + rng.choice([0.0, 0.5], 3)
        ckeep = np.array(coord, copy=True)
        sub = cryomap.extract_subvolume(vol, coord, box)
        ref = ref_window(vol, coord, box)
        check(sub.shape == tuple(box), "window shape")
        check(np.array_equal(sub, ref), f"window at {coord} box {box} volume {shape} differs")
        check(np.array_equal(cryomap.extract_subvolume(vol, coord, box), sub), "repeated window differs")
        check(np.array_equal(vol, keep) and np.array_equal(coord, ckeep), "extract_subvolume changed its inputs")


def property_symmetrize(rng):
    for n in range(2, 13):
        N = int(rng.choice([24, 25, 28]))
        c = N // 2
        cs = [c + rng.uniform(-3.0, 3.0, 3) for _ in range(3)]
        vol = blob_map((N, N, N), cs, 2.0, [1.0, 0.6, 0.8])
        keep = vol.copy()
        for sym in (n, f"C{n}"):
            s = cryomap.symmetrize_volume(vol, sym)
            ref = sum(ref_rotate_active(vol, Rz(k * 360.0 / n)) for k in range(n)) / n
            # (source voxels on a face can fall outside the interpolation domain by rounding: compared two voxels inside)
            check(np.max(np.abs(s - ref)[2:-2, 2:-2, 2:-2]) < 1e-9, f"C{n}: not the mean of the n rotated copies")
            turned = cryomap.rotate(s, rotation_angles=[0, 0, 360.0 / n])
            check(np.max(np.abs(turned - s)) < 0.02 * s.max(), f"C{n}: not invariant: {np.max(np.abs(turned - s))}")
            check(abs(s.sum() - vol.sum()) < 2e-3 * vol.sum(), f"C{n}: total density {s.sum()} vs {vol.sum()}")
            check(np.array_equal(cryomap.symmetrize_volume(vol, sym), s), "repeated symmetrize differs")
        check(np.array_equal(vol, keep), "symmetrize_volume changed its input")


def property_place(rng, sizes=(1, 2, 3, 5, 8, 13, 20)):
    for npart in sizes:
        B = int(rng.choice([11, 12]))
        c = B // 2
        # templates vanish (well below the 0.1 threshold) at the faces of their box
        template = blob_map((B, B, B), [np.array([c, c, c]) + rng.uniform(-1, 1, 3), [c + 1.5, c, c - 1]], 1.2, [1.0, 0.8])
        template2 = blob_map((B, B, B), [[c - 1.5, c + 1, c], [c, c, c + 1.5]], 1.2, [0.9, 0.7])
        tkeep = template.copy()
        vshape = tuple(int(s) for s in rng.integers(18, 27, 3))
        pos = rng.integers(-1, np.asarray(vshape) + 3, (npart, 3)).astype(float)
        pos[0] = np.asarray(vshape) // 2
        shifts = np.round(rng.uniform(-2, 2, (npart, 3)), 2)
        ang = rng.uniform(-180, 180, (npart, 3))
        ang[:, 1] = rng.uniform(0, 180, npart)
        if npart > 2:
            ang[1] = [90, 90, 180]
            pos[2] = pos[0] + [2, 1, 0]  # overlapping stamps: the later particle wins
        oid = rng.integers(1, 6, npart).astype(float)
        klass = rng.integers(2, 9, npart).astype(float)
        m = make_motl(pos, shifts, ang, oid, klass)
        dfkeep = m.df.copy(deep=True)
        for feature in ("object_id", "class", "subtomo_id"):
            out = cryomap.place_object(template, m, volume_shape=vshape, feature_to_color=feature)
            ref = ref_place(template, m, np.zeros(vshape), feature)
            check(out.shape == vshape, "container shape")
            nbad = int(np.sum(out != ref))
            check(nbad == 0, f"place_object {npart} particles colour {feature}: {nbad} voxels differ")
            check(np.array_equal(cryomap.place_object(template, m, volume_shape=vshape, feature_to_color=feature), out), "repeated place differs")
        # into an existing volume, which stays the caller's
        base = rng.integers(0, 3, vshape).astype(float) * 10.0
        bkeep = base.copy()
        out = cryomap.place_object(template, m, volume=base)
        check(np.array_equal(out, ref_place(template, m, base, "object_id")), "place_object into existing volume differs")
        check(np.array_equal(base, bkeep), "place_object changed the volume passed in")
        # list of objects, one per particle
        lst = [template if k % 2 == 0 else template2 for k in range(npart)]
        out = cryomap.place_object(lst, m, volume_shape=vshape)
        r = np.zeros(vshape)
        for k in range(npart):
            r = ref_place(lst[k], cryomotl.Motl(motl_df=m.df.iloc[[k]].reset_index(drop=True)), r, "object_id")
        check(np.array_equal(out, r), "place_object with a list of objects differs")
        check(np.array_equal(template, tkeep), "place_object changed the template")
        check(m.df.equals(dfkeep) and list(m.df.index) == list(dfkeep.index), "place_object changed the motl")


def run_property(seed):
    rng = np.random.default_rng(seed)
    property_cube_rotations(rng)
    property_random_rotations(rng)
    property_windows(rng)
    property_symmetrize(rng)
    property_place(rng)


# ----------------------------------------------------------------------------------------------------------------
# change (a): place_object compared with the text of the original function (run inside the cryomap namespace)
# ----------------------------------------------------------------------------------------------------------------
ORIGINAL_PLACE_OBJECT = '''
def _orig_place_object(input_object, motl, volume_shape=None, volume=None, feature_to_color="object_id"):
    if not isinstance(input_object, list):
        input_object = read(input_object)

    if volume is not None:
        object_container = read(volume)
    elif volume_shape is not None:
        object_container = np.zeros(volume_shape)

    rotations = motl.get_rotations()
    coordinates = motl.get_coordinates() - 1.0
    colors = motl.df[feature_to_color].to_numpy()

    for i, coord in enumerate(coordinates):

        if isinstance(input_object, list):
            object_map = rotate(input_object[i], rotation=rotations[i], transpose_rotation=True)
        else:
            object_map = rotate(input_object, rotation=rotations[i], transpose_rotation=True)

        object_map = np.where(object_map > 0.1, 1.0, 0.0)

        ls, le, os, oe = get_start_end_indices(coord, object_container.shape, object_map.shape)

        object_shape = object_map[os[0] : oe[0], os[1] : oe[1], os[2] : oe[2]]
        object_container[ls[0] : le[0], ls[1] : le[1], ls[2] : le[2]] = np.where(
            object_shape == 1.0,
            colors[i],
            object_container[ls[0] : le[0], ls[1] : le[1], ls[2] : le[2]],
        )

    return object_container
'''
exec(compile(ORIGINAL_PLACE_OBJECT, "<original place_object>", "exec"), cryomap.__dict__)


def same(a, b):
    return type(a) is type(b) and a.dtype == b.dtype and a.shape == b.shape and np.array_equal(a, b)


def outcome(f, *args, **kw):
    try:
        return ("ok", f(*args, **kw))
    except Exception as e:  # same exception type expected from both
        return ("raise", type(e).__name__)


def compare_with_original(seed, rounds=40):
    rng = np.random.default_rng(seed)
    for it in range(rounds):
        npart = int(rng.integers(1, 21))
        B = int(rng.choice([6, 7, 8, 11, 12]))
        template = rng.uniform(0, 0.25, (B, B, B)) + blob_map((B, B, B), [rng.uniform(1, B - 2, 3)], 1.5)
        if it % 7 == 0:
            template = template.astype(np.float32)
        vshape = tuple(int(s) for s in rng.integers(5, 25, 3))
        pos = rng.integers(-6, np.asarray(vshape) + 8, (npart, 3)).astype(float)  # inside, across the border, outside
        shifts = rng.uniform(-3, 3, (npart, 3)) if it % 3 else np.zeros((npart, 3))
        ang = rng.uniform(-360, 360, (npart, 3))
        if it % 5 == 0:
            ang = rng.choice([0.0, 90.0, 180.0, 270.0], (npart, 3))
        m = make_motl(pos, shifts, ang, rng.integers(0, 4, npart), rng.uniform(-2, 2, npart))
        if it % 4 == 0:  # a motl whose index is not 0..n-1
            m.df.index = rng.permutation(npart) + 10
        dfkeep, tkeep = m.df.copy(deep=True), template.copy()
        feature = ["object_id", "class", "subtomo_id", "score"][it % 4]
        calls = [dict(volume_shape=vshape, feature_to_color=feature)]
        for dt in (float, np.float32, np.int16, np.uint8):
            base = (rng.integers(0, 5, vshape) * 7).astype(dt)
            calls.append(dict(volume=base, feature_to_color=feature))
        calls.append(dict(volume=np.asfortranarray(rng.standard_normal(vshape)), volume_shape=(3, 3, 3)))
        lst = [template, template[::-1], np.ascontiguousarray(template.T)] * 7
        for kw in calls:
            vkeep = None if kw.get("volume") is None else kw["volume"].copy()
            for obj in (template, lst[:npart]):
                a = outcome(cryomap.place_object, obj, m, **kw)
                b = outcome(cryomap._orig_place_object, obj, m, **kw)
                a2 = outcome(cryomap.place_object, obj, m, **kw)  # a repeated call on the same objects
                check(a[0] == b[0] == a2[0], f"outcome differs: {a[0]} / {b[0]}")
                if a[0] == "ok" and b[0] == "ok":
                    check(same(a[1], b[1]) and same(a2[1], b[1]), f"place_object differs from the original ({kw.keys()})")
                    check(a[1] is not kw.get("volume"), "the result is the caller's volume")
                else:
                    check(a[1] == b[1], f"different exceptions {a[1]} / {b[1]}")
            if vkeep is not None:
                check(same(kw["volume"], vkeep), "the caller's volume was changed")
        check(m.df.equals(dfkeep) and list(m.df.index) == list(dfkeep.index), "motl changed")
        check(same(template, tkeep), "template changed")
    # neither volume nor volume_shape, a short list of objects, an empty list of particles: same failure or result
    m = make_motl([[4, 4, 4], [6, 6, 6]], np.zeros((2, 3)), [[10, 20, 30], [40, 50, 60]])
    t = blob_map((6, 6, 6), [[3, 3, 3]], 1.2)
    for args, kw in (((t, m), {}), (([t], m), dict(volume_shape=(9, 9, 9))), ((t, m), dict(volume_shape=(9, 9, 9), feature_to_color="nope"))):
        a, b = outcome(cryomap.place_object, *args, **kw), outcome(cryomap._orig_place_object, *args, **kw)
        check(a[0] == b[0] == "raise" and a[1] == b[1], f"failure modes differ: {a} / {b}")
    empty = cryomotl.Motl()
    a, b = outcome(cryomap.place_object, t, empty, volume_shape=(7, 7, 7)), outcome(cryomap._orig_place_object, t, empty, volume_shape=(7, 7, 7))
    check(a[0] == b[0] and (a[0] == "raise" and a[1] == b[1] or a[0] == "ok" and same(a[1], b[1])), "empty motl differs")


if __name__ == "__main__":
    for seed in (11, 12):
        run_property(seed)
    compare_with_original(5)
    if FAILS:
        print(f"FAIL ({len(FAILS)} checks)")
        sys.exit(1)
    print("PASS")
