"""C04 demo: STOPGAP <-> cryoCAT conversion is a lossless renaming with parity half-sets.

Checks the property against an independent computation (own STAR parser, own renaming table, own
round-half-up) and against verbatim copies of the ORIGINAL functions kept below, over many particle
lists x reset_index x update_coord x in-memory / via-file, with repeated calls on the same objects after
in-place edits and in different orders.  Prints PASS and exits 0 when everything holds.
"""
import sys, os

sys.path.insert(0, os.getcwd())
import inspect
import tempfile
import warnings
from fractions import Fraction

import numpy as np
import pandas as pd

warnings.filterwarnings("ignore")

from cryocat import cryomotl, starfileio
from cryocat.cryomotl import Motl, StopgapMotl, EmMotl
from cryocat.exceptions import UserInputError

VARIANT = "b"

# ----------------------------------------------------------------------------------------------------------
# independent description of the property
# ----------------------------------------------------------------------------------------------------------
RENAME = [
    ("score", "score"),
    ("subtomo_id", "subtomo_num"),
    ("tomo_id", "tomo_num"),
    ("object_id", "object"),
    ("x", "orig_x"),
    ("y", "orig_y"),
    ("z", "orig_z"),
    ("shift_x", "x_shift"),
    ("shift_y", "y_shift"),
    ("shift_z", "z_shift"),
    ("phi", "phi"),
    ("psi", "psi"),
    ("theta", "the"),
    ("class", "class"),
]
SG_COLUMNS = [
    "motl_idx", "tomo_num", "object", "subtomo_num", "halfset", "orig_x", "orig_y", "orig_z", "score",
    "x_shift", "y_shift", "z_shift", "phi", "psi", "the", "class",
]
MOTL_COLUMNS = [
    "score", "geom1", "geom2", "subtomo_id", "tomo_id", "object_id", "subtomo_mean", "x", "y", "z",
    "shift_x", "shift_y", "shift_z", "geom3", "geom4", "geom5", "phi", "psi", "theta", "class",
]
assert len(RENAME) == 14

FAILS = []


def fail(msg):
    FAILS.append(msg)
    if len(FAILS) <= 20:
        print("FAIL:", msg)


def same(a, b):
    """bitwise-ish equality of two float arrays (value, sign of zero, NaN in the same places)"""
    a = np.asarray(a, dtype=float)
    b = np.asarray(b, dtype=float)
    return a.shape == b.shape and np.array_equal(a, b, equal_nan=True) and np.array_equal(np.signbit(a), np.signbit(b))


def parse_star(path):
    """independent, minimal STAR reader: {specifier: (columns, rows of str)}"""
    blocks = {}
    spec = None
    cols = None
    rows = None
    in_loop = False
    with open(path) as fh:
        for raw in fh.read().split("\n"):
            line = raw.split("#", 1)[0].strip()
            if not line:
                continue
            if line.startswith("data_"):
                spec = line
                cols, rows = [], []
                blocks[spec] = (cols, rows)
                in_loop = False
            elif line == "loop_":
                in_loop = True
            elif line.startswith("_") and in_loop and not rows:
                cols.append(line.split()[0][1:])
            else:
                rows.append(line.split())
    return blocks


def half_up(v):
    """independent round-half-up (ties away from zero, as decimal.ROUND_HALF_UP) on the exact binary value"""
    f = Fraction(float(v))
    s = -1 if f < 0 else 1
    f = abs(f)
    n = f.numerator // f.denominator
    if f - n >= Fraction(1, 2):
        n += 1
    return float(s * n)


def expected_update(df):
    out = df.copy()
    for c, s in (("x", "shift_x"), ("y", "shift_y"), ("z", "shift_z")):
        shifted = df[c].to_numpy(dtype=float) + df[s].to_numpy(dtype=float)
        new = np.array([half_up(v) for v in shifted])
        out[c] = new
        out[s] = shifted - new
    return out


# ----------------------------------------------------------------------------------------------------------
# verbatim copies of the ORIGINAL functions (text of the unmodified tree), bound to the package's own names
# ----------------------------------------------------------------------------------------------------------
ORIG_SRC = '''
class OrigStopgapMotl(Motl):
    pairs = {
        "subtomo_id": "subtomo_num",
        "tomo_id": "tomo_num",
        "object_id": "object",
        "x": "orig_x",
        "y": "orig_y",
        "z": "orig_z",
        "score": "score",
        "shift_x": "x_shift",
        "shift_y": "y_shift",
        "shift_z": "z_shift",
        "phi": "phi",
        "psi": "psi",
        "theta": "the",
        "class": "class",
    }

    columns = [
        "motl_idx",
        "tomo_num",
        "object",
        "subtomo_num",
        "halfset",
        "orig_x",
        "orig_y",
        "orig_z",
        "score",
        "x_shift",
        "y_shift",
        "z_shift",
        "phi",
        "psi",
        "the",
        "class",
    ]

    def __init__(self, input_motl=None):
        super().__init__()
        self.sg_df = pd.DataFrame()

        if input_motl is not None:
            if isinstance(input_motl, OrigStopgapMotl):
                self.df = input_motl.df.copy()
                self.sg_df = input_motl.sg_df.copy()

            elif isinstance(input_motl, pd.DataFrame):
                self.check_df_type(input_motl)
            elif isinstance(input_motl, str):
                sg_df = self.read_in(input_motl)
                self.convert_to_motl(sg_df)
            else:
                raise UserInputError(
                    f"Provided input_motl is neither DataFrame nor path to the motl file: {input_motl}."
                )

    @staticmethod
    def read_in(input_path):
        frames, specifiers, _ = OrigStarfile.read(input_path)

        if "data_stopgap_motivelist" not in specifiers:
            raise UserInputError(f"Provided starfile does not contain particle list: {input_path}.")
        else:
            sg_id = OrigStarfile.get_specifier_id(specifiers, "data_stopgap_motivelist")
            stopgap_df = frames[sg_id]

        return stopgap_df

    def convert_to_motl(self, stopgap_df, keep_halfsets=False):
        self.sg_df = stopgap_df

        for em_key, star_key in OrigStopgapMotl.pairs.items():
            self.df[em_key] = stopgap_df[star_key]

        if keep_halfsets:
            if stopgap_df["halfset"].nunique() == 2:
                self.df["geom3"] = [1.0 if hs.lower() == "a" else 0.0 for hs in stopgap_df["halfset"]]
                halfset_num = self.df["geom3"].values % 2
                c = 1 if halfset_num[0] == 1 else 2
                subtomo_id_num = [c]
                for i in range(1, self.df.shape[0]):
                    if (c % 2 == 1 and halfset_num[i] == 1) or (c % 2 == 0 and halfset_num[i] == 0):
                        c += 2
                    else:
                        c += 1
                    subtomo_id_num.append(c)

                self.df["geom3"] = self.df["subtomo_id"]
                self.df["subtomo_id"] = subtomo_id_num

    @staticmethod
    def convert_to_sg_motl(motl_df, reset_index=False):
        stopgap_df = pd.DataFrame(data=np.zeros((motl_df.shape[0], 16)), columns=OrigStopgapMotl.columns)

        for em_key, star_key in OrigStopgapMotl.pairs.items():
            stopgap_df[star_key] = motl_df[em_key].values

        stopgap_df["halfset"] = np.where(motl_df["subtomo_id"].mod(2).eq(0).to_numpy(), "A", "B")
        stopgap_df["motl_idx"] = stopgap_df["subtomo_num"]

        stopgap_df = OrigStopgapMotl.sg_df_reset_index(stopgap_df, reset_index)

        return stopgap_df

    @staticmethod
    def sg_df_reset_index(stopgap_df, reset_index=False):
        if reset_index:
            stopgap_df["motl_idx"] = range(1, stopgap_df.shape[0] + 1)

        return stopgap_df

    def write_out(self, output_path, update_coord=False, reset_index=False):
        if update_coord:
            self.update_coordinates()

        if output_path.endswith(".star"):
            stopgap_df = OrigStopgapMotl.convert_to_sg_motl(self.df, reset_index)
            stopgap_df.fillna(0, inplace=True)
            OrigStarfile.write([stopgap_df], output_path, specifiers=["data_stopgap_motivelist"])
        elif output_path.endswith(".em"):
            super().write_out(output_path=output_path, motl_type="emmotl")


def orig_stopgap2emmotl(input_motl, output_motl_path=None, update_coordinates=False):
    sg_motl = OrigStopgapMotl(input_motl)
    em_motl = EmMotl(sg_motl.df)

    if update_coordinates:
        em_motl.update_coordinates()

    if output_motl_path is not None:
        em_motl.write_out(output_motl_path)

    return em_motl


def orig_emmotl2stopgap(input_motl, output_motl_path=None, update_coordinates=False, reset_index=False):
    motl = EmMotl(input_motl)
    sg_motl = OrigStopgapMotl(motl.df)

    if update_coordinates:
        sg_motl.update_coordinates()

    if output_motl_path is not None:
        sg_motl.write_out(output_motl_path, update_coord=False, reset_index=reset_index)

    return sg_motl
'''

ORIG_STARFILE_SRC = '''
from enum import Enum


class OTokenType(Enum):
    LITERAL = 0
    NEWLINE = 1
    COMMENT = 2
    LOOP = 3
    PROPERTY = 4


TokenType = OTokenType


class OrigToken:
    def __init__(self, token_type, value, location):
        self.token_type = token_type
        self.value = value
        self.location = (location[0] + 1, location[1] + 1)

    @staticmethod
    def tokenize(text):
        tokens = list()

        # Split the text into several lines
        lines = text.split("\\n")
        for line_number, line in enumerate(lines):
            # The first index of a non-space-or-hash sequence of characters. None means there is no sequence found
            first = None
            for index, char in enumerate(line):
                if not char.isspace() and char != "#":
                    # Set the first index of the sequence if it is None
                    if first is None:
                        first = index
                    continue
                elif first is not None:
                    if line[first] == "_":
                        tokens.append(Token(TokenType.PROPERTY, line[first:index], (line_number, first)))
                    elif line[first:index] == "loop_":
                        tokens.append(Token(TokenType.LOOP, line[first:index], (line_number, first)))
                    else:
                        tokens.append(Token(TokenType.LITERAL, line[first:index], (line_number, first)))

                    # Set that there is no sequence found
                    first = None
                if char == "#":
                    # Anything after the # character is a comment

                    tokens.append(Token(TokenType.COMMENT, line[index + 1 :].strip(), (line_number, index)))
                    break
                elif not char.isspace():
                    raise IOError(f"Got unexpected {char} at (Line {line_number}, Column {index}).")
            if first is not None:
                # Classifies the sequence if there is an end of line

                if line[first] == "_":
                    tokens.append(Token(TokenType.PROPERTY, line[first:], (line_number, first)))
                elif line[first:] == "loop_":
                    tokens.append(Token(TokenType.LOOP, line[first:], (line_number, first)))
                else:
                    tokens.append(Token(TokenType.LITERAL, line[first:], (line_number, first)))

            # Add a NEWLINE token
            tokens.append(Token(TokenType.NEWLINE, None, (line_number, 0)))

        return tokens[::-1]

    @staticmethod
    def parse_newline_or_comments(tokens):
        comments = []
        while True:
            comment_token = Token.check_then_consume(tokens, TokenType.COMMENT)
            if comment_token is not None:
                comments.append(comment_token.value)
            elif not Token.check_then_consume(tokens, TokenType.NEWLINE):
                break
        return comments

    @staticmethod
    def parse_specifier(tokens):
        comments = Token.parse_newline_or_comments(tokens)
        specifier = Token.consume(tokens, TokenType.LITERAL)
        return comments, specifier.value

    @staticmethod
    def parse_columns(tokens):
        comments = Token.parse_newline_or_comments(tokens)
        columns = []
        Token.consume(tokens, TokenType.LOOP)
        Token.consume(tokens, TokenType.NEWLINE)
        while Token.check(tokens, TokenType.PROPERTY):
            column = Token.parse_column(tokens)
            columns.append(column)
        return comments, columns

    @staticmethod
    def parse_column(tokens):
        column = Token.consume(tokens, TokenType.PROPERTY)
        Token.check_then_consume(tokens, TokenType.COMMENT)
        Token.consume(tokens, TokenType.NEWLINE)
        return column.value[1:]

    @staticmethod
    def parse_rows(tokens, columns):
        comments = Token.parse_newline_or_comments(tokens)
        end = False
        rows = []
        while not end:
            data = []
            for i in range(len(columns)):
                token = Token.check_then_consume(tokens, TokenType.LITERAL)
                if token is None:
                    end = True
                    break
                else:
                    data.append(token.value)
            else:
                Token.consume(tokens, TokenType.NEWLINE)
                rows.append(data)
        return comments, pd.DataFrame(rows, columns=columns)

    @staticmethod
    def check(tokens, token_type):
        if len(tokens) == 0:
            # end of the text: nothing is left that could match (e.g. the labels of an empty last block without final newline)
            return False
        if tokens[-1].token_type == token_type:
            return True
        return False

    @staticmethod
    def consume(tokens, token_type):
        if len(tokens) == 0:
            raise IOError(f"Expected {token_type} but there are enough token.")
        if tokens[-1].token_type == token_type:
            return tokens.pop()
        else:
            raise IOError(f"Expected {token_type} but got {tokens[0].token_type} at {tokens[0].location}.")

    @staticmethod
    def check_then_consume(tokens, token_type):
        if len(tokens) > 0 and tokens[-1].token_type == token_type:
            return Token.consume(tokens, token_type)
        return None

    @staticmethod
    def lookahead(tokens, token_type_target, ignores):
        ignores = set(ignores)
        for i in range(len(tokens) - 1, -1, -1):
            if tokens[i].token_type == token_type_target:
                return True
            elif tokens[i].token_type in ignores:
                continue
            else:
                break
        return False


Token = OrigToken


class OrigStarfile:
    @staticmethod
    def read(file_path, data_id=None):
        with open(file_path, mode="r") as file:
            raw_starfile = file.read()

        tokens = Token.tokenize(raw_starfile)
        frames = []
        comments = []
        specifiers = []
        while Token.lookahead(tokens, TokenType.LITERAL, [TokenType.NEWLINE, TokenType.COMMENT]):
            specifier_comments, specifier = Token.parse_specifier(tokens)
            column_comments, columns = Token.parse_columns(tokens)
            rows_comments, data = Token.parse_rows(tokens, columns)
            comments.append(specifier_comments + column_comments + rows_comments)
            specifiers.append(specifier)
            frames.append(data)
        Token.parse_newline_or_comments(tokens)
        if len(tokens) > 0:
            raise IOError(f"Expected a specifier or an end of token but got {tokens[0].token_type}")

        def to_numeric_if_possible(column):
            try:
                return pd.to_numeric(column)
            except (ValueError, TypeError):
                return column

        for i, f in enumerate(frames):
            frames[i] = f.apply(to_numeric_if_possible)

        if data_id is not None:
            return frames[data_id], specifiers[data_id], comments[data_id]
        else:
            return frames, specifiers, comments

    @staticmethod
    def get_specifier_id(speficiers, specifier_id):
        if specifier_id in speficiers:
            return speficiers.index(specifier_id)
        else:
            return None

    @staticmethod
    def write(frames, path, specifiers=None, comments=None, number_columns=True, float_precision=6):
        if specifiers is None:
            specifiers = ["data"] * len(frames)
        if comments is None:
            comments = (None,) * len(frames)

        if len(frames) != len(specifiers) or len(frames) != len(comments) or len(specifiers) != len(comments):
            raise ValueError(
                f"Invalid size of the lists found. "
                f"The sizes are (frames: {len(frames)}), "
                f"(specifiers: {len(specifiers)}), "
                f"and (comments: {len(comments)})."
            )

        for i, f in enumerate(frames):
            frames[i] = f.round(float_precision)

        with open(path, "w") as file:

            def write_with_number(name, number):
                file.write(f"_{name} #{number}\\n")

            def write_without_number(name, _):
                file.write(f"_{name}\\n")

            def format_value(value):
                return "{:<10}".format(str(value))

            for frame, specifier, comment in zip(frames, specifiers, comments):
                # DataFrame.applymap was renamed to DataFrame.map in pandas 2.1 and removed in pandas 3
                frame = frame.map(format_value) if hasattr(frame, "map") else frame.applymap(format_value)
                stopgap = "stopgap" in specifier
                write_function = write_without_number if not number_columns or stopgap else write_with_number
                if comment is not None:
                    for c in comment:
                        file.write(f"\\n# {c}")
                    file.write("\\n")
                file.write(f"\\n{specifier}\\n\\n")
                file.write("loop_\\n")
                for index, column in enumerate(frame.columns, 1):
                    write_function(column, index)
                if stopgap:
                    file.write("\\n")

                for row in frame.itertuples(index=False):
                    file.write("\\t".join(map(str, row)) + "\\n")
                file.write("\\n")
'''

_ns_star = {"pd": pd}
exec(compile(ORIG_STARFILE_SRC, "<orig starfileio>", "exec"), _ns_star)
OrigStarfile = _ns_star["OrigStarfile"]
OrigToken = _ns_star["OrigToken"]
_ns = {"Motl": Motl, "EmMotl": EmMotl, "pd": pd, "np": np, "UserInputError": UserInputError,
       "OrigStarfile": OrigStarfile}
exec(compile(ORIG_SRC, "<orig cryomotl>", "exec"), _ns)
OrigStopgapMotl = _ns["OrigStopgapMotl"]
orig_stopgap2emmotl = _ns["orig_stopgap2emmotl"]
orig_emmotl2stopgap = _ns["orig_emmotl2stopgap"]


# ----------------------------------------------------------------------------------------------------------
# inputs
# ----------------------------------------------------------------------------------------------------------
def make_motl(rng, n, mode):
    """particle list with n rows; mode selects the value regime"""
    if mode == "small":
        data = rng.normal(0, 50, size=(n, 20))
    elif mode == "wide":
        data = rng.normal(0, 1, size=(n, 20)) * 10.0 ** rng.integers(-9, 12, size=(n, 20))
    elif mode == "ints":
        data = rng.integers(-500, 500, size=(n, 20)).astype(float)
    elif mode == "ties":
        data = rng.integers(-40, 40, size=(n, 20)).astype(float) / 2.0  # .5 ties for update_coord
    elif mode == "zeros":
        data = np.zeros((n, 20))
        data[::2] = -0.0
    else:
        raise ValueError(mode)
    df = pd.DataFrame(data, columns=MOTL_COLUMNS)
    # non-sequential, unsorted, unique subtomogram numbers of both parities (sometimes negative / zero / repeated)
    ids = rng.choice(np.arange(-50, 100000), size=n, replace=False).astype(float)
    if n > 3 and rng.random() < 0.3:
        ids[1] = ids[0]
    if rng.random() < 0.3:
        ids[rng.integers(0, n)] = 0.0
    df["subtomo_id"] = ids
    df["tomo_id"] = rng.integers(1, 400, size=n).astype(float)
    df["object_id"] = rng.integers(1, 5000, size=n).astype(float)
    df["class"] = rng.integers(0, 9, size=n).astype(float)
    return df


def expect_halfset(ids):
    return np.array(["A" if int(v) % 2 == 0 else "B" for v in ids], dtype=object)


# ----------------------------------------------------------------------------------------------------------
# checks
# ----------------------------------------------------------------------------------------------------------
def check_sg_df(tag, sg, df, reset_index, cls_name="StopgapMotl"):
    """sg (stopgap frame produced from the particle list df) obeys the property"""
    if list(sg.columns) != SG_COLUMNS:
        fail(f"{tag}: columns {list(sg.columns)}")
        return
    if sg.shape[0] != df.shape[0]:
        fail(f"{tag}: row count {sg.shape[0]} != {df.shape[0]}")
        return
    for em, st in RENAME:
        if not same(sg[st].to_numpy(), df[em].to_numpy()):
            fail(f"{tag}: field {em}->{st} not copied unchanged / in order")
    if not np.array_equal(sg["halfset"].to_numpy().astype(object), expect_halfset(df["subtomo_id"].to_numpy())):
        fail(f"{tag}: halfset parity")
    exp_idx = np.arange(1, df.shape[0] + 1, dtype=float) if reset_index else df["subtomo_id"].to_numpy(dtype=float)
    if not same(sg["motl_idx"].to_numpy(dtype=float), exp_idx):
        fail(f"{tag}: motl_idx (reset_index={reset_index})")


def check_same_frames(tag, a, b):
    if list(a.columns) != list(b.columns):
        fail(f"{tag}: columns differ from original: {list(a.columns)} vs {list(b.columns)}")
        return
    if a.shape != b.shape or not a.index.equals(b.index):
        fail(f"{tag}: shape/index differ from original")
        return
    for c in a.columns:
        x, y = a[c].to_numpy(), b[c].to_numpy()
        if x.dtype.kind in "fiu" and y.dtype.kind in "fiu":
            if x.dtype != y.dtype or not same(x, y):
                fail(f"{tag}: column {c} differs from original")
        else:
            if not np.array_equal(x.astype(object), y.astype(object)):
                fail(f"{tag}: column {c} differs from original")


def check_file(tag, path, df, reset_index):
    """the written .star parsed independently holds the 14 fields of df to STAR precision"""
    blocks = parse_star(path)
    if list(blocks) != ["data_stopgap_motivelist"]:
        fail(f"{tag}: specifiers {list(blocks)}")
        return
    cols, rows = blocks["data_stopgap_motivelist"]
    if cols != SG_COLUMNS:
        fail(f"{tag}: file columns {cols}")
        return
    if len(rows) != df.shape[0] or any(len(r) != 16 for r in rows):
        fail(f"{tag}: file row count/width")
        return
    tab = {c: [r[i] for r in rows] for i, c in enumerate(cols)}
    for em, st in RENAME:
        got = np.array([float(v) for v in tab[st]])
        want = df[em].to_numpy(dtype=float)
        if not np.array_equal(got, np.round(want, 6)):
            fail(f"{tag}: file field {st} != round({em}, 6)")
        if not np.all(np.abs(got - want) <= 0.5e-6 + 1e-15 * np.abs(want)):
            fail(f"{tag}: file field {st} outside STAR precision")
    if tab["halfset"] != list(expect_halfset(df["subtomo_id"].to_numpy())):
        fail(f"{tag}: file halfset")
    idx = np.array([float(v) for v in tab["motl_idx"]])
    exp_idx = np.arange(1, df.shape[0] + 1, dtype=float) if reset_index else df["subtomo_id"].to_numpy(dtype=float)
    if not np.array_equal(idx, exp_idx):
        fail(f"{tag}: file motl_idx")


def check_loaded(tag, motl_df, df):
    """particle list loaded back from the file holds the 14 fields of df to STAR precision, same order"""
    if list(motl_df.columns) != MOTL_COLUMNS:
        fail(f"{tag}: loaded columns {list(motl_df.columns)}")
        return
    if motl_df.shape[0] != df.shape[0]:
        fail(f"{tag}: loaded row count")
        return
    for em, _ in RENAME:
        got = motl_df[em].to_numpy(dtype=float)
        want = df[em].to_numpy(dtype=float)
        # pandas' text-to-float conversion may be off by an ulp, hence the small relative term
        if not np.all(np.abs(got - np.round(want, 6)) <= 1e-14 * np.abs(want)):
            fail(f"{tag}: loaded field {em} is not the written value")
        if not np.all(np.abs(got - want) <= 0.5e-6 + 1e-14 * np.abs(want)):
            fail(f"{tag}: loaded field {em} outside STAR precision")


def file_text(path):
    with open(path) as fh:
        return fh.read()


def run_property(rng, tmp):
    sizes = [1, 2, 3, 5, 17, 64, 300]
    modes = ["small", "wide", "ints", "ties", "zeros"]
    case = 0
    for n in sizes:
        for mode in modes:
            case += 1
            df = make_motl(rng, n, mode)
            tag0 = f"n={n} {mode}"

            # --- in-memory, static conversion, on a frame with a non-default index as well
            shuffled = df.copy()
            shuffled.index = rng.permutation(n) * 3 + 7
            for reset in (False, True):
                for frame, ftag in ((df, "rangeidx"), (shuffled, "oddidx")):
                    before = frame.copy()
                    sg = StopgapMotl.convert_to_sg_motl(frame, reset_index=reset)
                    check_sg_df(f"{tag0} sg {ftag} reset={reset}", sg, frame, reset)
                    check_same_frames(f"{tag0} sg-vs-orig {ftag} reset={reset}", sg,
                                      OrigStopgapMotl.convert_to_sg_motl(frame, reset_index=reset))
                    check_same_frames(f"{tag0} input untouched {ftag}", frame, before)
                    # positional form of the option and the default
                    check_same_frames(f"{tag0} sg positional", StopgapMotl.convert_to_sg_motl(frame, reset), sg)
                if not reset:
                    check_same_frames(f"{tag0} sg default", StopgapMotl.convert_to_sg_motl(df), sg)

            # --- sg_df_reset_index on its own
            sg = StopgapMotl.convert_to_sg_motl(df)
            for reset in (False, True):
                got = StopgapMotl.sg_df_reset_index(sg.copy(), reset_index=reset)
                want = OrigStopgapMotl.sg_df_reset_index(sg.copy(), reset_index=reset)
                check_same_frames(f"{tag0} sg_df_reset_index {reset}", got, want)
            check_same_frames(f"{tag0} sg_df_reset_index default", StopgapMotl.sg_df_reset_index(sg.copy()), sg)

            # --- back conversion in memory: stopgap frame -> particle list
            m = StopgapMotl()
            m.convert_to_motl(sg)
            o = OrigStopgapMotl()
            o.convert_to_motl(sg)
            check_same_frames(f"{tag0} convert_to_motl vs orig", m.df, o.df)
            for em, st in RENAME:
                if not same(m.df[em].to_numpy(), df[em].to_numpy()):
                    fail(f"{tag0}: convert_to_motl field {em}")
            if m.sg_df is not sg:
                fail(f"{tag0}: sg_df not kept")
            # keep_halfsets variant against the original (outside the 14-field statement but same functions)
            m2, o2 = StopgapMotl(), OrigStopgapMotl()
            m2.convert_to_motl(sg, keep_halfsets=True)
            o2.convert_to_motl(sg, keep_halfsets=True)
            check_same_frames(f"{tag0} keep_halfsets vs orig", m2.df, o2.df)
            # second call on the same object with another list
            other = make_motl(rng, n, "small")
            sg_other = StopgapMotl.convert_to_sg_motl(other, reset_index=True)
            m.convert_to_motl(sg_other)
            o.convert_to_motl(sg_other)
            check_same_frames(f"{tag0} convert_to_motl 2nd call vs orig", m.df, o.df)
            for em, st in RENAME:
                if not same(m.df[em].to_numpy(), other[em].to_numpy()):
                    fail(f"{tag0}: convert_to_motl 2nd call field {em}")

            # --- via file: constructor from a frame, write, independent parse, load back; repeated on the
            #     same object after in-place edits, to the same and to another path, in varying option order
            obj = StopgapMotl(df)
            oobj = OrigStopgapMotl(df)
            check_same_frames(f"{tag0} ctor df", obj.df, oobj.df)
            p1 = os.path.join(tmp, f"c{case}_1.star")
            p2 = os.path.join(tmp, f"c{case}_2.star")
            po = os.path.join(tmp, f"c{case}_o.star")
            order = [(False, False), (True, False), (False, True), (True, True)]
            if case % 2:
                order = order[::-1]
            if mode == "wide" or n > 64:
                order = [o_ for o_ in order if not o_[1]] if mode == "wide" else order[:3]
            for step, (reset, upd) in enumerate(order):
                path = p1 if step % 2 == 0 else p2
                cur = obj.df.copy()
                exp = expected_update(cur) if upd else cur
                if step % 3 == 0:
                    obj.write_out(path, update_coord=upd, reset_index=reset)
                elif step % 3 == 1:
                    obj.write_out(path, upd, reset)
                else:
                    obj.write_out(output_path=path, reset_index=reset, update_coord=upd)
                oobj.write_out(po, update_coord=upd, reset_index=reset)
                t = f"{tag0} step{step} reset={reset} upd={upd}"
                if file_text(path) != file_text(po):
                    fail(f"{t}: file text differs from original writer")
                check_same_frames(f"{t} df after write vs orig", obj.df, oobj.df)
                if upd:
                    for c in MOTL_COLUMNS:
                        # value equality (the sign of a zero is not part of the property)
                        if not np.array_equal(obj.df[c].to_numpy(dtype=float), exp[c].to_numpy(dtype=float)):
                            fail(f"{t}: update_coordinates field {c}")
                check_file(t, path, exp, reset)
                for rep in range(2):  # load twice: same path, same content
                    back = StopgapMotl(path)
                    check_loaded(f"{t} load{rep}", back.df, exp)
                    oback = OrigStopgapMotl(path)
                    check_same_frames(f"{t} load{rep} vs orig", back.df, oback.df)
                    check_same_frames(f"{t} load{rep} sg_df vs orig", back.sg_df, oback.sg_df)
                    check_same_frames(f"{t} read_in{rep} vs orig", StopgapMotl.read_in(path),
                                      OrigStopgapMotl.read_in(path))
                # loaded sg_df: motl_idx / halfset survive the file
                check_file_sg = back.sg_df
                if list(check_file_sg["halfset"]) != list(expect_halfset(exp["subtomo_id"].to_numpy())):
                    fail(f"{t}: loaded halfset")
                # wrappers
                em = cryomotl.stopgap2emmotl(path)
                check_loaded(f"{t} stopgap2emmotl", em.df, exp)
                check_same_frames(f"{t} stopgap2emmotl vs orig", em.df, orig_stopgap2emmotl(path).df)
                # copy constructor
                cp = StopgapMotl(back)
                check_same_frames(f"{t} copy ctor df", cp.df, back.df)
                check_same_frames(f"{t} copy ctor sg_df", cp.sg_df, back.sg_df)
                # in-place edits of the same object before the next round (same path gets new content)
                k = int(rng.integers(0, n))
                for o_ in (obj, oobj):
                    o_.df.loc[k, "subtomo_id"] = o_.df.loc[k, "subtomo_id"] + 1.0
                    o_.df.loc[k, "psi"] = -o_.df.loc[k, "psi"] + 0.25
                    o_.df["score"] = o_.df["score"].to_numpy()[::-1].copy()
                    o_.df.loc[:, "shift_x"] = o_.df["shift_x"] * 0.5

            # --- emmotl2stopgap wrapper (frame in, file out), both resets, with and without update
            for reset in (False, True):
                for upd in ((False, True) if (mode != "wide" and n <= 64) else (False,)):
                    pw = os.path.join(tmp, f"c{case}_w.star")
                    exp = expected_update(df) if upd else df
                    w = cryomotl.emmotl2stopgap(df, pw, update_coordinates=upd, reset_index=reset)
                    ow = orig_emmotl2stopgap(df, po, update_coordinates=upd, reset_index=reset)
                    t = f"{tag0} emmotl2stopgap reset={reset} upd={upd}"
                    if file_text(pw) != file_text(po):
                        fail(f"{t}: file text differs from original")
                    check_same_frames(f"{t} df vs orig", w.df, ow.df)
                    check_file(t, pw, exp, reset)
                    check_loaded(t, StopgapMotl(pw).df, exp)
            w = cryomotl.emmotl2stopgap(df)
            check_same_frames(f"{tag0} emmotl2stopgap no file", w.df, df)


def run_errors(tmp):
    # behaviour at the documented failure points is unchanged
    p = os.path.join(tmp, "other.star")
    OrigStarfile.write([pd.DataFrame({"a": [1.0, 2.0], "b": ["x", "y"]})], p, specifiers=["data_other"])
    for cls in (StopgapMotl, OrigStopgapMotl):
        try:
            cls.read_in(p)
            fail(f"{cls.__name__}.read_in accepted a file without data_stopgap_motivelist")
        except UserInputError:
            pass
        try:
            cls(12345)
            fail(f"{cls.__name__} accepted a number as input")
        except UserInputError:
            pass


def run_starfile_generic(rng, tmp):
    """generic Starfile read/write/get_specifier_id behaviour against the original text (several blocks,
    comments, numbered columns)"""
    S = starfileio.Starfile
    for rep in range(12):
        n1, n2 = int(rng.integers(1, 8)), int(rng.integers(1, 8))
        f1 = pd.DataFrame({"rlnA": rng.normal(size=n1), "rlnB": rng.integers(0, 9, size=n1),
                           "rlnName": [f"t_{i}.mrc" for i in range(n1)]})
        f2 = pd.DataFrame(rng.normal(size=(n2, 3)) * 1e3, columns=["x", "y", "z"])
        specs = ["data_optics", "data_particles"]
        comments = [["version 1", "made by demo"], None] if rep % 2 else None
        for numbered in (True, False):
            pa, pb = os.path.join(tmp, "g_a.star"), os.path.join(tmp, "g_b.star")
            S.write([f1.copy(), f2.copy()], pa, specifiers=list(specs), comments=comments, number_columns=numbered)
            OrigStarfile.write([f1.copy(), f2.copy()], pb, specifiers=list(specs), comments=comments,
                               number_columns=numbered)
            if file_text(pa) != file_text(pb):
                fail(f"generic write differs (rep {rep}, numbered {numbered})")
            for again in range(2):
                fa, sa, ca = S.read(pa)
                fb, sb, cb = OrigStarfile.read(pa)
                if sa != sb or ca != cb or len(fa) != len(fb):
                    fail(f"generic read differs (rep {rep})")
                for x, y in zip(fa, fb):
                    check_same_frames(f"generic read frame rep {rep}", x, y)
                for name in specs + ["data_missing", "data"]:
                    if S.get_specifier_id(sa, name) != OrigStarfile.get_specifier_id(sb, name):
                        fail(f"get_specifier_id differs for {name}")
                one, s1, c1 = S.read(pa, data_id=1)
                check_same_frames("generic read data_id", one, fb[1])
                fr, cm = S.get_frame_and_comments(pa, "data_particles")
                check_same_frames("get_frame_and_comments", fr, fb[1])
            # default specifiers / precision
            S.write([f2.copy()], pa, float_precision=3)
            OrigStarfile.write([f2.copy()], pb, float_precision=3)
            if file_text(pa) != file_text(pb):
                fail("generic write (defaults, precision 3) differs")


def run_tokenizer(rng, tmp):
    """Token.tokenize against the original text: same token stream for many texts, independent lists on
    repeated calls (a consumer pops from the list it is given)"""
    T = starfileio.Token
    texts = ["", "\n", "data_\n", "# only a comment", "data_x\n\nloop_\n_a #1\n_b #2\n1 2\n3 4\n",
             "data_x # trailing\nloop_\n_a\n  1.5\t\n\n", "a#b\n#c d  \n loop_ _x y#z", "\t \n  \n"]
    obj = StopgapMotl(make_motl(rng, 9, "small"))
    p = os.path.join(tmp, "tok.star")
    obj.write_out(p)
    texts.append(file_text(p))
    obj.df["phi"] = obj.df["phi"] + 1.0
    obj.write_out(p, reset_index=True)
    texts.append(file_text(p))
    alphabet = list("ab_1.#- \t\n") + ["loop_", "data_q", "_rlnX"]
    for _ in range(300):
        texts.append("".join(rng.choice(alphabet, size=int(rng.integers(0, 40)))))

    def stream(tokens):
        return [(t.token_type.name, t.value, t.location) for t in tokens]

    for text in texts + texts[::-1]:
        want = stream(OrigToken.tokenize(text))
        first = T.tokenize(text)
        if not isinstance(first, list):
            fail("tokenize does not return a list")
        if stream(first) != want:
            fail(f"tokenize differs on {text!r}")
        # a consumer empties / edits its list; the next call must not see that
        while first:
            first.pop()
        second = T.tokenize(text)
        if stream(second) != want:
            fail(f"tokenize second call differs on {text!r}")
        second.reverse()
        second.append(None)
        third = T.tokenize(text)
        if stream(third) != want or third is second:
            fail(f"tokenize third call differs on {text!r}")


def run_many_files(rng, tmp):
    """more distinct files than any small memo holds, read round-robin; one path overwritten alternately with
    different particle lists and read after every write -- always against the original reader"""
    paths, lists = [], []
    for i in range(13):
        df = make_motl(rng, int(rng.integers(1, 12)), "small")
        pth = os.path.join(tmp, f"many_{i}.star")
        StopgapMotl(df).write_out(pth, reset_index=bool(i % 2))
        paths.append(pth)
        lists.append(df)
    for rnd in range(3):
        order = rng.permutation(13) if rnd else range(13)
        for i in order:
            back = StopgapMotl(paths[i])
            check_loaded(f"many round {rnd} file {i}", back.df, lists[i])
            check_same_frames(f"many round {rnd} file {i} vs orig", back.df, OrigStopgapMotl(paths[i]).df)
            fa, sa, ca = starfileio.Starfile.read(paths[i])
            fb, sb, cb = OrigStarfile.read(paths[i])
            if sa != sb or ca != cb:
                fail("many: specifiers/comments differ")
            check_same_frames("many frames", fa[0], fb[0])
            fa[0].iloc[:, 1] = -1.0  # a caller editing the returned frame must not affect later reads
    same_path = os.path.join(tmp, "many_same.star")
    a, b = make_motl(rng, 6, "ints"), make_motl(rng, 6, "ints")
    for k in range(6):
        cur = a if k % 2 == 0 else b
        StopgapMotl(cur).write_out(same_path)
        check_loaded(f"many same path {k}", StopgapMotl(same_path).df, cur)
        check_file(f"many same path {k}", same_path, cur, False)


def run_signatures():
    """public call forms used today keep working"""
    sig = inspect.signature(StopgapMotl.convert_to_sg_motl)
    if list(sig.parameters)[:2] != ["motl_df", "reset_index"] or sig.parameters["reset_index"].default is not False:
        fail(f"convert_to_sg_motl signature {sig}")
    sig = inspect.signature(StopgapMotl.write_out)
    if list(sig.parameters)[:4] != ["self", "output_path", "update_coord", "reset_index"]:
        fail(f"write_out signature {sig}")
    if sig.parameters["update_coord"].default is not False or sig.parameters["reset_index"].default is not False:
        fail(f"write_out defaults {sig}")
    sig = inspect.signature(StopgapMotl.convert_to_motl)
    if list(sig.parameters)[:3] != ["self", "stopgap_df", "keep_halfsets"]:
        fail(f"convert_to_motl signature {sig}")
    if sig.parameters["keep_halfsets"].default is not False:
        fail(f"convert_to_motl default {sig}")
    sig = inspect.signature(cryomotl.emmotl2stopgap)
    if list(sig.parameters) != ["input_motl", "output_motl_path", "update_coordinates", "reset_index"]:
        fail(f"emmotl2stopgap signature {sig}")
    sig = inspect.signature(cryomotl.stopgap2emmotl)
    if list(sig.parameters) != ["input_motl", "output_motl_path", "update_coordinates"]:
        fail(f"stopgap2emmotl signature {sig}")
    sig = inspect.signature(starfileio.Starfile.write)
    if list(sig.parameters) != ["frames", "path", "specifiers", "comments", "number_columns", "float_precision"]:
        fail(f"Starfile.write signature {sig}")
    if sig.parameters["float_precision"].default != 6 or sig.parameters["number_columns"].default is not True:
        fail(f"Starfile.write defaults {sig}")
    if len(inspect.signature(starfileio.Starfile.get_specifier_id).parameters) != 2:
        fail("get_specifier_id arity")
    if StopgapMotl.columns != SG_COLUMNS or dict(StopgapMotl.pairs) != {a: b for a, b in RENAME}:
        fail("pairs / columns tables changed")


def main():
    rng = np.random.default_rng(20240404)
    with tempfile.TemporaryDirectory() as tmp:
        run_signatures()
        run_errors(tmp)
        run_tokenizer(rng, tmp)
        run_starfile_generic(rng, tmp)
        run_many_files(rng, tmp)
        run_property(rng, tmp)
        # and once more in another order, on fresh random inputs (any memo is warm now)
        run_tokenizer(rng, tmp)
        run_property(np.random.default_rng(7), tmp)
        run_many_files(rng, tmp)
        run_starfile_generic(rng, tmp)
    if FAILS:
        print(f"FAIL ({len(FAILS)} failures)")
        sys.exit(1)
    print("PASS")


if __name__ == "__main__":
    main()
