"""C07 / change c -- geom.point_pairwise_dist: np.linalg.norm(axis=1) spelled out as sqrt(sum(square(diff))).

1. Property check of Motl.clean_by_distance (which takes every distance from point_pairwise_dist) against an
   independent brute-force computation with math.dist: separation inside every group, domination of every removed
   particle by a remaining one of its own group with an equal or better score, independence of the groups.
2. point_pairwise_dist against math.dist / exact lattice distances (0, 3-4-5, thresholds hit exactly).
3. point_pairwise_dist of the worktree against the ORIGINAL function text (kept below), bit for bit, over element
   types, shapes, memory layouts, NaN / inf, complex and masked input; clean_by_distance with the worktree function
   against clean_by_distance with the original function patched in.
Run: cd /tmp/wt7/C07 && /venv/bin/python /tmp/seedsT/C07/c/demo.py
"""
import sys, os

sys.path.insert(0, os.getcwd())
import io, contextlib, math, warnings

warnings.filterwarnings("ignore")
import numpy as np
import pandas as pd
from cryocat import geom, cryomotl
from cryocat.cryomotl import Motl

ORIGINAL = '''
def point_pairwise_dist_orig(coord_1, coord_2):
    if coord_1.shape[0] == 1 and coord_2.shape[0] != 1:
        coord_1 = np.tile(coord_1, (coord_2.shape[0], 1))

    coord_1 = np.atleast_2d(coord_1)
    coord_2 = np.atleast_2d(coord_2)
    # Squares of the distances
    pairwise_dist = np.linalg.norm(coord_1 - coord_2, axis=1)

    pairwise_dist = np.where(isinstance(pairwise_dist, complex), 0.0, pairwise_dist)

    return pairwise_dist
'''
_ns = dict(vars(geom))
exec(ORIGINAL, _ns)
ppd_orig = _ns["point_pairwise_dist_orig"]
ppd_new = geom.point_pairwise_dist

FAIL = []


def check(cond, msg):
    if not cond:
        FAIL.append(msg)
        if len(FAIL) < 20:
            print("FAIL:", msg)


def quiet(fn, *a, **k):
    with contextlib.redirect_stdout(io.StringIO()):
        return fn(*a, **k)


def identical(a, b):
    """Same container type, element type, shape and the same values bit for bit (NaN == NaN, -0.0 != 0.0; the
    padding bytes of long doubles are not looked at)."""
    if not (type(a) is type(b) and a.dtype == b.dtype and a.shape == b.shape):
        return False
    a, b = np.asarray(a), np.asarray(b)
    if a.dtype.kind == "c":
        return identical(a.real, b.real) and identical(a.imag, b.imag)
    if a.dtype.kind == "f":
        return np.array_equal(a, b, equal_nan=True) and np.array_equal(np.signbit(a), np.signbit(b))
    return np.array_equal(a, b)


def both(c1, c2, tag):
    res = []
    for fn in (ppd_new, ppd_orig):
        try:
            res.append(fn(c1, c2))
        except Exception as e:
            res.append(("EXC", type(e).__name__))
    if isinstance(res[0], tuple) or isinstance(res[1], tuple):
        check(isinstance(res[0], tuple) and isinstance(res[1], tuple) and res[0] == res[1], f"{tag}: exception mismatch {res}")
        return None
    check(identical(res[0], res[1]), f"{tag}: patched vs original differ (dtype {res[0].dtype}/{res[1].dtype}, shape {res[0].shape}/{res[1].shape})")
    return res[0]


rng = np.random.default_rng(77)
n_fn = 0

# --- 3. patched vs original, bit for bit ---------------------------------------------------------------------------
dtypes = [np.float64, np.float32, np.float16, np.longdouble, np.int64, np.int32, np.int8, np.uint8, np.uint16, np.complex128, np.complex64, object, bool]
for dt in dtypes:
    for n in (0, 1, 2, 3, 4, 7, 8, 9, 33, 400):
        for dim in (1, 2, 3, 5, 8, 9):
            if np.dtype(dt).kind in "iu":
                info = np.iinfo(dt)
                lo, hi = max(info.min, -100), min(info.max, 100)
                a = rng.integers(lo, hi, (n, dim)).astype(dt)
                b = rng.integers(lo, hi, (n, dim)).astype(dt)
            elif np.dtype(dt).kind == "c":
                a = (rng.normal(size=(n, dim)) + 1j * rng.normal(size=(n, dim))).astype(dt)
                b = (rng.normal(size=(n, dim)) + 1j * rng.normal(size=(n, dim))).astype(dt)
            elif dt is bool:
                a = rng.random((n, dim)) < 0.5
                b = rng.random((n, dim)) < 0.5
            else:
                a = (rng.normal(size=(n, dim)) * 10 ** rng.uniform(-3, 3)).astype(dt)
                b = (rng.normal(size=(n, dim)) * 10 ** rng.uniform(-3, 3)).astype(dt)
            tag = f"dtype={np.dtype(dt).name} n={n} dim={dim}"
            both(a, b, tag)
            both(np.asfortranarray(a), b, tag + " F-order")
            if n:
                both(a[0], b, tag + " 1-D point vs list")  # the call made by clean_by_distance
                both(a[:1], b, tag + " single row vs list")  # tiled
                both(a, b[:1], tag + " list vs single row")  # broadcast
                both(a[n // 2], b[n // 2], tag + " 1-D vs 1-D")
                both(a[::2], b[::2], tag + " strided")
                both(a[::-1], b, tag + " reversed view")
                both(a, a, tag + " zeros")
            n_fn += 1
# mixed element types, special values, other containers
a = rng.normal(size=(50, 3))
b = rng.integers(-5, 5, (50, 3))
both(a, b, "float vs int")
both(b, a.astype(np.float32), "int vs float32")
both(b.astype(np.int32), b[::-1].astype(np.int64), "int32 vs int64")
c = a.copy()
c[3, 1] = np.nan
c[7, 0] = np.inf
c[9, 2] = -np.inf
c[11] = 0.0
both(c, a, "NaN / inf")
both(c, c, "NaN / inf vs itself")
both(a * 1e200, -a * 1e200, "overflow")
both(a * 1e-200, -a * 1e-200, "underflow")
both(np.ma.masked_array(a, mask=a > 1.0), a[::-1], "masked array")
both(np.asmatrix(a), np.asmatrix(a[::-1]), "matrix")
both(pd.DataFrame(a), pd.DataFrame(a[::-1].copy()), "DataFrames")
both(pd.Series(a[0]), pd.Series(a[1]), "Series (as in the tube helper of geom)")
both(rng.normal(size=(4, 3, 2)), rng.normal(size=(4, 3, 2)), "3-D stacks")
both(rng.normal(size=(1, 3)), rng.normal(size=3), "single row vs 1-D (tiled 3 times)")
both(a.astype("datetime64[s]"), a.astype("datetime64[s]")[::-1], "datetimes")
both(a[:, :0], a[:, :0], "zero columns")

# --- 2. distances against an independent computation ----------------------------------------------------------------
for it in range(300):
    n = int(rng.integers(1, 60))
    a = rng.uniform(-500, 500, (n, 3))
    b = rng.uniform(-500, 500, (n, 3))
    got = ppd_new(a[0], b)
    exp = np.array([math.dist(a[0].tolist(), r) for r in b.tolist()])
    check(got.shape == (n,) and np.allclose(got, exp, rtol=1e-14, atol=0.0), f"distance to a list, n={n}")
    got = ppd_new(a, b)
    exp = np.array([math.dist(p, q) for p, q in zip(a.tolist(), b.tolist())])
    check(got.shape == (n,) and np.allclose(got, exp, rtol=1e-14, atol=0.0), f"row-wise distance, n={n}")
lat = np.array([[0, 0, 0], [3, 4, 0], [0, 3, 4], [-3, 0, -4], [1, 2, 2], [2, 3, 6], [0, 0, 0.5], [1.5, 2, 0], [6, 6, 7]], dtype=float)
exact = np.array([0.0, 5.0, 5.0, 5.0, 3.0, 7.0, 0.5, 2.5, 11.0])
for dt in (np.float64, np.float32, np.int64):
    pts = lat if dt is not np.int64 else lat[[0, 1, 2, 3, 4, 5, 8]]
    ex = exact if dt is not np.int64 else exact[[0, 1, 2, 3, 4, 5, 8]]
    got = ppd_new(pts[0].astype(dt), pts.astype(dt))
    check(np.array_equal(got, ex), f"exact lattice distances {np.dtype(dt).name}: {got}")
    off = np.array([17.0, -4.0, 250.0]).astype(dt)
    got = ppd_new((pts[0] + 0).astype(dt) + off, pts.astype(dt) + off)
    check(np.array_equal(got, ex), f"exact lattice distances, shifted origin {np.dtype(dt).name}")

# --- 1. clean_by_distance: property + patched vs original ------------------------------------------------------------
COLS = list(Motl.motl_columns)


def make_df(n, n_groups, feature, metric, kind, d):
    df = pd.DataFrame(0.0, index=np.arange(n), columns=COLS)
    for c in ("geom1", "geom2", "geom3", "geom4", "geom5", "subtomo_mean", "class", "object_id", "tomo_id"):
        df[c] = rng.integers(1, 4, n).astype(float)
    df[["phi", "theta", "psi"]] = rng.uniform(-180, 180, (n, 3))
    if kind == "float":
        centres = rng.uniform(-50, 50, (max(1, n // 6), 3))
        pos = centres[rng.integers(0, len(centres), n)] + rng.normal(scale=d * 0.7, size=(n, 3))
        shift = rng.uniform(-0.5, 0.5, (n, 3))
        xyz = np.round(pos - shift)
        df[["x", "y", "z"]] = xyz
        df[["shift_x", "shift_y", "shift_z"]] = pos - xyz
    else:
        df[["x", "y", "z"]] = rng.integers(-6, 7, (n, 3)).astype(float)
        if rng.random() < 0.5:
            df[["shift_x", "shift_y", "shift_z"]] = rng.integers(-1, 2, (n, 3)) * 0.5
    groups = rng.choice([-3.0, 0.0, 1.0, 2.0, 17.0, 104.0], size=n_groups, replace=False)
    df[feature] = groups[rng.integers(0, n_groups, n)]
    df[metric] = rng.permutation(n) * rng.uniform(0.01, 2.0) - rng.uniform(0, n)
    df["subtomo_id"] = rng.permutation(n) + 1.0
    return df


def positions(df):
    return (df[["x", "y", "z"]].to_numpy() + df[["shift_x", "shift_y", "shift_z"]].to_numpy()).tolist()


def no_distance_ties(df, d):
    p = positions(df)
    return all(abs(math.dist(p[i], p[j]) - d) > 1e-7 for i in range(len(p)) for j in range(i))


def reference_keep(df, d, feature, metric, keep_greater):
    p, f, s = positions(df), df[feature].tolist(), df[metric].tolist()
    kept_all = []
    for g in sorted(set(f)):
        idx = [i for i in range(len(f)) if f[i] == g]
        alive = dict.fromkeys(idx, True)
        for i in sorted(idx, key=lambda i: s[i], reverse=keep_greater):
            if alive[i]:
                for k in idx:
                    if k != i and alive[k] and math.dist(p[i], p[k]) < d:
                        alive[k] = False
        kept_all += [i for i in idx if alive[i]]
    return kept_all


def property_check(before, after, d, feature, metric, keep_greater, tag):
    p, f, s = positions(before), before[feature].tolist(), before[metric].tolist()
    pos_of = {sid: i for i, sid in enumerate(before["subtomo_id"].tolist())}
    kept_pos = [pos_of[sid] for sid in after["subtomo_id"].tolist()]
    check(len(set(kept_pos)) == len(kept_pos), f"{tag}: a row remains twice")
    check(np.array_equal(after.to_numpy(), before.iloc[kept_pos].to_numpy()), f"{tag}: content of remaining rows changed")
    kept = set(kept_pos)
    better = (lambda a, b: a >= b) if keep_greater else (lambda a, b: a <= b)
    for g in set(f):
        idx = [i for i in range(len(f)) if f[i] == g]
        kg = [i for i in idx if i in kept]
        check(all(not (math.dist(p[a], p[b]) < d) for a in kg for b in kg if a != b), f"{tag}: two remaining particles closer than d")
        for i in idx:
            if i not in kept:
                check(any(math.dist(p[i], p[k]) < d and better(s[k], s[i]) for k in kg), f"{tag}: removed particle not dominated inside its group")
    check(reference_keep(before, d, feature, metric, keep_greater) == kept_pos, f"{tag}: differs from the brute-force greedy")
    for g in sorted(set(f)):  # groups never affect each other
        m = Motl(before.loc[before[feature] == g].copy())
        quiet(m.clean_by_distance, d, feature, metric_id=metric, keep_greater=keep_greater)
        check(np.array_equal(m.df.to_numpy(), after.loc[after[feature] == g].to_numpy()), f"{tag}: group {g} cleaned alone differs")


FIELDS = ["tomo_id", "object_id", "class", "geom1", "geom3", "subtomo_mean"]
METRICS = ["score", "geom2", "geom5"]
sizes = [1, 2, 3, 4, 5, 8, 13, 30, 64, 120, 250, 400]
n_cases = 0
for it, n in enumerate(sizes * 8):
    kind = "int" if it % 3 == 2 else "float"
    feature, metric = FIELDS[it % len(FIELDS)], METRICS[(it // 2) % len(METRICS)]
    n_groups = min(n, int(rng.integers(1, 5)))
    keep_greater = bool(it % 2)
    d = float(rng.choice([1.0, 1.5, 3.0, 5.0, 6.5])) if kind == "int" else float(rng.choice([0.3, 2.0, 7.77, 31.0]))
    for attempt in range(20):
        df = make_df(n, n_groups, feature, metric, kind, d)
        if kind == "int":
            df = df.drop_duplicates(subset=["x", "y", "z", "shift_x", "shift_y", "shift_z"]).reset_index(drop=True)
            df[metric] = rng.permutation(len(df)) * 0.25 - 3.0
            break
        if no_distance_ties(df, d):
            break
    else:
        raise SystemExit("could not build a tie-free configuration")
    if it % 4 == 1:
        df.index = rng.permutation(len(df)) + 100
    elif it % 4 == 2:
        df.index = np.arange(len(df))[::-1]
    tag = f"n={len(df)} kind={kind} feature={feature} metric={metric} groups={n_groups} greater={keep_greater} d={d}"
    m_new, m_old = Motl(df.copy()), Motl(df.copy())
    quiet(m_new.clean_by_distance, d, feature, metric_id=metric, keep_greater=keep_greater)
    property_check(df, m_new.df, d, feature, metric, keep_greater, tag)
    # the same method with the original distance function patched in
    geom.point_pairwise_dist = ppd_orig
    try:
        quiet(m_old.clean_by_distance, d, feature, metric_id=metric, keep_greater=keep_greater)
    finally:
        geom.point_pairwise_dist = ppd_new
    try:
        pd.testing.assert_frame_equal(m_new.df, m_old.df, check_exact=True)
    except AssertionError as e:
        check(False, f"{tag}: clean_by_distance differs with the original distance function: {str(e)[:150]}")
    # repeated call on the same object removes nothing more
    once = m_new.df.copy()
    quiet(m_new.clean_by_distance, d, feature, metric_id=metric, keep_greater=keep_greater)
    check(sorted(m_new.df["subtomo_id"]) == sorted(once["subtomo_id"]), f"{tag}: second cleaning removed particles")
    n_cases += 1

print(f"function comparisons: {n_fn} element-type/shape combinations, clean_by_distance cases: {n_cases}")
if FAIL:
    print(f"FAIL ({len(FAIL)} problems)")
    sys.exit(1)
print("PASS")
