#!/venv/bin/python
"""C11 demo (change b): map files round-trip voxels and axis order across MRC, REC and EM.

Run as   cd /tmp/wt11/C11 && /venv/bin/python /tmp/seedsU/C11/b/demo.py

What is tested
 * the property itself, against independent MRC2014 / EM header parsers and writers written with struct
   (nothing of mrcfile / emfile / cryomap is used to look at the bytes):  nx,ny,nz == array shape, x fastest,
   element type, every voxel; read() gives back shape, values and narrowed type; the data_type and transpose
   options; em2mrc / mrc2em / invert_contrast with invert on/off, default and explicit names, overwrite refusal;
 * the functions of the tree under test against the ORIGINAL function texts (kept below in ORIG_SRC) on the
   same inputs: identical file bytes (the free-text label block of the MRC header, which holds a time stamp,
   is masked), identical arrays (shape, dtype, bytes, writeable flag), identical exception classes.
Exit 0 and PASS when everything holds.
"""
import sys, os
sys.path.insert(0, os.getcwd())
import struct, tempfile, shutil, hashlib, logging, warnings, inspect
warnings.simplefilter("ignore")
import numpy as np
from cryocat import cryomap

KIND = "b"

# ----------------------------------------------------------------------------------------------------------
# the original text of the functions (HEAD of the worktree, docstrings removed)
ORIG_SRC = r'''
def scale(input_map, scaling_factor, output_name=None):
    input_map = read(input_map)
    if scaling_factor > 1:
        anti_alias = False
    else:
        anti_alias = True
    scaled_map = transform.rescale(input_map, scaling_factor, order=3, mode='reflect', anti_aliasing=anti_alias)
    if scaled_map.dtype == np.float64:
        scaled_map = scaled_map.astype(np.float32)
    if output_name is not None:
        write(scaled_map, output_name)
    return scaled_map


def read(input_map, transpose=True, data_type=None):
    if isinstance(input_map, str):

        def valid_mrc(filename):
            pattern = '\\.(mrc|ali|rec|st)(\\.\\d+)?$'
            return bool(re.search(pattern, filename))
        if valid_mrc(input_map):
            data = mrcfile.open(input_map).data
        elif input_map.endswith('.em'):
            data = emfile.read(input_map)[1]
        else:
            raise ValueError('The input map file name', input_map, 'is neither em or mrc file!')
        if transpose:
            data = data.transpose(2, 1, 0)
    elif isinstance(input_map, np.ndarray):
        data = np.array(input_map)
    else:
        raise ValueError(f'Input map must be path to valid file or nparray')
    data = np.array(data, copy=True)
    if data_type is not None:
        data = data.astype(data_type)
    return data


def write(data_to_write, file_name, transpose=True, data_type=None, overwrite=True):
    if data_type is not None:
        data_to_write = data_to_write.astype(data_type)
    if transpose and data_to_write.ndim == 3:
        data_to_write = data_to_write.transpose(2, 1, 0)
    if data_to_write.dtype == np.float64:
        data_to_write = data_to_write.astype(np.float32)
    if file_name.endswith('.mrc') or file_name.endswith('.rec'):
        mrcfile.write(name=file_name, data=data_to_write, overwrite=overwrite)
    elif file_name.endswith('.em'):
        emfile.write(file_name, data=data_to_write, overwrite=overwrite)
    else:
        raise ValueError('The output file name', file_name, 'has to end with .mrc, .rec or .em!')


def invert_contrast(input_map, output_name=None):
    input_map = read(input_map)
    inverted_map = input_map * -1
    if output_name is not None:
        if inverted_map.dtype == np.float64:
            data_type = np.single
        else:
            data_type = inverted_map.dtype
        write(inverted_map, output_name, data_type=data_type)
    return inverted_map


def em2mrc(map_name, invert=False, overwrite=True, output_name=None):
    if not isinstance(map_name, str):
        raise ValueError(f'Input file must be a string, valid path')
    elif not map_name.endswith('.em'):
        raise ValueError(f'Provided path must be .em file')
    data_to_write = read(map_name)
    if invert:
        data_to_write = data_to_write * -1
    if output_name is None:
        output_name = map_name[:-2] + 'mrc'
    elif not output_name.endswith('.mrc'):
        raise ValueError(f'Specified output file name must end with .mrc')
    write(data_to_write, output_name, overwrite=overwrite)


def mrc2em(map_name, invert=False, overwrite=True, output_name=None):
    if not isinstance(map_name, str):
        raise ValueError(f'Input is not a string')
    elif not map_name.endswith('.mrc'):
        raise ValueError(f'Input file is not .mrc file')
    data_to_write = read(map_name)
    if invert:
        data_to_write = data_to_write * -1
    if output_name is None:
        output_name = map_name[:-3] + 'em'
    elif not output_name.endswith('.em'):
        raise ValueError(f'Specified output_name is not .em file')
    write(data_to_write, output_name, overwrite=overwrite)
'''


class _Orig:
    pass


def load_originals():
    ns = dict(vars(cryomap))  # same imports (np, re, mrcfile, emfile, transform) as the module
    exec(compile(ORIG_SRC, "<original cryomap functions>", "exec"), ns)
    o = _Orig()
    for name in ("scale", "read", "write", "invert_contrast", "em2mrc", "mrc2em"):
        setattr(o, name, ns[name])
    return o


ORIG = load_originals()

# ----------------------------------------------------------------------------------------------------------
# independent parsers / writers
MRC_MODE_OF = {np.dtype(np.int8): 0, np.dtype(np.int16): 1, np.dtype(np.float32): 2}
MRC_DTYPE_OF = {0: "<i1", 1: "<i2", 2: "<f4", 6: "<u2", 12: "<f2"}
EM_CODE_OF = {np.dtype(np.int8): 1, np.dtype(np.int16): 2, np.dtype(np.int32): 4, np.dtype(np.float32): 5,
              np.dtype(np.float64): 9}
EM_DTYPE_OF = {1: "<i1", 2: "<i2", 4: "<i4", 5: "<f4", 9: "<f8"}


def slurp(path):
    with open(path, "rb") as f:
        return f.read()


def parse_mrc(path):
    raw = slurp(path)
    nx, ny, nz, mode = struct.unpack("<4i", raw[0:16])
    mapc, mapr, maps = struct.unpack("<3i", raw[64:76])
    nsymbt = struct.unpack("<i", raw[92:96])[0]
    assert raw[208:212] == b"MAP ", "MAP id missing"
    assert raw[212:214] == b"\x44\x44", "machine stamp is not little endian"
    assert (mapc, mapr, maps) == (1, 2, 3), "axis correspondence is not x,y,z = column,row,section"
    dt = np.dtype(MRC_DTYPE_OF[mode])
    body = raw[1024 + nsymbt:]
    assert len(body) == nx * ny * nz * dt.itemsize, "data block size does not match the header"
    return (nx, ny, nz), dt, np.frombuffer(body, dt)


def parse_em(path):
    raw = slurp(path)
    assert raw[0] == 6, "EM machine code is not 6 (PC, little endian)"
    code = raw[3]
    nx, ny, nz = struct.unpack("<3i", raw[4:16])
    dt = np.dtype(EM_DTYPE_OF[code])
    body = raw[512:]
    assert len(body) == nx * ny * nz * dt.itemsize, "data block size does not match the header"
    return (nx, ny, nz), dt, np.frombuffer(body, dt)


def parse(path):
    return parse_em(path) if path.endswith(".em") else parse_mrc(path)


def make_em(path, vol):
    """vol is indexed [x, y, z]; x varies fastest on disk"""
    nx, ny, nz = vol.shape
    hdr = struct.pack("<4b3i", 6, 0, 0, EM_CODE_OF[vol.dtype], nx, ny, nz) + b"\0" * (512 - 16)
    with open(path, "wb") as f:
        f.write(hdr + vol.ravel(order="F").tobytes())


def make_mrc(path, vol):
    nx, ny, nz = vol.shape
    h = bytearray(1024)
    struct.pack_into("<4i", h, 0, nx, ny, nz, MRC_MODE_OF[vol.dtype])
    struct.pack_into("<3i", h, 28, nx, ny, nz)
    struct.pack_into("<6f", h, 40, float(nx), float(ny), float(nz), 90.0, 90.0, 90.0)
    struct.pack_into("<3i", h, 64, 1, 2, 3)
    struct.pack_into("<3f", h, 76, 0.0, -1.0, -2.0)  # dmin > dmax > dmean: "not determined"
    struct.pack_into("<i", h, 88, 1)  # space group 1: a volume
    struct.pack_into("<i", h, 108, 20140)
    h[208:212] = b"MAP "
    h[212:216] = bytes([0x44, 0x44, 0, 0])
    struct.pack_into("<f", h, 216, -1.0)
    with open(path, "wb") as f:
        f.write(bytes(h) + vol.ravel(order="F").tobytes())


def narrowed(a):
    """what goes to disk: float64 becomes float32, all else as is"""
    return a.astype(np.float32) if a.dtype == np.float64 else a


def same_values(got, exp, what):
    """bit-exact comparison; for floats NaN==NaN at the same places and the sign of zeros is compared too"""
    assert got.shape == exp.shape, f"{what}: shape {got.shape} != {exp.shape}"
    assert got.dtype == exp.dtype, f"{what}: dtype {got.dtype} != {exp.dtype}"
    if got.dtype.kind == "f":
        assert np.array_equal(np.isnan(got), np.isnan(exp)), f"{what}: NaN holes moved"
        ok = ~np.isnan(exp)
        assert np.array_equal(got[ok], exp[ok]), f"{what}: values differ"
        assert np.array_equal(np.signbit(got[ok]), np.signbit(exp[ok])), f"{what}: signs of zeros differ"
    else:
        assert np.array_equal(got, exp), f"{what}: values differ"


def check_file(path, vol, what):
    """the file at path holds the volume vol (indexed x,y,z), x fastest, header dims == vol.shape"""
    dims, dt, flat = parse(path)
    assert dims == tuple(vol.shape), f"{what}: header nx,ny,nz {dims} != array shape {vol.shape}"
    assert dt == vol.dtype.newbyteorder("<"), f"{what}: on-disk type {dt} != {vol.dtype}"
    same_values(flat.astype(vol.dtype), np.ascontiguousarray(vol.ravel(order="F")), what)


def file_digest(path):
    raw = bytearray(slurp(path))
    if not path.endswith(".em"):
        raw[224:1024] = b"\0" * 800  # the ten text labels (time stamp of mrcfile)
    return hashlib.sha1(bytes(raw)).hexdigest()


def arr_digest(a):
    assert type(a) is np.ndarray
    return (a.shape, str(a.dtype), bool(a.flags.writeable), bool(a.flags.owndata), bool(a.flags.c_contiguous),
            bool(a.flags.f_contiguous), hashlib.sha1(np.ascontiguousarray(a).tobytes()).hexdigest())


# ----------------------------------------------------------------------------------------------------------
# inputs
DTYPES = [np.float32, np.float64, np.int16, np.int8]
EXTS = [".mrc", ".rec", ".em"]
EDGE_SHAPES = [(1, 1, 1), (1, 1, 2), (2, 1, 1), (48, 1, 1), (1, 48, 1), (1, 1, 48), (2, 3, 4), (4, 3, 2), (5, 5, 5),
               (7, 8, 9), (8, 7, 1), (1, 9, 8), (48, 47, 2), (3, 48, 48), (48, 48, 48), (6, 6, 5), (5, 6, 6)]


def shapes(rng, n_random):
    return EDGE_SHAPES + [tuple(int(v) for v in rng.integers(1, 49, 3)) for _ in range(n_random)]


def volume(rng, shape, dtype, holes=True):
    dtype = np.dtype(dtype)
    n = int(np.prod(shape))
    if dtype.kind == "f":
        a = (rng.standard_normal(n) * 100).astype(dtype)
        if holes and n > 4:
            k = rng.integers(0, n, max(1, n // 11))
            a[k] = np.nan
            a[rng.integers(0, n)] = 0.0
            a[rng.integers(0, n)] = -0.0
            a[rng.integers(0, n)] = 1e-42 if dtype == np.float64 else 1e-30
        a[0] = -123.25
        a[-1] = 77.5
    else:
        info = np.iinfo(dtype)
        a = rng.integers(info.min, info.max + 1, n).astype(dtype)
        if n > 4:
            a[rng.integers(0, n)] = info.min
            a[rng.integers(0, n)] = info.max
            a[rng.integers(0, n)] = 0
        a[0] = -7
        a[-1] = 9
    return a.reshape(shape)


def negated(a):
    """independent of `a * (-1)`: flip the sign bit / two's complement"""
    return np.negative(a)


# ----------------------------------------------------------------------------------------------------------
# the suite: asserts the property and returns a transcript to compare two implementations with
def run_suite(M, seed=20240611, n_random=14):
    rng = np.random.default_rng(seed)
    tmp = tempfile.mkdtemp(prefix="c11demo_")
    log = []

    def rec(tag, *vals):
        log.append((tag,) + vals)

    try:
        count = 0
        for shape in shapes(rng, n_random):
            for dtype in DTYPES:
                a = volume(rng, shape, dtype)
                keep = a.copy()
                exp = narrowed(a)
                for ext in EXTS:
                    tag = f"{shape}/{np.dtype(dtype).name}/{ext}"
                    p = os.path.join(tmp, "vol" + ext)
                    # --- T1/T2 default write and read, repeated on the same objects
                    for rep in range(2):
                        M.write(a, p)
                        assert np.array_equal(a, keep, equal_nan=True) and a.dtype == keep.dtype, "write changed its input"
                        check_file(p, exp, tag + " write")
                        b = M.read(p)
                        same_values(b, exp, tag + " read")
                        assert b.flags.writeable and not np.shares_memory(b, a)
                        b[...] = 0  # the result is the caller's own
                        same_values(M.read(p), exp, tag + " read again")
                    rec(tag + " w", file_digest(p))
                    rec(tag + " r", arr_digest(M.read(p)))
                    count += 1
                    # --- T4 transpose option
                    M.write(a, p, transpose=False)
                    dims, dt, flat = parse(p)
                    assert dims == tuple(a.shape[::-1]), tag + " transpose=False header"
                    same_values(flat.astype(exp.dtype), np.ascontiguousarray(exp.ravel(order="C")), tag + " transpose=False bytes")
                    same_values(M.read(p, transpose=False), exp, tag + " read(transpose=False)")
                    same_values(M.read(p), np.ascontiguousarray(exp.transpose(2, 1, 0)), tag + " read of untransposed file")
                    rec(tag + " wT0", file_digest(p), arr_digest(M.read(p, transpose=False)), arr_digest(M.read(p)))
                    M.write(a, p, transpose=True)
                    check_file(p, exp, tag + " write(transpose=True)")
                    same_values(M.read(p, transpose=False), np.ascontiguousarray(exp.transpose(2, 1, 0)), tag + " read raw")
                # --- T5 array input of read
                b = M.read(a)
                same_values(b, a, f"{shape}/{np.dtype(dtype).name} read(array)")
                assert not np.shares_memory(b, a) and b.flags.writeable
                rec("ra", arr_digest(b), arr_digest(M.read(a, transpose=False)), arr_digest(M.read(a, data_type=np.float32)))

        # --- T3 data_type option of write and read (values kept where every cast is defined)
        for shape in shapes(rng, 4)[::2]:
            for dtype in DTYPES:
                a = volume(rng, shape, dtype, holes=False)
                if np.dtype(dtype).kind == "f":
                    a = np.clip(a, -120, 120).astype(dtype)
                for target in DTYPES:
                    exp = narrowed(a.astype(target))
                    for ext in EXTS:
                        tag = f"{shape}/{np.dtype(dtype).name}->{np.dtype(target).name}/{ext}"
                        p = os.path.join(tmp, "cast" + ext)
                        M.write(a, p, data_type=target)
                        check_file(p, exp, tag + " write(data_type)")
                        same_values(M.read(p), exp, tag + " read")
                        for rt in DTYPES:
                            same_values(M.read(p, data_type=rt), exp.astype(rt), tag + f" read(data_type={np.dtype(rt).name})")
                        M.write(a, p, data_type=target, transpose=False)
                        same_values(M.read(p, transpose=False, data_type=target), exp.astype(target), tag + " both options")
                        rec(tag, file_digest(p), arr_digest(M.read(p, data_type=np.int16)))
                        count += 1

        # --- T6/T7 conversions, sources made by the independent writers and by write()
        for shape in shapes(rng, 6):
            for direction in ("em2mrc", "mrc2em"):
                src_ext, dst_ext = (".em", ".mrc") if direction == "em2mrc" else (".mrc", ".em")
                conv = getattr(M, direction)
                src_types = [np.float32, np.int16, np.int8] + ([np.float64] if src_ext == ".em" else [])
                for dtype in src_types:
                    a = volume(rng, shape, dtype)
                    for by_write in (False, True):
                        d = tempfile.mkdtemp(dir=tmp)
                        src = os.path.join(d, "in.put" + src_ext)  # a dot inside the stem as well
                        if by_write:
                            M.write(a, src)
                        else:
                            (make_em if src_ext == ".em" else make_mrc)(src, a)
                        src_bytes = slurp(src)
                        on_disk = narrowed(a) if by_write else a
                        for invert in (False, True):
                            exp = narrowed(negated(on_disk) if invert else on_disk)
                            tag = f"{direction}/{shape}/{np.dtype(dtype).name}/w{int(by_write)}/inv{int(invert)}"
                            default_out = os.path.join(d, "in.put" + dst_ext)
                            explicit_out = os.path.join(d, "other_name" + dst_ext)
                            for out, kw in ((default_out, {}), (explicit_out, {"output_name": explicit_out})):
                                if os.path.exists(out):
                                    os.remove(out)
                                r = conv(src, invert=invert, **kw) if invert else conv(src, **kw)
                                assert r is None
                                check_file(out, exp, tag + " converted")
                                same_values(M.read(out), exp, tag + " read of converted")
                                rec(tag, file_digest(out))
                                # overwrite allowed: replaced by the other contrast
                                conv(src, invert=not invert, overwrite=True, **kw)
                                check_file(out, narrowed(on_disk if invert else negated(on_disk)), tag + " overwritten")
                                before = slurp(out)
                                # overwrite refused
                                try:
                                    conv(src, invert=invert, overwrite=False, **kw)
                                except Exception as e:
                                    rec(tag + " refusal", type(e).__name__)
                                else:
                                    raise AssertionError(tag + ": existing file overwritten although overwrite=False")
                                assert slurp(out) == before, tag + ": refused, but the file was touched"
                                os.remove(out)
                                conv(src, invert=invert, overwrite=False, **kw)  # nothing there: goes through
                                check_file(out, exp, tag + " overwrite=False on a free name")
                                count += 1
                            assert slurp(src) == src_bytes, tag + ": the source file was changed"

        # --- T8 invert_contrast
        for shape in shapes(rng, 3)[::3]:
            for dtype in DTYPES:
                a = volume(rng, shape, dtype)
                for ext in EXTS:
                    tag = f"invert_contrast/{shape}/{np.dtype(dtype).name}/{ext}"
                    p, q = os.path.join(tmp, "ic_in" + ext), os.path.join(tmp, "ic_out" + ext)
                    r = M.invert_contrast(a)
                    same_values(r, negated(a), tag + " array")
                    r = M.invert_contrast(a, output_name=q)
                    same_values(r, negated(a), tag + " array+file")
                    check_file(q, narrowed(negated(a)), tag + " file")
                    M.write(a, p)
                    r = M.invert_contrast(p, output_name=q)
                    same_values(r, negated(narrowed(a)), tag + " from file")
                    check_file(q, negated(narrowed(a)), tag + " file from file")
                    rec(tag, file_digest(q), arr_digest(r))
                    count += 1

        # --- inputs at the rim of the quantifier: only "same as the original", no property claimed
        a = volume(rng, (6, 5, 4), np.float32)
        rim = [("F-ordered", np.asfortranarray(a)), ("strided view", volume(rng, (12, 5, 8), np.int16)[::2, :, ::2]),
               ("int32", a.astype(np.int32)), ("2-D", a[:, :, 0]), ("uint16", np.abs(a).astype(np.uint16)),
               ("float16", a.astype(np.float16))]
        ro = a.copy()
        ro.flags.writeable = False
        rim.append(("read-only", ro))
        for name, x in rim:
            for ext in EXTS:
                p = os.path.join(tmp, "rim" + ext)
                if os.path.exists(p):
                    os.remove(p)
                try:
                    M.write(x, p)
                    rec("rim " + name + ext, file_digest(p))
                    try:
                        rec("rim read " + name + ext, arr_digest(M.read(p)))
                    except Exception as e:
                        rec("rim read " + name + ext, "raises")
                except Exception as e:
                    rec("rim " + name + ext, "raises", os.path.exists(p))
        return log, count
    finally:
        shutil.rmtree(tmp, ignore_errors=True)


def compare(log_a, log_b, what):
    assert len(log_a) == len(log_b), f"{what}: transcripts differ in length"
    for x, y in zip(log_a, log_b):
        assert x == y, f"{what}: {x} != {y}"


def expect_raises(fn, *args, **kw):
    try:
        fn(*args, **kw)
    except Exception as e:
        return e
    raise AssertionError(f"{fn.__name__}{args[1:]} {kw} did not raise")


# ----------------------------------------------------------------------------------------------------------
# change b: write() validates file name, and for .em the dimensionality and element type, before working
def extra():
    src = inspect.getsource(cryomap.write)
    patched = "holds a 3-D volume" in src
    print("tree under test:", "patched (b)" if patched else "unmodified")
    rng = np.random.default_rng(11)
    a = volume(rng, (4, 5, 6), np.float32)
    tmp = tempfile.mkdtemp(prefix="c11demo_b_")
    try:
        # inputs OUTSIDE the quantifier: they raised before (obscurely) and raise now (ValueError); no file appears
        from pathlib import Path
        outside = [
            ("unknown extension", a, os.path.join(tmp, "x.txt"), {}),
            ("unknown extension + bad cast", a, os.path.join(tmp, "x.map"), {"data_type": "no such type"}),
            ("upper-case extension", a, os.path.join(tmp, "x.MRC"), {}),
            ("name is a Path", a, Path(tmp) / "x.mrc", {}),
            ("name is None", a, None, {}),
            ("2-D to .em", a[:, :, 0], os.path.join(tmp, "x.em"), {}),
            ("1-D to .em", a[:, 0, 0], os.path.join(tmp, "x.em"), {}),
            ("float16 to .em", a.astype(np.float16), os.path.join(tmp, "x.em"), {}),
            ("uint8 to .em", np.abs(a).astype(np.uint8), os.path.join(tmp, "x.em"), {}),
            ("int64 to .em", a.astype(np.int64), os.path.join(tmp, "x.em"), {}),
            ("data_type=bool to .em", a, os.path.join(tmp, "x.em"), {"data_type": bool}),
        ]
        for name, data, fname, kw in outside:
            e_new = expect_raises(cryomap.write, data, fname, **kw)
            e_old = expect_raises(ORIG.write, data, fname, **kw)
            if patched:
                assert isinstance(e_new, ValueError), (name, type(e_new))
            assert os.listdir(tmp) == [], (name, "left a file behind", os.listdir(tmp))
            print(f"   outside the quantifier, {name:30s}: original {type(e_old).__name__:14s} tree {type(e_new).__name__}")
        # the extension error keeps its three-part argument tuple (the tests match on its text)
        e = expect_raises(cryomap.write, a, "invalid.txt")
        assert e.args == ("The output file name", "invalid.txt", "has to end with .mrc, .rec or .em!"), e.args
        # inputs INSIDE that a careless check would turn away or alter: every type emfile can write, data_type given
        # as a name, names with several dots / extension-like stems, a caller's array that must stay the caller's
        for dt in (np.int8, np.int16, np.int32, np.float32, np.float64):
            for how in ("direct", "cast"):
                p, q = os.path.join(tmp, "a.b.mrc.em"), os.path.join(tmp, "c.d.mrc.em")
                x = a.astype(dt) if how == "direct" else a
                kw = {} if how == "direct" else {"data_type": np.dtype(dt).name}
                cryomap.write(x, p, **kw)
                ORIG.write(x, q, **kw)
                assert file_digest(p) == file_digest(q), (dt, how)
                check_file(p, narrowed(a.astype(dt)), f"em {np.dtype(dt).name} {how}")
                os.remove(p), os.remove(q)
        for ext in EXTS:
            p = os.path.join(tmp, ".em.rec.mrc" + ext)
            x = volume(rng, (3, 1, 2), np.int8)
            before = (x.__array_interface__["data"], x.strides, x.dtype, x.tobytes())
            cryomap.write(x, p, overwrite=True)
            assert before == (x.__array_interface__["data"], x.strides, x.dtype, x.tobytes())
            check_file(p, x, "odd name")
            e = expect_raises(cryomap.write, x, p, overwrite=False)  # refusal is still the libraries' ValueError
            assert type(e) is type(expect_raises(ORIG.write, x, p, overwrite=False)) is ValueError
            os.remove(p)
        # 2-D / 4-D data for .mrc were accepted by the original and must stay accepted, byte for byte
        for x in (a[:, :, 0], np.stack([a, a])):
            p, q = os.path.join(tmp, "n.mrc"), os.path.join(tmp, "o.mrc")
            cryomap.write(x, p), ORIG.write(x, q)
            assert file_digest(p) == file_digest(q)
            os.remove(p), os.remove(q)
    finally:
        shutil.rmtree(tmp, ignore_errors=True)

def main():
    log_new, n = run_suite(cryomap)
    log_old, _ = run_suite(ORIG)
    compare(log_new, log_old, "tree under test vs original function texts")
    extra()
    print(f"{n} write/read/convert cases hold the property; "
          f"{len(log_new)} transcript entries identical to the original functions")
    print("PASS")


if __name__ == "__main__":
    main()
