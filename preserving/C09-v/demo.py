"""C09 / change a -- adapt_to_trimming: the lower-face and the upper-face filter merged into one pass.

Checks, over many random and edge-case inputs,
 1. the property clause "trimming adaptation re-expresses x,y,z relative to the trimmed volume and keeps exactly those
    inside it; survivors are never altered apart from the documented coordinate offset" against an independent numpy
    computation,
 2. that the function in the tree gives the very same table (values, dtypes, index labels, column order) as the
    ORIGINAL function text kept below,
 3. that the caller's trim coordinates are left untouched.
Prints PASS and exits 0 when everything holds.
"""
import os, sys

sys.path.insert(0, os.getcwd())

import copy
import numpy as np
import pandas as pd
from pandas.testing import assert_frame_equal

from cryocat.cryomotl import Motl


# ---------------------------------------------------------------- original text (HEAD b1093bd), kept for comparison
def adapt_to_trimming_ORIG(self, trim_coord_start, trim_coord_end):
    trimvol_coord = np.asarray(trim_coord_start) - 1
    tdim = np.asarray(trim_coord_end) - trimvol_coord
    self.df.loc[:, ["x", "y", "z"]] = self.df.loc[:, ["x", "y", "z"]] - np.tile(
        trimvol_coord, (self.df.shape[0], 1)
    )
    self.df = self.df.loc[~((self.df["x"] < 1.0) | (self.df["y"] < 1.0) | (self.df["z"] < 1.0)), :]
    self.df = self.df.loc[
        ~((self.df["x"] > tdim[0]) | (self.df["y"] > tdim[1]) | (self.df["z"] > tdim[2])),
        :,
    ]


# ---------------------------------------------------------------- input generation
COLS = Motl.motl_columns


def random_motl_df(rng, n_tomos, sizes, dims, integer_positions):
    """Positions spread inside, on the faces of and beyond the volumes; non-zero shifts; several tomograms."""
    rows = []
    sid = 1
    for t, n, d in zip(range(1, n_tomos + 1), sizes, dims):
        for _ in range(n):
            if integer_positions:
                pos = np.array([rng.integers(-6, d[k] + 7) for k in range(3)], dtype=float)
            else:
                pos = np.array([rng.uniform(-6, d[k] + 6) for k in range(3)])
            # put some coordinates exactly on special values
            for k in range(3):
                u = rng.random()
                if u < 0.08:
                    pos[k] = 0.0
                elif u < 0.16:
                    pos[k] = 1.0
                elif u < 0.24:
                    pos[k] = float(d[k])
                elif u < 0.30:
                    pos[k] = float(d[k] + 1)
            r = dict.fromkeys(COLS, 0.0)
            r.update(
                score=rng.random(), subtomo_id=float(sid), tomo_id=float(t * 3), object_id=float(rng.integers(1, 4)),
                x=pos[0], y=pos[1], z=pos[2],
                shift_x=rng.uniform(-1.5, 1.5), shift_y=rng.uniform(-1.5, 1.5), shift_z=rng.uniform(-1.5, 1.5),
                phi=rng.uniform(-180, 180), theta=rng.uniform(0, 180), psi=rng.uniform(-180, 180),
                geom1=float(rng.integers(0, 9)), **{"class": float(rng.integers(1, 3))},
            )
            rows.append(r)
            sid += 1
    df = pd.DataFrame(rows, columns=COLS).astype(float) if rows else Motl.create_empty_motl_df()
    return df


def independent(df0, start, end):
    """Expected table computed without the library: shift by (start - 1), keep 1 <= c <= end - start + 1 on all axes."""
    start = np.asarray(start, dtype=float)
    end = np.asarray(end, dtype=float)
    xyz = df0[["x", "y", "z"]].to_numpy(dtype=float)
    off = start - 1.0
    new = xyz - off
    size = end - off
    keep = np.ones(len(df0), dtype=bool)
    for i in range(len(df0)):
        for k in range(3):
            if new[i, k] < 1.0 or new[i, k] > size[k]:
                keep[i] = False
    exp = df0.copy()
    exp[["x", "y", "z"]] = new
    return exp.loc[keep], keep


def as_kind(v, kind):
    v = [int(c) for c in v]
    if kind == 0:
        return np.array(v)
    if kind == 1:
        return list(v)
    if kind == 2:
        return tuple(v)
    return np.array(v, dtype=float)


def run_case(rng, df0, start, end, kind, label):
    s_arg, e_arg = as_kind(start, kind), as_kind(end, kind)
    s_keep, e_keep = copy.deepcopy(s_arg), copy.deepcopy(e_arg)

    m_new = Motl(df0.copy())
    m_old = Motl(df0.copy())
    m_new.adapt_to_trimming(s_arg, e_arg)
    adapt_to_trimming_ORIG(m_old, s_arg, e_arg)

    # 2. same as the original text, to the last label and dtype
    assert_frame_equal(m_new.df, m_old.df, check_exact=True, obj=label + " patched-vs-original")
    assert list(m_new.df.columns) == list(m_old.df.columns) == COLS, label

    # 1. the property, against the independent computation
    exp, keep = independent(df0, start, end)
    assert list(m_new.df.index) == list(exp.index), label + ": kept set differs from the inside set"
    assert_frame_equal(m_new.df, exp, check_exact=True, obj=label + " property")
    other = [c for c in COLS if c not in ("x", "y", "z")]
    assert_frame_equal(m_new.df[other], df0.loc[keep, other], check_exact=True, obj=label + " survivors altered")

    # 3. caller's arguments untouched
    assert type(s_arg) is type(s_keep) and np.array_equal(np.asarray(s_arg), np.asarray(s_keep)), label
    assert type(e_arg) is type(e_keep) and np.array_equal(np.asarray(e_arg), np.asarray(e_keep)), label
    return m_new, m_old, int(keep.sum())


def main():
    rng = np.random.default_rng(20260928)
    n_cases = kept_total = dropped_total = 0
    for it in range(400):
        n_tomos = int(rng.integers(1, 5))
        sizes = [int(rng.integers(0, 14)) for _ in range(n_tomos)]  # empty groups included
        dims = [tuple(int(v) for v in rng.integers(8, 40, size=3)) for _ in range(n_tomos)]
        df0 = random_motl_df(rng, n_tomos, sizes, dims, integer_positions=bool(it % 2))
        if it % 5 == 0 and len(df0) > 2:
            # a table whose index is not 0..n-1 (e.g. after an earlier filter without reset)
            df0 = df0.iloc[rng.permutation(len(df0))[: max(1, len(df0) - 2)]]
        d = dims[0]
        if it % 3:
            # generous box: many survivors, a few particles cut on every side
            start = [int(rng.integers(-3, max(2, d[k] // 4))) for k in range(3)]
            end = [int(rng.integers(max(start[k], 3 * d[k] // 4), d[k] + 5)) for k in range(3)]
        else:
            start = [int(rng.integers(-3, d[k])) for k in range(3)]
            end = [int(rng.integers(start[k], d[k] + 5)) for k in range(3)]
        if it % 7 == 0:
            start = [1, 1, 1]  # trimming that removes nothing on the lower side
        if it % 11 == 0:
            end = list(start)  # one-voxel volume
        m_new, m_old, k = run_case(rng, df0, start, end, it % 4, f"case {it}")
        n_cases += 1
        kept_total += k
        dropped_total += len(df0) - k

        # repeated call on the same objects (second trimming inside the first)
        df1 = m_new.df.copy()
        start2 = [int(rng.integers(1, 4)) for _ in range(3)]
        end2 = [max(start2[k], end[k] - start[k] + 1 - int(rng.integers(0, 3))) for k in range(3)]
        m_new.adapt_to_trimming(np.array(start2), np.array(end2))
        adapt_to_trimming_ORIG(m_old, np.array(start2), np.array(end2))
        assert_frame_equal(m_new.df, m_old.df, check_exact=True, obj=f"case {it} second call")
        exp2, _ = independent(df1, start2, end2)
        assert_frame_equal(m_new.df, exp2, check_exact=True, obj=f"case {it} second call property")

    # fixed edge cases: all out below, all out above, on the faces exactly, empty list, NaN coordinate kept by both
    base = random_motl_df(rng, 2, [3, 3], [(10, 10, 10), (12, 12, 12)], True)
    face = base.copy()
    face[["x", "y", "z"]] = [[5, 5, 5], [14, 14, 14], [4, 5, 5], [5, 15, 5], [5, 5, 4.999], [14.001, 5, 5]]
    _, _, k = run_case(rng, face, [5, 5, 5], [14, 14, 14], 0, "faces")
    assert k == 2, k
    low = base.copy(); low[["x", "y", "z"]] = -3.0
    assert run_case(rng, low, [2, 2, 2], [9, 9, 9], 1, "all below")[2] == 0
    high = base.copy(); high[["x", "y", "z"]] = 50.0
    assert run_case(rng, high, [2, 2, 2], [9, 9, 9], 2, "all above")[2] == 0
    assert run_case(rng, Motl.create_empty_motl_df(), [2, 2, 2], [9, 9, 9], 0, "empty")[2] == 0
    n_cases += 4

    nan = base.copy(); nan.iloc[1, COLS.index("y")] = np.nan
    a, b = Motl(nan.copy()), Motl(nan.copy())
    a.adapt_to_trimming([1, 1, 1], [30, 30, 30]); adapt_to_trimming_ORIG(b, [1, 1, 1], [30, 30, 30])
    assert_frame_equal(a.df, b.df, check_exact=True, obj="nan row")

    print(f"{n_cases} cases, {kept_total} particles kept / {dropped_total} dropped: property holds, "
          f"patched == original, caller inputs untouched")
    print("PASS")


if __name__ == "__main__":
    main()
