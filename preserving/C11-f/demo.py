"""C11 demo: map files round-trip voxels and axis order across MRC, REC and EM.

Checks cryocat.cryomap.read / write / invert_contrast / em2mrc / mrc2em against
 (1) independent byte-level MRC and EM parsers / writers written here, and
 (2) a verbatim copy of the original functions (ORIG below), on the same inputs,
over random non-cubic shapes (1..48), dtypes float32/float64/int16/int8, the transpose and data_type
options, the three extensions, invert on/off, default and explicit output names, overwrite on/off,
repeated calls on the same objects / same file names after in-place edits and in different orders.
Prints PASS and exits 0 when everything holds.
"""
import os
import sys

sys.path.insert(0, os.getcwd())

import re
import shutil
import struct
import tempfile
import warnings

import numpy as np
import emfile
import mrcfile

from cryocat import cryomap

warnings.filterwarnings("ignore")

# --------------------------------------------------------------------------------------------------
# verbatim copy of the original functions
ORIG = r'''
def read(input_map, transpose=True, data_type=None):
    if isinstance(input_map, str):

        def valid_mrc(filename):
            pattern = r"\.(mrc|ali|rec|st)(\.\d+)?$"
            return bool(re.search(pattern, filename))

        if valid_mrc(input_map):
            data = mrcfile.open(input_map).data
        elif input_map.endswith(".em"):
            data = emfile.read(input_map)[1]
        else:
            raise ValueError("The input map file name", input_map, "is neither em or mrc file!")

        if transpose:
            data = data.transpose(2, 1, 0)
    elif isinstance(input_map, np.ndarray):
        data = np.array(input_map)
    else:
        raise ValueError(f"Input map must be path to valid file or nparray")

    data = np.array(data, copy=True)
    if data_type is not None:
        data = data.astype(data_type)

    return data


def write(data_to_write, file_name, transpose=True, data_type=None, overwrite=True):
    if data_type is not None:
        data_to_write = data_to_write.astype(data_type)

    if transpose and data_to_write.ndim == 3:
        data_to_write = data_to_write.transpose(2, 1, 0)

    if data_to_write.dtype == np.float64:
        data_to_write = data_to_write.astype(np.float32)

    if file_name.endswith(".mrc") or file_name.endswith(".rec"):
        mrcfile.write(name=file_name, data=data_to_write, overwrite=overwrite)
    elif file_name.endswith(".em"):
        emfile.write(file_name, data=data_to_write, overwrite=overwrite)
    else:
        raise ValueError("The output file name", file_name, "has to end with .mrc, .rec or .em!")


def invert_contrast(input_map, output_name=None):
    input_map = read(input_map)
    inverted_map = input_map * (-1)

    if output_name is not None:
        if inverted_map.dtype == np.float64:
            data_type = np.single
        else:
            data_type = inverted_map.dtype

        write(inverted_map, output_name, data_type=data_type)

    return inverted_map


def em2mrc(map_name, invert=False, overwrite=True, output_name=None):
    if not isinstance(map_name, str):
        raise ValueError(f"Input file must be a string, valid path")
    elif not map_name.endswith(".em"):
        raise ValueError(f"Provided path must be .em file")
    data_to_write = read(map_name)

    if invert:
        data_to_write = data_to_write * (-1)

    if output_name is None:
        output_name = map_name[:-2] + "mrc"
    elif not output_name.endswith(".mrc"):
        raise ValueError(f"Specified output file name must end with .mrc")
    write(data_to_write, output_name, overwrite=overwrite)


def mrc2em(map_name, invert=False, overwrite=True, output_name=None):
    if not isinstance(map_name, str):
        raise ValueError(f"Input is not a string")
    else:
        if not map_name.endswith(".mrc"):
            raise ValueError(f"Input file is not .mrc file")
    data_to_write = read(map_name)

    if invert:
        data_to_write = data_to_write * (-1)

    if output_name is None:
        output_name = map_name[:-3] + "em"
    elif not output_name.endswith(".em"):
        raise ValueError(f"Specified output_name is not .em file")

    write(data_to_write, output_name, overwrite=overwrite)
'''
O = {"re": re, "np": np, "mrcfile": mrcfile, "emfile": emfile}
exec(ORIG, O)


class orig:
    read = staticmethod(O["read"])
    write = staticmethod(O["write"])
    invert_contrast = staticmethod(O["invert_contrast"])
    em2mrc = staticmethod(O["em2mrc"])
    mrc2em = staticmethod(O["mrc2em"])


# --------------------------------------------------------------------------------------------------
# independent byte-level parsers / writers (no mrcfile, no emfile)
MRC_MODES = {0: np.dtype("<i1"), 1: np.dtype("<i2"), 2: np.dtype("<f4"), 6: np.dtype("<u2"), 12: np.dtype("<f2")}
EM_TYPES = {1: np.dtype("<i1"), 2: np.dtype("<i2"), 4: np.dtype("<i4"), 5: np.dtype("<f4"), 9: np.dtype("<f8")}


def parse_mrc(path):
    """-> array indexed (x, y, z) with x fastest on disk, header (nx, ny, nz), dtype"""
    b = open(path, "rb").read()
    nx, ny, nz, mode = struct.unpack("<4i", b[:16])
    nsymbt = struct.unpack("<i", b[92:96])[0]
    assert b[208:212] == b"MAP ", "no MAP id"
    mapcrs = struct.unpack("<3i", b[64:76])
    assert mapcrs == (1, 2, 3), mapcrs
    dt = MRC_MODES[mode]
    n = nx * ny * nz
    assert len(b) == 1024 + nsymbt + n * dt.itemsize, "mrc file size does not match the header"
    flat = np.frombuffer(b, dtype=dt, count=n, offset=1024 + nsymbt)
    idx = np.arange(n)
    vol = np.empty((nx, ny, nz), dtype=dt)
    vol[idx % nx, (idx // nx) % ny, idx // (nx * ny)] = flat  # x fastest, then y, then z
    return vol, (nx, ny, nz), dt


def parse_em(path):
    b = open(path, "rb").read()
    code = b[3]
    nx, ny, nz = struct.unpack("<3i", b[4:16])
    dt = EM_TYPES[code]
    n = nx * ny * nz
    assert len(b) == 512 + n * dt.itemsize, "em file size does not match the header"
    flat = np.frombuffer(b, dtype=dt, count=n, offset=512)
    idx = np.arange(n)
    vol = np.empty((nx, ny, nz), dtype=dt)
    vol[idx % nx, (idx // nx) % ny, idx // (nx * ny)] = flat
    return vol, (nx, ny, nz), dt


def parse_any(path):
    return parse_em(path) if path.endswith(".em") else parse_mrc(path)


def flat_x_fastest(vol):
    """vol indexed (x,y,z) -> 1D stream with x fastest (independent of transpose tricks)"""
    nx, ny, nz = vol.shape
    out = np.empty(nx * ny * nz, dtype=vol.dtype)
    p = 0
    for z in range(nz):
        for y in range(ny):
            out[p : p + nx] = vol[:, y, z]
            p += nx
    return out


def raw_write_mrc(path, vol):
    nx, ny, nz = vol.shape
    mode = {"int8": 0, "int16": 1, "float32": 2}[vol.dtype.name]
    h = bytearray(1024)
    struct.pack_into("<4i", h, 0, nx, ny, nz, mode)
    struct.pack_into("<3i", h, 16, 0, 0, 0)
    struct.pack_into("<3i", h, 28, nx, ny, nz)
    struct.pack_into("<3f", h, 40, float(nx), float(ny), float(nz))
    struct.pack_into("<3f", h, 52, 90.0, 90.0, 90.0)
    struct.pack_into("<3i", h, 64, 1, 2, 3)
    v = vol.astype(np.float64)
    struct.pack_into("<3f", h, 76, v.min(), v.max(), v.mean())
    struct.pack_into("<i", h, 88, 1)
    h[104:108] = b"\0\0\0\0"
    struct.pack_into("<i", h, 108, 20140)
    h[208:212] = b"MAP "
    h[212:216] = bytes([0x44, 0x44, 0, 0])
    struct.pack_into("<f", h, 216, v.std())
    with open(path, "wb") as f:
        f.write(bytes(h) + flat_x_fastest(vol.astype(vol.dtype.newbyteorder("<"))).tobytes())


def raw_write_em(path, vol):
    nx, ny, nz = vol.shape
    code = {"int8": 1, "int16": 2, "float32": 5, "float64": 9}[vol.dtype.name]
    h = bytearray(512)
    h[0] = 6
    h[3] = code
    struct.pack_into("<3i", h, 4, nx, ny, nz)
    with open(path, "wb") as f:
        f.write(bytes(h) + flat_x_fastest(vol.astype(vol.dtype.newbyteorder("<"))).tobytes())


def essential_bytes(path):
    """file content without the free-text label area of the MRC header (contains a time stamp)"""
    b = open(path, "rb").read()
    if path.endswith(".em"):
        return b
    return b[:220] + b[1024:]


# --------------------------------------------------------------------------------------------------
rng = np.random.default_rng(20260928)
DTYPES = [np.float32, np.float64, np.int16, np.int8]
EXTS = [".mrc", ".rec", ".em"]
nchecks = 0


def check(cond, msg):
    global nchecks
    nchecks += 1
    if not cond:
        print("FAIL:", msg)
        sys.exit(1)


def same(a, b):
    return a.shape == b.shape and a.dtype == b.dtype and np.array_equal(a, b)


def rand_vol(shape, dtype):
    dtype = np.dtype(dtype)
    if dtype.kind == "f":
        v = rng.normal(0, 50, size=shape)
        if dtype == np.float64:
            v = v * (1 + 1e-9 * rng.normal(size=shape))  # not representable in float32
        return v.astype(dtype)
    info = np.iinfo(dtype)
    v = rng.integers(info.min, info.max, size=shape, endpoint=True).astype(dtype)
    v.flat[0] = info.min  # corner value: negation wraps for it
    return v


def rand_shape():
    while True:
        s = tuple(int(x) for x in rng.integers(1, 49, size=3))
        if len(set(s)) > 1:
            return s


def narrowed(a):
    return a.astype(np.float32) if a.dtype == np.float64 else a


def expect_raises(fn, exc, msg):
    try:
        fn()
    except exc:
        check(True, msg)
        return
    except Exception as e:  # noqa
        check(False, f"{msg}: wrong exception {type(e).__name__}: {e}")
    check(False, msg + ": no exception")


tmp = tempfile.mkdtemp(prefix="c11demo_")
try:
    shapes = [rand_shape() for _ in range(36)] + [
        (1, 1, 2), (1, 2, 1), (2, 1, 1), (48, 1, 7), (1, 48, 3), (5, 2, 48), (48, 47, 46), (2, 3, 4), (4, 3, 2),
        (7, 7, 3), (3, 7, 7), (1, 1, 1),
    ]
    case = 0
    for shape in shapes:
        for ext in EXTS:
            case += 1
            dtype = DTYPES[case % 4] if case % 7 else DTYPES[int(rng.integers(4))]
            A = rand_vol(shape, dtype)
            A0 = A.copy()
            tag = f"shape={shape} dtype={np.dtype(dtype).name} ext={ext}"
            f_new = os.path.join(tmp, f"n{case}{ext}")
            f_old = os.path.join(tmp, f"o{case}{ext}")

            # ---- 1. default write, bytes inspected
            cryomap.write(A, f_new)
            orig.write(A, f_old)
            check(same(A, A0), "write changed its input " + tag)
            vol, hdr, dt = parse_any(f_new)
            check(hdr == shape, f"header nx,ny,nz {hdr} != array shape {tag}")
            check(dt == narrowed(A).dtype, f"on-disk dtype {dt} {tag}")
            check(np.array_equal(vol, narrowed(A)), "on-disk voxels (x fastest) differ " + tag)
            check(essential_bytes(f_new) == essential_bytes(f_old), "file bytes differ from the original writer " + tag)

            # ---- 2. read back, all option combinations, compared with original reader and with the bytes
            R = cryomap.read(f_new)
            check(same(R, narrowed(A)), "round trip differs " + tag)
            check(same(R, orig.read(f_new)), "read differs from the original reader " + tag)
            R[...] = 0  # returned array is a private copy
            check(same(cryomap.read(f_new), narrowed(A)), "second read differs (stale / shared buffer) " + tag)
            for tr in (True, False):
                for rdt in (None, np.float64, np.float32, np.int16):
                    r1 = cryomap.read(f_new, transpose=tr, data_type=rdt)
                    r0 = orig.read(f_old, transpose=tr, data_type=rdt)
                    check(same(r1, r0), f"read(transpose={tr}, data_type={rdt}) differs from the original {tag}")
                    ex = narrowed(A) if tr else narrowed(A).transpose(2, 1, 0)
                    ex = ex if rdt is None else ex.astype(rdt)
                    check(same(r1, ex), f"read(transpose={tr}, data_type={rdt}) wrong {tag}")
                    r1b = cryomap.read(f_new, data_type=rdt, transpose=tr)  # keywords in the other order
                    check(same(r1b, r1), "keyword order matters " + tag)

            # ---- 3. reader on files produced by the independent raw writers
            f_raw = os.path.join(tmp, f"raw{case}{ext}")
            (raw_write_em if ext == ".em" else raw_write_mrc)(f_raw, narrowed(A))
            check(same(cryomap.read(f_raw), narrowed(A)), "read of independently written file wrong " + tag)
            check(same(cryomap.read(f_raw, transpose=False), narrowed(A).transpose(2, 1, 0)), "raw, no transpose " + tag)

            # ---- 4. write options
            for tr in (True, False):
                for wdt in (None, np.float32, np.single, np.float64, np.int16, np.int8):
                    if case % 3 and wdt in (np.single, np.float64):
                        continue
                    cryomap.write(A, f_new, transpose=tr, data_type=wdt)
                    orig.write(A, f_old, transpose=tr, data_type=wdt)
                    check(essential_bytes(f_new) == essential_bytes(f_old), f"write(transpose={tr},data_type={wdt}) bytes differ {tag}")
                    ex = A if wdt is None else A.astype(wdt)
                    ex = narrowed(ex)
                    vol, hdr, dt = parse_any(f_new)
                    exd = ex if tr else ex.transpose(2, 1, 0)
                    check(hdr == exd.shape and dt == ex.dtype and np.array_equal(vol, exd), f"write(transpose={tr},data_type={wdt}) disk content {tag}")
                    check(same(cryomap.read(f_new, transpose=tr), ex), f"round trip transpose={tr} data_type={wdt} {tag}")
                    cryomap.write(A, f_new, data_type=wdt, overwrite=True, transpose=tr)
                    check(essential_bytes(f_new) == essential_bytes(f_old), "keyword order matters in write " + tag)
            check(same(A, A0), "write changed its input " + tag)

            # ---- 5. in-place edit of the same object, same file name, second and third call
            for rep in range(2):
                A[...] = rand_vol(shape, dtype)
                A0 = A.copy()
                cryomap.write(A, f_new)
                orig.write(A, f_old)
                check(essential_bytes(f_new) == essential_bytes(f_old), f"rewrite {rep} bytes differ {tag}")
                check(same(cryomap.read(f_new), narrowed(A)), f"rewrite {rep} read back stale {tag}")
            # same name, now another shape and dtype
            B = rand_vol(shape[::-1][:2] + (shape[0] % 5 + 1,), DTYPES[(case + 1) % 4])
            cryomap.write(B, f_new)
            check(same(cryomap.read(f_new), narrowed(B)), "same name, new content: stale result " + tag)
            check(parse_any(f_new)[1] == B.shape, "same name, new content: header " + tag)

            # ---- 6. overwrite=False refuses and leaves the file alone
            before = open(f_new, "rb").read()
            expect_raises(lambda: cryomap.write(A, f_new, overwrite=False), (ValueError, FileExistsError), "overwrite=False not refused " + tag)
            check(open(f_new, "rb").read() == before, "file touched although overwrite=False " + tag)
            f_fresh = os.path.join(tmp, f"fresh{case}{ext}")
            cryomap.write(A, f_fresh, overwrite=False)
            check(same(cryomap.read(f_fresh), narrowed(A)), "overwrite=False on a fresh name " + tag)

            # ---- 7. ndarray input to read: copy, dtype option
            r = cryomap.read(A)
            check(same(r, A) and not np.shares_memory(r, A), "read(ndarray) must return an equal copy " + tag)
            check(same(cryomap.read(A, data_type=np.float64), orig.read(A, data_type=np.float64)), "read(ndarray, data_type) " + tag)
            check(same(cryomap.read(A, transpose=False), A), "read(ndarray, transpose=False) " + tag)

    # ---- 8. conversions and inversion
    case = 0
    for shape in shapes[::2]:
        for dtype in DTYPES:
            case += 1
            A = rand_vol(shape, dtype)
            tag = f"shape={shape} dtype={np.dtype(dtype).name}"
            nA = narrowed(A)
            for invert in (False, True):
                sign = -1 if invert else 1
                # EM -> MRC
                d_new = os.path.join(tmp, f"cn{case}_{int(invert)}")
                d_old = os.path.join(tmp, f"co{case}_{int(invert)}")
                os.makedirs(d_new), os.makedirs(d_old)
                for d, mod in ((d_new, cryomap), (d_old, orig)):
                    src = os.path.join(d, "vol.em")
                    raw_write_em(src, nA)
                    if invert:
                        check(mod.em2mrc(src, invert=True) is None, "return value")
                    elif case % 2:
                        mod.em2mrc(src)
                    else:
                        mod.em2mrc(src, invert=False, overwrite=True, output_name=None)
                    mod.em2mrc(src, invert=invert, output_name=os.path.join(d, "explicit.x.mrc"))
                    mod.em2mrc(src, output_name=os.path.join(d, "explicit.x.mrc"), invert=invert, overwrite=True)
                check(sorted(os.listdir(d_new)) == sorted(os.listdir(d_old)) == ["explicit.x.mrc", "vol.em", "vol.mrc"], f"em2mrc output names {os.listdir(d_new)} {tag}")
                for name in ("vol.mrc", "explicit.x.mrc"):
                    fn, fo = os.path.join(d_new, name), os.path.join(d_old, name)
                    check(essential_bytes(fn) == essential_bytes(fo), f"em2mrc {name} bytes differ from original, invert={invert} {tag}")
                    vol, hdr, dt = parse_mrc(fn)
                    check(hdr == shape and dt == nA.dtype and np.array_equal(vol, nA * sign), f"em2mrc {name} voxels, invert={invert} {tag}")
                    check(same(cryomap.read(fn), nA * sign), f"em2mrc read back invert={invert} {tag}")
                check(np.array_equal(parse_em(os.path.join(d_new, "vol.em"))[0], nA), "em2mrc modified its input file " + tag)
                # refuse to overwrite
                keep = open(os.path.join(d_new, "vol.mrc"), "rb").read()
                expect_raises(lambda: cryomap.em2mrc(os.path.join(d_new, "vol.em"), invert=not invert, overwrite=False), (ValueError, FileExistsError), "em2mrc overwrite=False " + tag)
                expect_raises(lambda: cryomap.em2mrc(os.path.join(d_new, "vol.em"), overwrite=False, output_name=os.path.join(d_new, "vol.mrc")), (ValueError, FileExistsError), "em2mrc overwrite=False explicit " + tag)
                check(open(os.path.join(d_new, "vol.mrc"), "rb").read() == keep, "em2mrc touched the file although overwrite=False " + tag)
                cryomap.em2mrc(os.path.join(d_new, "vol.em"), invert=invert, overwrite=False, output_name=os.path.join(d_new, "fresh.mrc"))
                check(np.array_equal(parse_mrc(os.path.join(d_new, "fresh.mrc"))[0], nA * sign), "em2mrc fresh name with overwrite=False " + tag)
                expect_raises(lambda: cryomap.em2mrc(os.path.join(d_new, "vol.em"), output_name=os.path.join(d_new, "bad.em")), ValueError, "em2mrc bad output name")
                expect_raises(lambda: cryomap.em2mrc(os.path.join(d_new, "vol.mrc")), ValueError, "em2mrc bad input name")

                # MRC -> EM (input edited between calls: second call must see the new content)
                for d, mod in ((d_new, cryomap), (d_old, orig)):
                    src = os.path.join(d, "back.mrc")
                    raw_write_mrc(src, nA)
                    mod.mrc2em(src, invert=invert)
                    mod.mrc2em(src, invert=invert, output_name=os.path.join(d, "explicit.y.em"))
                for name in ("back.em", "explicit.y.em"):
                    fn, fo = os.path.join(d_new, name), os.path.join(d_old, name)
                    check(open(fn, "rb").read() == open(fo, "rb").read(), f"mrc2em {name} bytes differ from original invert={invert} {tag}")
                    vol, hdr, dt = parse_em(fn)
                    check(hdr == shape and dt == nA.dtype and np.array_equal(vol, nA * sign), f"mrc2em {name} voxels invert={invert} {tag}")
                    check(same(cryomap.read(fn), nA * sign), f"mrc2em read back invert={invert} {tag}")
                A2 = rand_vol(shape[::-1], dtype)
                for d, mod in ((d_new, cryomap), (d_old, orig)):
                    raw_write_mrc(os.path.join(d, "back.mrc"), narrowed(A2))
                    mod.mrc2em(os.path.join(d, "back.mrc"), invert, True, None) if mod is orig else mod.mrc2em(os.path.join(d, "back.mrc"), invert=invert, overwrite=True)
                check(open(os.path.join(d_new, "back.em"), "rb").read() == open(os.path.join(d_old, "back.em"), "rb").read(), "mrc2em second call bytes " + tag)
                vol, hdr, dt = parse_em(os.path.join(d_new, "back.em"))
                check(hdr == A2.shape and np.array_equal(vol, narrowed(A2) * sign), "mrc2em second call on edited input is stale " + tag)
                keep = open(os.path.join(d_new, "back.em"), "rb").read()
                expect_raises(lambda: cryomap.mrc2em(os.path.join(d_new, "back.mrc"), invert=not invert, overwrite=False), (ValueError, FileExistsError), "mrc2em overwrite=False " + tag)
                check(open(os.path.join(d_new, "back.em"), "rb").read() == keep, "mrc2em touched the file although overwrite=False " + tag)
                expect_raises(lambda: cryomap.mrc2em(os.path.join(d_new, "back.mrc"), output_name=os.path.join(d_new, "bad.mrc")), ValueError, "mrc2em bad output name")
                expect_raises(lambda: cryomap.mrc2em(os.path.join(d_new, "back.em")), ValueError, "mrc2em bad input name")
                expect_raises(lambda: cryomap.mrc2em(A), ValueError, "mrc2em non-string")
                expect_raises(lambda: cryomap.em2mrc(A), ValueError, "em2mrc non-string")

                # round trip chain EM -> MRC -> EM with inversion twice gives the input back
                if invert:
                    cryomap.em2mrc(os.path.join(d_new, "vol.em"), invert=True, output_name=os.path.join(d_new, "chain.mrc"))
                    cryomap.mrc2em(os.path.join(d_new, "chain.mrc"), invert=True)
                    ex = (nA * -1) * -1
                    check(np.array_equal(parse_em(os.path.join(d_new, "chain.em"))[0], ex), "chain " + tag)

            # invert_contrast: array and file input, with and without output
            for ext in EXTS:
                src = os.path.join(tmp, f"ic_src{case}{ext}")
                (raw_write_em if ext == ".em" else raw_write_mrc)(src, nA)
                for inp, exin in ((src, nA), (A, A)):
                    r1 = cryomap.invert_contrast(inp)
                    check(same(r1, orig.invert_contrast(inp)) and same(r1, exin * (-1)), f"invert_contrast return {tag} {ext}")
                    for oext in EXTS:
                        o1 = os.path.join(tmp, f"ic_n{case}{oext}")
                        o0 = os.path.join(tmp, f"ic_o{case}{oext}")
                        r1 = cryomap.invert_contrast(inp, output_name=o1)
                        r0 = orig.invert_contrast(inp, output_name=o0)
                        check(same(r1, r0), "invert_contrast return with output " + tag)
                        check(essential_bytes(o1) == essential_bytes(o0), "invert_contrast file bytes " + tag)
                        vol, hdr, dt = parse_any(o1)
                        check(hdr == shape and np.array_equal(vol, narrowed(exin * (-1))), "invert_contrast file voxels " + tag)

    # ---- 8b. default output names for unusual input names, error order and messages, compared with the original
    V8 = rand_vol((4, 2, 5), np.float32)
    for k, (conv, iext, oext) in enumerate((("em2mrc", ".em", ".mrc"), ("mrc2em", ".mrc", ".em"))):
        for si, stem in enumerate(("plain", "two.dots", "with.em", "with.mrc", "x.em.mrc", "x.mrc.em", "", "UPPER.MRC", "sp ace", "a.rec")):
            listing = []
            for label, mod in (("new", cryomap), ("old", orig)):
                d = os.path.join(tmp, f"names_{label}_{k}_{si}")
                os.makedirs(d, exist_ok=True)
                src = os.path.join(d, stem + iext)
                (raw_write_em if iext == ".em" else raw_write_mrc)(src, V8)
                getattr(mod, conv)(src, invert=True)
                getattr(mod, conv)(src)  # second call, same name: overwrites the inverted result
                listing.append(sorted(os.listdir(d)))
                out = os.path.join(d, stem + oext)
                check(os.path.exists(out), f"{conv}: default output name for {stem + iext!r} -> {listing[-1]}")
                check(np.array_equal(parse_any(out)[0], V8), f"{conv}: default-named output content {stem!r}")
            check(listing[0] == listing[1], f"{conv}: files produced {listing[0]} vs original {listing[1]}")
        # error order / types / messages for combinations of wrong things
        d = os.path.join(tmp, f"err_{k}")
        os.makedirs(d)
        good = os.path.join(d, "good" + iext)
        (raw_write_em if iext == ".em" else raw_write_mrc)(good, V8)
        combos = [
            dict(map_name=os.path.join(d, "missing" + iext)),
            dict(map_name=os.path.join(d, "missing" + iext), output_name=os.path.join(d, "bad.txt")),
            dict(map_name=os.path.join(d, "missing" + oext), output_name=os.path.join(d, "bad.txt")),
            dict(map_name=good, output_name=os.path.join(d, "bad" + iext)),
            dict(map_name=good, output_name=os.path.join(d, "bad.txt"), overwrite=False, invert=True),
            dict(map_name=good, output_name=os.path.join(d, "nodir", "x" + oext)),
            dict(map_name=good, output_name=""),
            dict(map_name=None, output_name=os.path.join(d, "x" + oext)),
            dict(map_name=V8),
            dict(map_name=good + ".1"),
        ]
        for kw in combos:
            got = []
            for mod in (cryomap, orig):
                try:
                    getattr(mod, conv)(**kw)
                    got.append(("ok",))
                except Exception as e:  # noqa
                    got.append((type(e).__name__, str(e)))
            check(got[0] == got[1], f"{conv}({kw}): now {got[0]}, original {got[1]}")
        check(sorted(os.listdir(d)) == ["good" + iext], f"{conv}: failed calls left files behind: {os.listdir(d)}")

    # ---- 9. file-name dispatch: every name decided the same way as the original, in mixed orders, repeatedly
    V = rand_vol((3, 5, 2), np.float32)
    raw_mrc = os.path.join(tmp, "disp_src.mrc")
    raw_em = os.path.join(tmp, "disp_src.em")
    raw_write_mrc(raw_mrc, V)
    raw_write_em(raw_em, V)
    names = ["a.mrc", "a.rec", "a.st", "a.ali", "a.mrc.1", "a.rec.23", "a.st.007", "a.em", "a.mrc.em", "a.em.mrc", "a.rec.em",
             "a.MRC", "a.mrcs", "a.mrc.", "a.em.1", "a.txt", "mrc", "em", "a.mrc.x", "a.emx", "a.mrc.1.2", "a.ali.5", ".mrc", ".em",
             "amrc", "a.st.em", "a.em.st"]
    order = list(rng.permutation(len(names))) + list(range(len(names))) + list(rng.permutation(len(names)))
    for round_, src_is_mrc in enumerate((True, False, True)):
        # the same names exist in every round, but their content format alternates: the decision must follow the
        # NAME exactly like the original, and the content must be re-read every time
        for i in order:
            p = os.path.join(tmp, "disp", str(round_ % 2), names[i])
            os.makedirs(os.path.dirname(p), exist_ok=True)
            shutil.copyfile(raw_mrc if src_is_mrc else raw_em, p)
            res = []
            for mod in (orig, cryomap):
                try:
                    res.append(("ok", mod.read(p)))
                except Exception as e:  # noqa
                    res.append(("err", type(e).__name__))
            check(res[0][0] == res[1][0], f"dispatch for file name {names[i]!r}: original {res[0][0]}, now {res[1][0]}")
            if res[0][0] == "ok":
                check(same(res[0][1], res[1][1]) and same(res[1][1], V), f"dispatch content {names[i]}")
            elif isinstance(res[0][1], str):
                check(res[0][1] == res[1][1], f"dispatch exception type for {names[i]!r}: {res[0][1]} vs {res[1][1]}")
    for bad in ("x.txt", "x.mrcs", "x", "x.st", "x.ali", "x.mrc.1", "x.MRC", "x.EM"):
        expect_raises(lambda: cryomap.write(V, os.path.join(tmp, bad)), ValueError, "write must refuse the name " + bad)
        check(not os.path.exists(os.path.join(tmp, bad)), "refused name still written " + bad)
    for bad in (None, 3, 2.5, [[1]], ("a.mrc",), b"a.mrc"):
        expect_raises(lambda: cryomap.read(bad), ValueError, f"read must refuse {bad!r}")

    # ---- 10. public signatures still accept today's keyword spellings
    import inspect
    for fn, kws in ((cryomap.read, ["transpose", "data_type"]), (cryomap.write, ["transpose", "data_type", "overwrite"]),
                    (cryomap.em2mrc, ["invert", "overwrite", "output_name"]), (cryomap.mrc2em, ["invert", "overwrite", "output_name"]),
                    (cryomap.invert_contrast, ["output_name"])):
        sig = inspect.signature(fn)
        osig = inspect.signature(getattr(orig, fn.__name__))
        for k in kws:
            check(k in sig.parameters and sig.parameters[k].default is osig.parameters[k].default if not isinstance(osig.parameters[k].default, bool) else sig.parameters[k].default == osig.parameters[k].default, f"{fn.__name__}: option {k} / default changed")
        check(list(sig.parameters)[: len(osig.parameters)] == list(osig.parameters), f"{fn.__name__}: parameter names/order changed")
finally:
    shutil.rmtree(tmp, ignore_errors=True)

print(f"PASS ({nchecks} checks)")
