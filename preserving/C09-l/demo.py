"""C09 / change b -- Motl.clean_by_tomo_mask: shortcuts for "no particle inside the mask volume" and "nothing to remove".

Property part checked here: cleaning by a tomogram mask removes exactly the particles inside the mask volume
that sit on zero voxels and keeps all others (particles outside the mask volume, particles of tomograms that are
not listed); survivors are not altered and keep their order.

1. oracle: one particle at a time, plain Python lookup of the voxel under the (integer part of the) complete
   position x + shift_x, ... -- compared with the tree's function
2. the tree's function is compared with a verbatim copy of the original function on the same inputs, including
   the inputs the shortcut is notorious for (nobody inside, nobody on a zero voxel, only row 0 on a zero voxel,
   a listed tomogram without particles, masks of different shapes).
"""
import sys, os

sys.path.insert(0, os.getcwd())

import io
import math
import contextlib
import numpy as np
import pandas as pd

from cryocat import cryomotl
from cryocat.cryomotl import Motl

ORIGINAL = '''
def clean_by_tomo_mask_orig(self, tomo_list, tomo_masks, inplace=True, output_file=None):
    tomos = ioutils.tlt_load(tomo_list)

    requries_loading = True

    if isinstance(tomo_masks, list):
        if len(tomos) != len(tomo_masks):
            raise ValueError(f"The list of tomograms has different length than lists of tomogram masks")
    else:
        tomo_mask = cryomap.binarize(tomo_masks)
        requries_loading = False

    cleaned_motl = Motl.load(self)

    for i, t in enumerate(tomos):
        tm = self.get_motl_subset(t, reset_index=True)
        coords = np.floor(tm.get_coordinates()).astype(int)
        if requries_loading:
            tomo_mask = cryomap.binarize(tomo_masks[i])

        # Ensure coordinates are within the bounds of the mask array
        within_bounds = (
            (coords[:, 0] >= 0)
            & (coords[:, 1] >= 0)
            & (coords[:, 2] >= 0)
            & (coords[:, 0] < tomo_mask.shape[0])
            & (coords[:, 1] < tomo_mask.shape[1])
            & (coords[:, 2] < tomo_mask.shape[2])
        )
        within_idx = np.where(within_bounds)[0]
        coords = coords[within_bounds]

        # Filter out coordinates where the mask value is 0
        mask_values = tomo_mask[coords[:, 0], coords[:, 1], coords[:, 2]]

        # Get the indices (within the tomogram subset) of the particles that sit on zero voxels
        idx_to_remove = within_idx[mask_values == 0]
        subtomo_idx = tm.df.loc[idx_to_remove, "subtomo_id"].values

        # only rows of this tomogram: subtomogram numbers may repeat in other tomograms
        hits = (cleaned_motl.df["tomo_id"] == t) & cleaned_motl.df["subtomo_id"].isin(subtomo_idx)
        cleaned_motl.df = cleaned_motl.df[~hits]

        print(f"Removed {str(idx_to_remove.shape[0])} particles from tomogram #{str(t)}")

    cleaned_motl.df.reset_index(inplace=True, drop=True)

    if output_file is not None:
        cleaned_motl.write_out(output_file)

    if inplace:
        self.df = cleaned_motl.df
    else:
        return cleaned_motl
'''
_ns = vars(cryomotl)
exec(ORIGINAL, _ns)
clean_orig = _ns["clean_by_tomo_mask_orig"]

rng = np.random.default_rng(int(os.environ.get("DEMO_SEED", "9092")))
failures = []
n_checked = 0


def run_quiet(fn, *a, **k):
    buf = io.StringIO()
    with contextlib.redirect_stdout(buf):
        res = fn(*a, **k)
    return res, buf.getvalue()


def make_motl(n, tomos, lo=-4.0, hi=16.0, integer=False, index=None, with_shifts=True):
    data = {c: rng.normal(size=n) for c in Motl.motl_columns}
    if integer:
        xyz = rng.integers(int(lo), int(hi), size=(n, 3)).astype(float)
    else:
        xyz = rng.uniform(lo, hi, size=(n, 3))
    data["x"], data["y"], data["z"] = xyz[:, 0], xyz[:, 1], xyz[:, 2]
    for c in ["shift_x", "shift_y", "shift_z"]:
        if not with_shifts:
            data[c] = np.zeros(n)
        elif integer:
            data[c] = rng.integers(-2, 3, size=n).astype(float)
        else:
            data[c] = rng.uniform(-1.5, 1.5, size=n)
    data["tomo_id"] = rng.choice(np.asarray(tomos, dtype=float), size=n) if n else np.zeros(0)
    data["object_id"] = rng.integers(0, 4, size=n).astype(float)
    data["subtomo_id"] = rng.permutation(np.arange(1, n + 1)).astype(float)  # unique over the whole list
    df = pd.DataFrame(data, columns=Motl.motl_columns).astype(float)
    if index is not None:
        df.index = index(n)
    return df


def make_mask(shape, fill):
    if fill == "ones":
        return np.ones(shape)
    if fill == "zeros":
        return np.zeros(shape)
    m = (rng.random(shape) < fill).astype(float)
    if rng.random() < 0.5:
        m = m * rng.uniform(0.6, 3.0)  # non-binary values: binarised with > 0.5
    return m


def oracle(df, tomos, masks):
    """masks: dict tomo -> ndarray.  A particle is removed iff its tomogram is listed, the voxel under the
    integer part of its complete position exists in the mask and the mask is not above 0.5 there."""
    keep = []
    for i in range(len(df)):
        r = df.iloc[i]
        t = r["tomo_id"]
        removed = False
        if t in masks:
            m = masks[t]
            c = [
                math.floor(r["x"] + r["shift_x"]),
                math.floor(r["y"] + r["shift_y"]),
                math.floor(r["z"] + r["shift_z"]),
            ]
            inside = all(0 <= c[k] < m.shape[k] for k in range(3))
            if inside and not (m[c[0], c[1], c[2]] > 0.5):
                removed = True
        if not removed:
            keep.append(i)
    return df.iloc[keep].reset_index(drop=True)


def same_frame(a, b):
    if list(a.columns) != list(b.columns) or a.shape != b.shape or not a.index.equals(b.index):
        return False
    if list(a.dtypes) != list(b.dtypes):
        return False
    if a.shape[0] == 0:
        return True
    return bool(np.array_equal(a.to_numpy(dtype=float), b.to_numpy(dtype=float), equal_nan=True))


def run_case(tag, df, tomo_list, tomo_masks, check_oracle=True):
    global n_checked
    n_checked += 1
    before = df.copy(deep=True)
    outs = {}
    for name in ("new", "old"):
        m = Motl(df.copy(deep=True))
        try:
            if name == "new":
                res, text = run_quiet(m.clean_by_tomo_mask, tomo_list, tomo_masks, inplace=False)
            else:
                res, text = run_quiet(clean_orig, m, tomo_list, tomo_masks, inplace=False)
            outs[name] = ("ok", res.df, text)
        except Exception as e:  # noqa
            outs[name] = ("err", type(e).__name__, str(e))
        if outs[name][0] == "ok" and not same_frame(m.df, before):
            failures.append(f"{tag}: inplace=False altered the list ({name})")
    if outs["new"][0] != outs["old"][0]:
        failures.append(f"{tag}: error behaviour differs: {outs['new'][:2]} vs {outs['old'][:2]}")
        return
    if outs["new"][0] == "err":
        if outs["new"] != outs["old"]:
            failures.append(f"{tag}: different errors: {outs['new']} vs {outs['old']}")
        return
    res_new, res_old = outs["new"][1], outs["old"][1]
    if not same_frame(res_new, res_old):
        failures.append(f"{tag}: result differs from the original function")
    if outs["new"][2] != outs["old"][2]:
        failures.append(f"{tag}: printed report differs from the original function")
    # in place, then a second call on the same object (idempotent)
    mi = Motl(df.copy(deep=True))
    ret, _ = run_quiet(mi.clean_by_tomo_mask, tomo_list, tomo_masks)
    if ret is not None or not same_frame(mi.df, res_new):
        failures.append(f"{tag}: in-place result differs")
    run_quiet(mi.clean_by_tomo_mask, tomo_list, tomo_masks)
    if not same_frame(mi.df, res_new):
        failures.append(f"{tag}: second call on the same object changed the list")
    if check_oracle:
        tl = list(np.asarray(tomo_list, dtype=float))
        if isinstance(tomo_masks, list):
            md = {t: np.asarray(mm) for t, mm in zip(tl, tomo_masks)}
        else:
            md = {t: np.asarray(tomo_masks) for t in tl}
        exp = oracle(before, tl, md)
        if not same_frame(res_new, exp):
            failures.append(f"{tag}: survivors differ from the oracle (got {len(res_new)}, expected {len(exp)})")


# ---- random sweeps ---------------------------------------------------------------------------------------
tomo_sets = [[1], [3, 7], [2, 5, 11], [1, 2, 3, 40]]
shapes = [(12, 12, 12), (9, 14, 11), (16, 7, 10), (5, 5, 20)]
indexers = [None, lambda n: np.arange(n)[::-1] * 2 + 50, lambda n: rng.permutation(n) + 7]
for rep in range(160):
    tomos = tomo_sets[rep % 4]
    n = int(rng.choice([1, 2, 5, 20, 60]))
    df = make_motl(n, tomos, integer=rep % 2 == 0, index=indexers[rep % 3], with_shifts=rep % 5 != 0)
    fill = rng.choice(["ones", "zeros", 0.5, 0.9, 0.1], p=[0.2, 0.15, 0.3, 0.2, 0.15])
    fill = float(fill) if fill not in ("ones", "zeros") else str(fill)
    mode = rep % 4
    if mode == 0:  # one mask for all listed tomograms
        listed = tomos
        masks = make_mask(shapes[rep % len(shapes)], fill)
    elif mode == 1:  # one mask per tomogram, different dimensions
        listed = tomos
        masks = [make_mask(shapes[(rep + k) % len(shapes)], fill) for k in range(len(listed))]
    elif mode == 2:  # only some tomograms listed, plus one that has no particles
        listed = tomos[: max(1, len(tomos) - 1)] + [77]
        masks = [make_mask(shapes[(rep + k) % len(shapes)], fill) for k in range(len(listed))]
    else:  # ndarray as list of tomograms, listed in another order
        listed = np.asarray(tomos[::-1], dtype=float)
        masks = [make_mask(shapes[(rep + k) % len(shapes)], fill) for k in range(len(listed))]
    run_case(f"random#{rep}", df, listed, masks)

# ---- boundary inputs ---------------------------------------------------------------------------------------
base = make_motl(6, [4], with_shifts=False)
base[["x", "y", "z"]] = np.array(
    [[1, 1, 1], [2, 2, 2], [3, 3, 3], [4, 4, 4], [5, 5, 5], [6, 6, 6]], dtype=float
)
ones = np.ones((8, 8, 8))


def hole(*voxels):
    m = ones.copy()
    for v in voxels:
        m[v] = 0
    return m


run_case("nobody-on-zero", base, [4], ones)
run_case("everybody-on-zero", base, [4], np.zeros((8, 8, 8)))
run_case("only-row-0-on-zero", base, [4], hole((1, 1, 1)))
run_case("only-last-row-on-zero", base, [4], hole((6, 6, 6)))
run_case("row-0-and-last", base, [4], hole((1, 1, 1), (6, 6, 6)))
# nobody inside the mask volume (all beyond the upper faces / all negative)
far = base.copy()
far[["x", "y", "z"]] += 100.0
run_case("nobody-inside-upper", far, [4], np.zeros((8, 8, 8)))
neg = base.copy()
neg[["x", "y", "z"]] -= 50.0
run_case("nobody-inside-lower", neg, [4], np.zeros((8, 8, 8)))
# only row 0 inside (on zero / on one); only the last row inside
r0 = far.copy()
r0.loc[0, ["x", "y", "z"]] = [0.0, 0.0, 0.0]
run_case("only-row-0-inside-zero", r0, [4], np.zeros((8, 8, 8)))
run_case("only-row-0-inside-one", r0, [4], ones)
rl = far.copy()
rl.loc[5, ["x", "y", "z"]] = [7.0, 7.0, 7.0]
run_case("only-last-inside-zero", rl, [4], np.zeros((8, 8, 8)))
# faces: coordinate 0 is inside, coordinate == dimension is outside, dimension - 1 is inside
face = base.copy()
face.loc[0, ["x", "y", "z"]] = [0.0, 3.0, 3.0]
face.loc[1, ["x", "y", "z"]] = [8.0, 3.0, 3.0]
face.loc[2, ["x", "y", "z"]] = [7.0, 7.0, 7.0]
face.loc[3, ["x", "y", "z"]] = [3.0, 3.0, 8.0]
face.loc[4, ["x", "y", "z"]] = [3.0, -1.0, 3.0]
face.loc[5, ["x", "y", "z"]] = [7.9, 0.2, 0.0]
run_case("faces-zeros", face, [4], np.zeros((8, 8, 8)))
run_case("faces-ones", face, [4], ones)
# shifts move a particle into / out of the volume
sh = base.copy()
sh["shift_x"] = [0.0, 6.0, -3.0, 0.0, 0.0, 2.0]
run_case("shifts", sh, [4], np.zeros((8, 8, 8)))
run_case("shifts-hole", sh, [4], hole((0, 3, 3), (4, 4, 4)))
# listed tomogram without particles; tomogram of the list not listed
two = pd.concat([base, base.assign(tomo_id=9.0, subtomo_id=base["subtomo_id"] + 100)], ignore_index=True)
run_case("listed-without-particles", base, [4, 5], [ones, np.zeros((8, 8, 8))])
run_case("only-empty-tomo-listed", base, [5], np.zeros((8, 8, 8)))
run_case("second-not-listed", two, [4], np.zeros((8, 8, 8)))
run_case("first-clean-second-emptied", two, [4, 9], [ones, np.zeros((8, 8, 8))])
run_case("first-emptied-second-clean", two, [4, 9], [np.zeros((8, 8, 8)), ones])
run_case("first-outside-second-row0", two, [4, 9], [np.zeros((1, 1, 1)), hole((1, 1, 1))])
inter = two.iloc[[6, 0, 7, 1, 8, 2, 9, 3, 10, 4, 11, 5]].reset_index(drop=True)
run_case("interleaved", inter, [9, 4], [hole((1, 1, 1)), hole((6, 6, 6))])
# single-row lists
single = base.iloc[[0]].reset_index(drop=True)
run_case("single-on-zero", single, [4], np.zeros((8, 8, 8)))
run_case("single-on-one", single, [4], ones)
run_case("single-outside", single, [4], np.zeros((1, 1, 1)))
# outside the quantifier: both versions must agree (result or error); no oracle
dup = two.copy()
dup["subtomo_id"] = list(range(1, 7)) * 2  # ids repeated in the two tomograms
run_case("repeated-ids", dup, [4], hole((1, 1, 1)), check_oracle=False)
run_case("mask-count-mismatch", base, [4, 5], [ones], check_oracle=False)
run_case("empty-list", Motl.create_empty_motl_df(), [4], ones, check_oracle=False)
run_case("2d-mask", base, [4], np.ones((8, 8)), check_oracle=False)

if failures:
    print(f"FAIL ({len(failures)} findings in {n_checked} cases)")
    for f in failures[:20]:
        print("  ", f)
    sys.exit(1)
print(f"PASS ({n_checked} cases: per-particle oracle, original-vs-current incl. printed report, in-place, repeated call)")
