import os, sys

sys.path.insert(0, os.getcwd())

import contextlib, io, itertools, shutil, tempfile, textwrap, warnings
import numpy as np
import mrcfile

from cryocat import tiltstack, cryomap, ioutils

assert os.path.abspath(tiltstack.__file__).startswith(os.getcwd()), "run from the worktree"

FAILS = []
N_CHECKS = [0]
TMP = tempfile.mkdtemp(prefix="c15demo_")
ORDERS = ("xyz", "zyx")


def check(cond, msg):
    N_CHECKS[0] += 1
    if not cond:
        FAILS.append(msg)
        if len(FAILS) <= 20:
            print("FAIL:", msg)


def quiet(fn, *args, **kwargs):
    """call a cryoCAT function with its progress prints swallowed"""
    with contextlib.redirect_stdout(io.StringIO()):
        return fn(*args, **kwargs)


def same(a, b):
    a = np.asarray(a)
    b = np.asarray(b)
    if a.shape != b.shape or a.dtype != b.dtype:
        return False
    if a.dtype.kind in "fc":
        return bool(np.array_equal(a, b, equal_nan=True))
    return bool(np.array_equal(a, b))


def outcome(fn, *args, **kwargs):
    """('ok', value) or ('raise', exception type, message) -- for original-vs-patched comparisons"""
    try:
        with warnings.catch_warnings():
            warnings.simplefilter("ignore")
            return ("ok", quiet(fn, *args, **kwargs))
    except Exception as err:  # noqa: BLE001 - the type is what is compared
        return ("raise", type(err), str(err))


def same_outcome(o1, o2):
    if o1[0] != o2[0]:
        return False
    if o1[0] == "raise":
        return o1[1] is o2[1] and o1[2] == o2[2]
    v1, v2 = o1[1], o2[1]
    if isinstance(v1, tuple):
        return isinstance(v2, tuple) and len(v1) == len(v2) and all(same(x, y) for x, y in zip(v1, v2))
    return same(v1, v2)


def read_raw(path):
    """independent reader: the voxels of an MRC file exactly as stored (n, y, x)"""
    with mrcfile.open(path, permissive=True) as m:
        return np.array(m.data)


def make_stack(rng, n, h, w, dtype, integral=False):
    """canonical stack S[n, y, x]"""
    if dtype == np.int16:
        s = rng.integers(-3000, 3000, size=(n, h, w)).astype(np.int16)
        s[rng.random((n, h, w)) < 0.1] = 0
    else:
        if integral:
            s = rng.integers(-500, 500, size=(n, h, w)).astype(np.float32)
        else:
            s = (rng.standard_normal((n, h, w)) * 50).astype(np.float32)
        s[rng.random((n, h, w)) < 0.1] = 0.0
    return s


class Presenter:
    """hands the same canonical stack to the code as array (either axis order) or as MRC file"""

    def __init__(self, stack, tag):
        self.stack = stack
        self.tag = tag
        self.path = os.path.join(TMP, f"in_{tag}.mrc")
        mrcfile.write(self.path, stack, overwrite=True)

    def give(self, as_file, input_order):
        if as_file:
            return self.path
        if input_order == "xyz":
            return np.ascontiguousarray(self.stack.transpose(2, 1, 0))
        return self.stack.copy()


def to_canonical(result, output_order):
    return result.transpose(2, 1, 0) if output_order == "xyz" else result


def ref_bin(stack, b):
    """block means with zero padding up to a multiple of b, cast like the code casts (astype of the stack's dtype)"""
    n, h, w = stack.shape
    hp, wp = -(-h // b) * b, -(-w // b) * b
    padded = np.zeros((n, hp, wp), dtype=np.float64)
    padded[:, :h, :w] = stack
    out = np.zeros((n, hp // b, wp // b), dtype=np.float64)
    for i in range(hp // b):
        for j in range(wp // b):
            out[:, i, j] = padded[:, i * b : (i + 1) * b, j * b : (j + 1) * b].sum(axis=(1, 2)) / (b * b)
    return out


def angles_without_ties(rng, n, kind):
    if kind == 0:  # random order, mixed signs, contains an exact zero
        a = rng.permutation(np.arange(n) - n // 2) * 3.0
    elif kind == 1:  # already ascending
        a = np.sort(rng.uniform(-70, 70, n))
    elif kind == 2:  # descending
        a = np.sort(rng.uniform(-70, 70, n))[::-1].copy()
    elif kind == 3:  # dose-symmetric like 0, 3, -3, 6, -6 ...
        a = np.array([((i + 1) // 2) * 3.0 * (1 if i % 2 else -1) for i in range(n)])
    else:  # integer angles
        a = rng.permutation(np.arange(n) * 2 - n)
    assert len(np.unique(a)) == n
    return a


def property_run(seed, n, h, w, dtype, integral=False):
    """all operations of the property on one stack, over input_order x output_order x array/file x output file"""
    rng = np.random.default_rng(seed)
    S = make_stack(rng, n, h, w, dtype, integral)
    tag = f"{seed}_{n}_{h}_{w}_{np.dtype(dtype).name}"
    pres = Presenter(S, tag)
    angle_kind = seed % 5
    angles = angles_without_ties(rng, n, angle_kind)
    if seed % 3 == 0:
        tlt_in = os.path.join(TMP, f"a_{tag}.tlt")
        np.savetxt(tlt_in, np.asarray(angles, dtype=float), fmt="%.4f")
        angles_for_ref = np.loadtxt(tlt_in, dtype=np.float32, ndmin=1)
    elif seed % 3 == 1:
        tlt_in = list(angles)
        angles_for_ref = angles
    else:
        tlt_in = np.asarray(angles)
        angles_for_ref = angles
    assert len(set(np.asarray(angles_for_ref).tolist())) == n
    order_ref = sorted(range(n), key=lambda i: angles_for_ref[i])

    # index subsets: first, last, first+last, random, all but one, repeated entries, unsorted
    subsets = [[0], [n - 1], [0, n - 1], sorted(rng.choice(n, size=max(1, n // 3), replace=False).tolist())]
    subsets.append([i for i in range(n) if i != n // 2])
    subsets.append([n - 1, 0, n - 1])
    subset = subsets[seed % len(subsets)]

    b = [1, 2, 3, 4][seed % 4]
    nw = [None, w, 1, max(1, w - 1), max(1, w // 2), max(1, w - 3)][seed % 6]
    nh = [h, None, max(1, h // 2), 1, max(1, h - 1), max(1, h - 2)][seed % 6]
    flip_axes = [["x"], ["y"], ["z"], "x", ["x", "y"], ["z", "x", "y"]][seed % 6]

    results = {}
    for as_file, io_, oo, with_out in itertools.product((False, True), ORDERS, ORDERS, (False, True)):
        cfg = f"[{tag} file={as_file} in={io_} out={oo} write={with_out}]"
        kw = dict(input_order=io_, output_order=oo)

        def outp(name):
            return os.path.join(TMP, f"out_{name}.mrc") if with_out else None

        def verify(name, got, expected, approx=False):
            gc = to_canonical(got, oo)
            check(got.dtype == S.dtype, f"{name} dtype {got.dtype} {cfg}")
            if approx:
                check(gc.shape == expected.shape and np.allclose(gc, expected, rtol=1e-5, atol=1e-3), f"{name} values {cfg}")
            else:
                check(same(gc, expected), f"{name} returned array {cfg}")
            if with_out:
                stored = read_raw(outp(name))
                check(same(stored, gc), f"{name} written file differs from returned result {cfg}")
                os.remove(outp(name))
            key = name
            if key in results and approx:
                # float32 block sums depend on the memory layout in the last bit (x,y,n input is a transposed view)
                agree = results[key].shape == gc.shape and np.allclose(results[key], gc, rtol=1e-5, atol=1e-3)
                check(agree, f"{name} differs between presentations {cfg}")
            elif key in results:
                check(same(results[key], gc), f"{name} differs between presentations {cfg}")
            else:
                results[key] = np.array(gc)

        given = pres.give(as_file, io_)
        given_copy = None if as_file else given.copy()

        # sorting
        got = quiet(tiltstack.sort_tilts_by_angle, given, tlt_in, output_file=outp("sort"), **kw)
        verify("sort", got, S[order_ref])

        # removing, 0- and 1-based
        keep = [i for i in range(n) if i not in set(subset)]
        if keep:
            got = quiet(tiltstack.remove_tilts, given, list(subset), numbered_from_1=False, output_file=outp("rm0"), **kw)
            verify("rm0", got, S[keep])
            got = quiet(
                tiltstack.remove_tilts, given, np.asarray(subset) + 1, numbered_from_1=True, output_file=outp("rm1"), **kw
            )
            verify("rm1", got, S[keep])
            got = quiet(tiltstack.remove_tilts, given, [i + 1 for i in subset], output_file=outp("rm1d"), **kw)
            verify("rm1d", got, S[keep])

        # even / odd
        prefix = os.path.join(TMP, "out_eo") if with_out else None
        ev, od = quiet(tiltstack.split_stack_even_odd, given, output_file_prefix=prefix, **kw)
        evc, odc = to_canonical(ev, oo), to_canonical(od, oo)
        merged = np.empty_like(S)
        check(evc.shape[0] == (n + 1) // 2 and odc.shape[0] == n // 2, f"even/odd counts {cfg}")
        if evc.shape[0] == (n + 1) // 2 and odc.shape[0] == n // 2:
            merged[0::2] = evc
            merged[1::2] = odc
            check(same(merged, S), f"even/odd do not interleave back {cfg}")
        check(ev.dtype == S.dtype and od.dtype == S.dtype, f"even/odd dtype {cfg}")
        if with_out:
            check(same(read_raw(prefix + "_even.mrc"), evc), f"even file {cfg}")
            check(same(read_raw(prefix + "_odd.mrc"), odc), f"odd file {cfg}")
            os.remove(prefix + "_even.mrc")
            os.remove(prefix + "_odd.mrc")

        # flipping: concrete definition, twice = identity, each single axis
        got = quiet(tiltstack.flip_along_axes, given, flip_axes, output_file=outp("flip"), **kw)
        exp = S
        for a in flip_axes if isinstance(flip_axes, list) else [flip_axes]:
            exp = {"x": exp[:, ::-1, :], "y": exp[:, :, ::-1], "z": exp[::-1, :, :]}[a]
        verify("flip", got, exp)
        for a in ("x", "y", "z"):
            once = quiet(tiltstack.flip_along_axes, given, a, **kw)
            twice = quiet(tiltstack.flip_along_axes, np.ascontiguousarray(once), [a], input_order=oo, output_order=oo)
            check(same(to_canonical(twice, oo), S), f"flip {a} twice is not the identity {cfg}")
            both = quiet(tiltstack.flip_along_axes, given, [a, a], **kw)
            check(same(to_canonical(both, oo), S), f"flip [{a},{a}] is not the identity {cfg}")
            axis_np = {"x": 1, "y": 2, "z": 0}[a]
            check(same(to_canonical(once, oo), np.flip(S, axis=axis_np)), f"flip {a} {cfg}")

        # centred crop
        cw = w if nw is None else nw
        ch = h if nh is None else nh
        sw, sh = w // 2 - cw // 2, h // 2 - ch // 2
        got = quiet(tiltstack.crop, given, new_width=nw, new_height=nh, output_file=outp("crop"), **kw)
        verify("crop", got, S[:, sh : sh + ch, sw : sw + cw])

        # binning
        got = quiet(tiltstack.bin, given, b, output_file=outp("bin"), **kw)
        means = ref_bin(S, b)
        if S.dtype == np.int16 or integral:
            # sums of whole numbers are exact in any order, so the block mean is one well-defined double
            verify("bin", got, means.astype(S.dtype))
        else:
            verify("bin", got, means.astype(S.dtype), approx=True)

        # the caller's array is left alone
        if not as_file:
            check(same(given, given_copy), f"input array modified {cfg}")
    # the input file is left alone
    check(same(read_raw(pres.path), S), f"input file modified [{tag}]")
    os.remove(pres.path)


def property_suite():
    rng = np.random.default_rng(20240615)
    cases = [
        (2, 4, 5, np.float32),
        (2, 5, 4, np.int16),
        (3, 4, 40, np.int16),
        (3, 40, 4, np.float32),
        (25, 7, 6, np.int16),
        (25, 6, 9, np.float32),
        (5, 12, 9, np.int16),
        (6, 9, 12, np.float32),
        (4, 8, 6, np.int16),
        (7, 11, 10, np.float32),
    ]
    for _ in range(14):
        n = int(rng.integers(2, 26))
        h = int(rng.integers(4, 41))
        w = int(rng.integers(4, 41))
        if h == w:
            w = w + 1 if w < 40 else w - 1
        cases.append((n, h, w, [np.float32, np.int16][int(rng.integers(0, 2))]))
    for seed, (n, h, w, dt) in enumerate(cases):
        if n * h * w > 9000:  # keep the run short: shrink the number of tilts, not the image shape
            n = max(2, 9000 // (h * w))
        property_run(seed, n, h, w, dt, integral=(seed % 2 == 0))


def original(module, source):
    """the original function text, evaluated in a copy of the module's namespace"""
    ns = dict(vars(module))
    exec(textwrap.dedent(source), ns)
    return ns


def finish():
    shutil.rmtree(TMP, ignore_errors=True)
    if FAILS:
        print(f"FAIL ({len(FAILS)} of {N_CHECKS[0]} checks)")
        sys.exit(1)
    print(f"PASS ({N_CHECKS[0]} checks)")
    sys.exit(0)


# ---------------------------------------------------------------------------------------------------------------------
# change (b): cryomap.read opens MRC files in a with-block (closed on leaving it) and uses the array afterwards
# ---------------------------------------------------------------------------------------------------------------------
ORIGINAL_READ = '''
def read(input_map, transpose=True, data_type=None):
    if isinstance(input_map, str):

        def valid_mrc(filename):
            pattern = r"\\.(mrc|ali|rec|st)(\\.\\d+)?$"
            return bool(re.search(pattern, filename))

        if valid_mrc(input_map):
            data = mrcfile.open(input_map).data
        elif input_map.endswith(".em"):
            data = emfile.read(input_map)[1]
        else:
            raise ValueError("The input map file name", input_map, "is neither em or mrc file!")

        if transpose:
            data = data.transpose(2, 1, 0)
    elif isinstance(input_map, np.ndarray):
        data = np.array(input_map)
    else:
        raise ValueError(f"Input map must be path to valid file or nparray")

    data = np.array(data, copy=True)
    if data_type is not None:
        data = data.astype(data_type)

    return data
'''


def compare_read_with_original():
    import gzip

    orig = original(cryomap, ORIGINAL_READ)["read"]
    rng = np.random.default_rng(11)
    files = []

    def add(name, array, writer="mrc"):
        path = os.path.join(TMP, name)
        if writer == "mrc":
            mrcfile.write(path, array, overwrite=True)
        elif writer == "em":
            cryomap.write(array, path, transpose=False)
        files.append(path)
        return path

    add("r_f32.mrc", make_stack(rng, 3, 5, 7, np.float32))
    add("r_i16.mrc", make_stack(rng, 4, 6, 5, np.int16))
    add("r_two.mrc", make_stack(rng, 2, 4, 9, np.int16))
    add("r_25.mrc", make_stack(rng, 25, 4, 5, np.float32))
    add("r_i8.mrc", rng.integers(-100, 100, size=(3, 4, 5)).astype(np.int8))
    add("r_u16.mrc", rng.integers(0, 60000, size=(3, 4, 5)).astype(np.uint16))
    add("r_c64.mrc", (rng.standard_normal((2, 3, 4)) + 1j * rng.standard_normal((2, 3, 4))).astype(np.complex64))
    add("r_single_image.mrc", make_stack(rng, 1, 5, 7, np.float32)[0])  # 2D file: transposing it fails, both versions
    add("r_one_tilt.mrc", make_stack(rng, 1, 5, 7, np.float32))
    add("r_zeros.mrc", np.zeros((2, 4, 5), dtype=np.float32))
    add("r_nan.mrc", np.full((2, 4, 5), np.nan, dtype=np.float32))
    # the other accepted extensions (written as .mrc, then renamed) and a numbered file
    for ext in (".rec", ".st", ".ali", ".mrc.3", ".st.12"):
        src = add("tmp_ext.mrc", make_stack(rng, 3, 4, 6, np.int16))
        files.pop()
        dst = os.path.join(TMP, "r_ext" + ext)
        shutil.move(src, dst)
        files.append(dst)
    # gzip content under an .mrc name (mrcfile.open looks at the magic bytes)
    src = add("tmp_gz.mrc", make_stack(rng, 3, 4, 6, np.float32))
    files.pop()
    with open(src, "rb") as fin, gzip.open(os.path.join(TMP, "r_gz.mrc"), "wb") as fout:
        fout.write(fin.read())
    files.append(os.path.join(TMP, "r_gz.mrc"))
    add("r_em.em", make_stack(rng, 3, 4, 6, np.float32), writer="em")
    # inputs that fail: the same exception from the same place
    files.append(os.path.join(TMP, "r_missing.mrc"))
    bad = os.path.join(TMP, "r_garbage.mrc")
    with open(bad, "wb") as f:
        f.write(b"not an mrc file at all" * 100)
    files.append(bad)
    empty = os.path.join(TMP, "r_empty.mrc")
    open(empty, "wb").close()
    files.append(empty)
    trunc = os.path.join(TMP, "r_truncated.mrc")
    with open(files[0], "rb") as fin, open(trunc, "wb") as fout:
        fout.write(fin.read()[:1100])  # header + a few voxels only
    files.append(trunc)
    files.append(os.path.join(TMP, "r_wrong_extension.tif"))
    files.append(TMP)  # a directory

    for path, transpose, data_type in itertools.product(files, (True, False), (None, np.float32, np.float64, np.int16)):
        o_new = outcome(cryomap.read, path, transpose=transpose, data_type=data_type)
        o_old = outcome(orig, path, transpose=transpose, data_type=data_type)
        cfg = f"[{os.path.basename(path)} transpose={transpose} data_type={data_type}]"
        check(same_outcome(o_new, o_old), f"cryomap.read differs from the original {cfg}: {o_new[:2]} / {o_old[:2]}")
        if o_new[0] == "ok":
            a = o_new[1]
            check(a.flags.writeable and a.flags.owndata, f"result is not an independent array {cfg}")
    for arr in (make_stack(rng, 3, 4, 5, np.int16), np.zeros((0, 3, 3)), np.float32(2.0) * np.ones((2, 2))):
        check(same_outcome(outcome(cryomap.read, arr), outcome(orig, arr)), "array input")
    for other in (None, 3, ["a.mrc"]):
        check(same_outcome(outcome(cryomap.read, other), outcome(orig, other)), f"input {other!r}")

    # the notorious case of this idiom: the array is used after the file has been closed / removed / rewritten
    S = make_stack(rng, 6, 5, 8, np.int16)
    path = os.path.join(TMP, "r_lifetime.mrc")
    mrcfile.write(path, S, overwrite=True)
    a1 = quiet(cryomap.read, path, transpose=False)
    a2 = quiet(cryomap.read, path, transpose=False)  # repeated read of the same file
    a1[0, 0, 0] += 1  # writable, and not shared with the second read or with the file
    check(same(a2, S) and same(read_raw(path), S), "result shares memory with the file or a later read")
    mrcfile.write(path, np.zeros_like(S), overwrite=True)  # file rewritten after the read
    check(same(a2, S), "array changed when the file was rewritten")
    os.remove(path)
    check(same(a2, S), "array changed when the file was removed")
    check(int(a2.sum()) == int(S.sum()), "array unusable after the file was removed")

    # in-place use through the tilt-stack functions: output file = input file (needs the handle to be released)
    for dt in (np.float32, np.int16):
        S = make_stack(rng, 5, 6, 9, dt)
        path = os.path.join(TMP, "r_inplace.mrc")
        mrcfile.write(path, S, overwrite=True)
        got = quiet(tiltstack.remove_tilts, path, [1, 5], output_file=path, output_order="zyx")
        check(same(got, S[[1, 2, 3]]) and same(read_raw(path), S[[1, 2, 3]]), "remove_tilts in place")
        got = quiet(tiltstack.flip_along_axes, path, ["z"], output_file=path, output_order="zyx")
        check(same(got, S[[3, 2, 1]]) and same(read_raw(path), S[[3, 2, 1]]), "flip in place")
        got = quiet(tiltstack.crop, path, new_width=4, new_height=3, output_file=path, output_order="xyz")
        exp = S[[3, 2, 1]][:, 3 - 1 : 3 - 1 + 3, 4 - 2 : 4 - 2 + 4]
        check(same(got.transpose(2, 1, 0), exp) and same(read_raw(path), exp), "crop in place")
        os.remove(path)

    # no handle is left open by a read (patched tree: by construction; original: released by reference counting)
    import gc

    path = os.path.join(TMP, "r_handles.mrc")
    mrcfile.write(path, make_stack(rng, 3, 4, 5, np.float32), overwrite=True)
    fd_dir = "/proc/self/fd"
    if os.path.isdir(fd_dir):
        gc.collect()
        before = len(os.listdir(fd_dir))
        keep = [quiet(cryomap.read, path) for _ in range(50)]
        gc.collect()
        check(len(os.listdir(fd_dir)) <= before, "file handles left open after reading")
        check(all(same(k, keep[0]) for k in keep), "repeated reads differ")


property_suite()
compare_read_with_original()
finish()
