"""C03 / change a: tilt statistics for the debug log in RelionMotl.convert_angles_to_relion (np.percentile with
overwrite_input=True on a private copy).  Tests the property C03 against hand-written rotation matrices, an independent STAR
writer and parser, and compares the function of the tree with the original text of the function.
run: cd /tmp/wt11/C03 && /venv/bin/python /tmp/seedsV/C03/a/demo.py"""
import sys, os

sys.path.insert(0, os.getcwd())
import copy, io, logging, re, tempfile, textwrap, warnings

warnings.simplefilter("ignore")
import numpy as np
import pandas as pd

from cryocat import cryomotl
from cryocat.cryomotl import RelionMotl, Motl

FAILS = []
NCHECK = [0]


def check(cond, msg):
    NCHECK[0] += 1
    if not cond:
        FAILS.append(msg)
        if len(FAILS) <= 25:
            print("FAIL:", msg)


# ----------------------------------------------------------------------------------------------------------------
# independent statement of the conventions (hand-written matrices, no scipy)
# ----------------------------------------------------------------------------------------------------------------
def Rz(a):
    a = np.deg2rad(np.asarray(a, dtype=float))
    c, s, o, l = np.cos(a), np.sin(a), np.zeros_like(a), np.ones_like(a)
    return np.stack([np.stack([c, -s, o], -1), np.stack([s, c, o], -1), np.stack([o, o, l], -1)], -2)


def Rx(a):
    a = np.deg2rad(np.asarray(a, dtype=float))
    c, s, o, l = np.cos(a), np.sin(a), np.zeros_like(a), np.ones_like(a)
    return np.stack([np.stack([l, o, o], -1), np.stack([o, c, -s], -1), np.stack([o, s, c], -1)], -2)


def Ry(a):
    a = np.deg2rad(np.asarray(a, dtype=float))
    c, s, o, l = np.cos(a), np.sin(a), np.zeros_like(a), np.ones_like(a)
    return np.stack([np.stack([c, o, s], -1), np.stack([o, l, o], -1), np.stack([-s, o, c], -1)], -2)


def R_cryocat(phi, theta, psi):
    """particle rotation of cryoCAT: extrinsic z-x-z, i.e. first phi about z, then theta about x, then psi about z"""
    return Rz(psi) @ Rx(theta) @ Rz(phi)


def R_relion(rot_, tilt, psi):
    """RELION: intrinsic Z-Y-Z (rot, tilt, psi)"""
    return Rz(rot_) @ Ry(tilt) @ Rz(psi)


def T(m):
    return np.swapaxes(m, -1, -2)


def maxdiff(a, b):
    a = np.asarray(a, dtype=float)
    b = np.asarray(b, dtype=float)
    if a.shape != b.shape:
        return np.inf
    if a.size == 0:
        return 0.0
    d = np.abs(a - b)
    return np.inf if np.isnan(d).any() else float(d.max())


# ----------------------------------------------------------------------------------------------------------------
# generators
# ----------------------------------------------------------------------------------------------------------------
def gen_motl(rng, n, kind="random"):
    df = pd.DataFrame(np.zeros((n, 20)), columns=Motl.motl_columns)
    ntomo = int(rng.integers(1, 6))
    tomos = np.sort(rng.choice(np.arange(1, 1500), size=ntomo, replace=False))
    df["tomo_id"] = np.sort(rng.choice(tomos, size=n)).astype(float)
    step = rng.integers(1, 4, size=n)
    df["subtomo_id"] = (np.cumsum(step) + int(rng.integers(0, 50))).astype(float)
    if kind == "all_odd":
        df["subtomo_id"] = (2 * np.arange(n) + 1).astype(float)
    df["class"] = rng.integers(1, 6, size=n).astype(float)
    df["object_id"] = rng.integers(1, 9, size=n).astype(float)
    df["score"] = rng.uniform(0, 1, n)
    scale = 10.0 ** rng.integers(0, 4)
    df[["x", "y", "z"]] = np.round(rng.uniform(-scale, scale, (n, 3)))
    df[["shift_x", "shift_y", "shift_z"]] = rng.uniform(-5, 5, (n, 3))
    ang = rng.uniform(-720, 720, (n, 3))
    if kind == "canonical":
        ang = np.column_stack([rng.uniform(-180, 180, n), rng.uniform(0, 180, n), rng.uniform(-180, 180, n)])
    if kind in ("gimbal", "random"):
        lock = rng.random(n) < (0.6 if kind == "gimbal" else 0.15)
        ang[lock, 1] = rng.choice([0.0, 180.0, -180.0, 360.0, -0.0, 540.0], size=int(lock.sum()))
    if kind == "zeros":
        ang[:] = 0.0
        df[["shift_x", "shift_y", "shift_z"]] = 0.0
    if kind == "same_tilt":
        ang[:, 1] = 37.5
    if kind == "descending_tilt":
        ang[:, 0] = 0.0
        ang[:, 2] = 0.0
        ang[:, 1] = np.linspace(179.0, 1.0, n)
    df[["phi", "theta", "psi"]] = ang
    return df


def names_for(version, tomo_id, subtomo_id, ps, style):
    """RELION names written by an independent writer"""
    t, s = int(tomo_id), int(subtomo_id)
    if version >= 4.0:
        tn = ["TS_%03d" % t, "TS_%d" % t, "tomo%04d" % t][style % 3]
        return tn, "%s/%d" % (tn, s)
    tn = ["/data/run12/tomo_%03d.rec" % t, "%04d_bin4.mrc" % t, "/a1/b22/TS_%d" % t][style % 3]
    sn = ["/data/sub3/%03d_%06d_%sA.mrc" % (t, s, ps), "subtomo/TS%d_%d.mrc" % (t, s), "%d_%05d_1.0A.mrc" % (t, s)][
        style % 3
    ]
    return tn, sn


def gen_relion(rng, n, version, ps, style=0, halves=True, with_pixel_column=True):
    """independent RELION table: origin in px for 3.0, in Angstrom otherwise"""
    ntomo = int(rng.integers(1, 5))
    tomos = np.sort(rng.choice(np.arange(1, 999), size=ntomo, replace=False))
    tomo_id = np.sort(rng.choice(tomos, size=n))
    sub = np.cumsum(rng.integers(1, 4, size=n)) + int(rng.integers(0, 30))
    coords = np.round(rng.uniform(-2000, 2000, (n, 3)), 3)
    origin = np.round(rng.uniform(-12, 12, (n, 3)), 4)
    ang = np.column_stack([rng.uniform(-360, 360, n), rng.uniform(0, 180, n), rng.uniform(-360, 360, n)])
    lock = rng.random(n) < 0.2
    ang[lock, 1] = rng.choice([0.0, 180.0], size=int(lock.sum()))
    ang = np.round(ang, 5)
    cls = rng.integers(1, 7, size=n)
    half = rng.integers(1, 3, size=n)
    d = {}
    tn, sn = zip(*[names_for(version, t, s, ps, style) for t, s in zip(tomo_id, sub)])
    if version >= 4.0:
        d["rlnTomoName"], d["rlnTomoParticleName"] = list(tn), list(sn)
    else:
        d["rlnMicrographName"], d["rlnImageName"] = list(tn), list(sn)
    for i, c in enumerate("XYZ"):
        d["rlnCoordinate" + c] = coords[:, i]
    for i, c in enumerate("XYZ"):
        d["rlnOrigin" + c + ("Angst" if version >= 3.1 else "")] = origin[:, i]
    d["rlnAngleRot"], d["rlnAngleTilt"], d["rlnAnglePsi"] = ang[:, 0], ang[:, 1], ang[:, 2]
    d["rlnClassNumber"] = cls
    if halves:
        d["rlnRandomSubset"] = half
    if with_pixel_column and version < 4.0:
        d["rlnPixelSize"] = np.full(n, ps)
    if version >= 3.1:
        d["rlnOpticsGroup"] = np.ones(n, dtype=int)
    rel = pd.DataFrame(d)
    # shuffle the column order - nothing may depend on it
    rel = rel[list(rng.permutation(rel.columns))]
    truth = dict(tomo_id=tomo_id, sub=sub, coords=coords, origin=origin, ang=ang, cls=cls, half=half if halves else None)
    return rel, truth


def write_star(path, rel, version, ps, optics):
    """independent STAR writer"""
    out = io.StringIO()
    if version >= 3.1 and optics:
        out.write("\n# version 30001\n\ndata_optics\n\nloop_\n")
        cols = ["rlnOpticsGroup", "rlnOpticsGroupName", "rlnImagePixelSize", "rlnVoltage"]
        for i, c in enumerate(cols, 1):
            out.write("_%s #%d\n" % (c, i))
        out.write("1 opticsGroup1 %r 300.000000\n\n" % float(ps))
    out.write("\n%s\n\nloop_\n" % ("data_" if version < 3.1 else "data_particles"))
    for i, c in enumerate(rel.columns, 1):
        out.write("_%s #%d\n" % (c, i))
    for row in rel.itertuples(index=False):
        out.write("  ".join(repr(float(v)) if isinstance(v, (float, np.floating)) else str(v) for v in row) + "\n")
    out.write("\n")
    with open(path, "w") as f:
        f.write(out.getvalue())


def parse_star(path):
    """independent STAR parser -> {specifier: DataFrame of strings}"""
    blocks, cur, labels, rows = {}, None, [], []

    def flush():
        if cur is not None:
            blocks[cur] = pd.DataFrame(rows, columns=labels)

    for line in open(path).read().splitlines():
        line = line.split("#")[0].strip() if not line.strip().startswith("_") else line.strip()
        if not line:
            continue
        if line.startswith("data_"):
            flush()
            cur, labels, rows = line, [], []
        elif line == "loop_":
            continue
        elif line.startswith("_"):
            labels.append(line.split()[0][1:])
        else:
            rows.append(line.split())
    flush()
    return blocks


# ----------------------------------------------------------------------------------------------------------------
# property checks
# ----------------------------------------------------------------------------------------------------------------
def shift_cols(version):
    return ["rlnOrigin" + c + ("Angst" if version >= 3.1 else "") for c in "XYZ"]


def name_cols(version):
    return ("rlnTomoName", "rlnTomoParticleName") if version >= 4.0 else ("rlnMicrographName", "rlnImageName")


def export_formats(version, k):
    if k == 0:
        return "", ""
    if version >= 4.0:
        return [("TS_$xxx", "TS_$xxx/$yyyy"), ("/d1/t$xxxxx", "/d1/t$xx/$yyyyyy"), ("$x", "$x/$y")][k % 3]
    return [
        ("/p/tomo_$xxx.rec", "/p/sub/$xxx_$yyyyyy_a.mrc"),
        ("/d7/$xxxx_bin2.mrc", "/d7/$xx/TS$xxxx_$yy.mrc"),
        ("$x", "$x_$y"),
    ][k % 3]


def expected_name(fmt, tomo_id, subtomo_id):
    """independent formatting of $xxx / $yyy: the longest run is replaced by the zero padded number"""
    out = fmt
    for letter, val in (("y", subtomo_id), ("x", tomo_id)):
        runs = re.findall(r"\$%s+" % letter, fmt)
        if not runs:
            continue
        longest = max(runs, key=len)
        out = out.replace(longest, ("%0" + str(len(longest) - 1) + "d") % int(val))
    return out


def check_export_table(tag, rel, df, version, tf, sf, tol):
    """rel: exported table with numeric columns (from memory or parsed from file), df: the particle list"""
    n = len(df)
    check(len(rel) == n, f"{tag}: number of rows")
    pos = df[["x", "y", "z"]].to_numpy() + df[["shift_x", "shift_y", "shift_z"]].to_numpy()
    got = np.column_stack([pd.to_numeric(rel["rlnCoordinate" + c]) for c in "XYZ"])
    check(maxdiff(got, pos) <= tol, f"{tag}: rlnCoordinate = x + shift ({maxdiff(got, pos)})")
    org = np.column_stack([pd.to_numeric(rel[c]) for c in shift_cols(version)])
    check(maxdiff(org, np.zeros((n, 3))) == 0.0, f"{tag}: zero origin")
    a = [pd.to_numeric(rel[c]).to_numpy() for c in ("rlnAngleRot", "rlnAngleTilt", "rlnAnglePsi")]
    Rr = R_relion(*a)
    Rc = R_cryocat(df["phi"].to_numpy(), df["theta"].to_numpy(), df["psi"].to_numpy())
    check(maxdiff(Rr, T(Rc)) <= max(tol, 1e-9) * 10, f"{tag}: ZYZ rotation is the inverse ({maxdiff(Rr, T(Rc))})")
    check(np.all((a[1] >= -1e-9) & (a[1] <= 180 + 1e-9)), f"{tag}: tilt in [0,180]")
    check(maxdiff(pd.to_numeric(rel["rlnClassNumber"]), df["class"]) == 0.0, f"{tag}: class")
    tn, sn = name_cols(version)
    exp_t = [expected_name(tf, t, s) if tf else str(int(t)) for t, s in zip(df["tomo_id"], df["subtomo_id"])]
    exp_s = [expected_name(sf, t, s) if sf else str(int(s)) for t, s in zip(df["tomo_id"], df["subtomo_id"])]
    check([str(v) for v in rel[tn]] == exp_t, f"{tag}: tomogram names")
    check([str(v) for v in rel[sn]] == exp_s, f"{tag}: subtomogram names")
    half = pd.to_numeric(rel["rlnRandomSubset"]).to_numpy()
    exp_h = np.where(df["subtomo_id"].to_numpy() % 2 == 1, 1, 2)
    check(maxdiff(half, exp_h) == 0.0, f"{tag}: half-set 1/2 = odd/even")


def check_import(tag, m, truth, version, ps, tol):
    d = m.df
    n = len(truth["sub"])
    check(len(d) == n, f"{tag}: rows")
    check(maxdiff(d[["x", "y", "z"]], truth["coords"]) <= tol, f"{tag}: x,y,z = rlnCoordinate")
    exp_shift = -truth["origin"] / (ps if version >= 3.1 else 1.0)
    check(
        maxdiff(d[["shift_x", "shift_y", "shift_z"]], exp_shift) <= tol,
        f"{tag}: shift = -origin (/ps) ({maxdiff(d[['shift_x', 'shift_y', 'shift_z']], exp_shift)})",
    )
    Rc = R_cryocat(d["phi"].to_numpy(), d["theta"].to_numpy(), d["psi"].to_numpy())
    Rr = R_relion(truth["ang"][:, 0], truth["ang"][:, 1], truth["ang"][:, 2])
    check(maxdiff(Rc, T(Rr)) <= 1e-8, f"{tag}: zxz rotation is the inverse ({maxdiff(Rc, T(Rr))})")
    check(maxdiff(d["tomo_id"], truth["tomo_id"]) == 0.0, f"{tag}: tomo_id")
    check(maxdiff(d["class"], truth["cls"]) == 0.0, f"{tag}: class")
    check(maxdiff(d["geom3"], truth["sub"]) == 0.0, f"{tag}: geom3 = subtomogram number")
    sid = d["subtomo_id"].to_numpy()
    check(len(np.unique(sid)) == n, f"{tag}: subtomo ids unique")
    if truth["half"] is not None and len(np.unique(truth["half"])) == 2:
        check(np.array_equal(sid % 2, truth["half"] % 2), f"{tag}: half-set parity")
        check(np.all(np.diff(sid) > 0), f"{tag}: renumbering increasing")
    else:
        check(maxdiff(sid, truth["sub"]) == 0.0, f"{tag}: subtomo_id kept")


def check_roundtrip(tag, back, df, tol):
    pos = df[["x", "y", "z"]].to_numpy() + df[["shift_x", "shift_y", "shift_z"]].to_numpy()
    pos_b = back[["x", "y", "z"]].to_numpy() + back[["shift_x", "shift_y", "shift_z"]].to_numpy()
    check(maxdiff(pos_b, pos) <= tol, f"{tag}: position returns ({maxdiff(pos_b, pos)})")
    Ra = R_cryocat(df["phi"].to_numpy(), df["theta"].to_numpy(), df["psi"].to_numpy())
    Rb = R_cryocat(back["phi"].to_numpy(), back["theta"].to_numpy(), back["psi"].to_numpy())
    check(maxdiff(Ra, Rb) <= max(tol, 1e-9) * 10, f"{tag}: orientation returns ({maxdiff(Ra, Rb)})")
    check(maxdiff(back["tomo_id"], df["tomo_id"]) == 0.0, f"{tag}: tomo_id returns")
    check(maxdiff(back["class"], df["class"]) == 0.0, f"{tag}: class returns")
    check(maxdiff(back["geom3"], df["subtomo_id"]) == 0.0, f"{tag}: subtomogram number in geom3")
    check(
        np.array_equal(back["subtomo_id"].to_numpy() % 2, df["subtomo_id"].to_numpy() % 2), f"{tag}: parity returns"
    )


def run_property(seed=20260928, n_lists=14, tmpdir=None):
    rng = np.random.default_rng(seed)
    kinds = ["random", "gimbal", "canonical", "zeros", "same_tilt", "descending_tilt", "all_odd"]
    sizes = [1, 2, 3, 7, 300, 150]
    case = 0
    for li in range(n_lists):
        kind = kinds[li % len(kinds)]
        n = sizes[li] if li < len(sizes) else int(rng.integers(1, 120))
        df = gen_motl(rng, n, kind)
        df_keep = df.copy(deep=True)
        for version in (3.0, 3.1, 4.0):
            ps = float(rng.choice([1.0, 2.5, 0.827, 13.48, 4.0]))
            k = int((li + int(version * 10)) % 4)
            tf, sf = export_formats(version, k)
            optics = bool((li + k) % 2) and version >= 3.1
            tag = f"list {li} ({kind}, n={n}) v{version} ps={ps} fmt={k} optics={optics}"
            m = RelionMotl(df, version=version, pixel_size=ps, binning=1.0)
            mdf_keep = m.df.copy(deep=True)
            rel1 = m.create_relion_df(tomo_format=tf, subtomo_format=sf)
            check_export_table(tag + " export", rel1, df, version, tf, sf, 1e-9)
            # repeated call on the same object: identical table, particle list untouched
            rel2 = m.create_relion_df(tomo_format=tf, subtomo_format=sf)
            check(rel1.equals(rel2), f"{tag}: repeated export identical")
            check(m.df.equals(mdf_keep), f"{tag}: particle list of the object untouched")
            check(df.equals(df_keep), f"{tag}: caller's table untouched")
            # in-memory round trip
            back = RelionMotl(rel1, version=version, pixel_size=ps).df
            check_roundtrip(tag + " memory", back, df, 1e-9)
            # through a STAR file, parsed independently and re-imported
            path = os.path.join(tmpdir, f"exp_{case}.star")
            case += 1
            m.write_out(path, write_optics=optics, tomo_format=tf, subtomo_format=sf)
            blocks = parse_star(path)
            spec = "data_" if version < 3.1 else "data_particles"
            check(spec in blocks, f"{tag}: block {spec} in file")
            check(("data_optics" in blocks) == optics, f"{tag}: optics block on/off")
            if spec in blocks:
                check_export_table(tag + " file", blocks[spec], df, version, tf, sf, 6e-7)
            back_f = RelionMotl(path, pixel_size=None if (version < 4.0 or optics) else ps)
            check(back_f.version == version, f"{tag}: version recognised from file")
            check_roundtrip(tag + " file", back_f.df, df, 2e-6)
            check(m.df.equals(mdf_keep) and df.equals(df_keep), f"{tag}: inputs untouched after write_out")

    # import of independently written RELION data
    for li in range(n_lists):
        n = sizes[li] if li < len(sizes) else int(rng.integers(1, 120))
        for version in (3.0, 3.1, 4.0):
            ps = float(rng.choice([1.0, 2.5, 0.827, 13.48, 4.0]))
            halves = (li % 3) != 2
            rel, truth = gen_relion(rng, n, version, ps, style=li, halves=halves)
            rel_keep = rel.copy(deep=True)
            tag = f"import {li} n={n} v{version} ps={ps}"
            m = RelionMotl(rel, version=version, pixel_size=ps)
            check_import(tag + " memory", m, truth, version, ps, 1e-9)
            m_again = RelionMotl(rel, version=version, pixel_size=ps)
            check(m.df.equals(m_again.df), f"{tag}: repeated import identical")
            check(rel.equals(rel_keep), f"{tag}: caller's RELION table untouched")
            optics = version >= 3.1 and (li % 2 == 0)
            path = os.path.join(tmpdir, f"imp_{li}_{version}.star")
            write_star(path, rel, version, ps, optics)
            mf = RelionMotl(path, pixel_size=ps if (version >= 4.0 and not optics) else None)
            check(mf.version == version, f"{tag}: version from file")
            check_import(tag + " file", mf, truth, version, ps, 1e-9)


# ----------------------------------------------------------------------------------------------------------------
# change (a): the tree's RelionMotl.convert_angles_to_relion against the original text of the function
# ----------------------------------------------------------------------------------------------------------------
ORIGINAL_SRC = '''
def convert_angles_to_relion(self, relion_df):
    rotations = rot.from_euler("ZXZ", self.get_angles(), degrees=True)
    angles = rotations.as_euler("ZYZ", degrees=True)

    # save so the rotation describes reference rotation
    relion_df["rlnAngleRot"] = -angles[:, 0]
    relion_df["rlnAngleTilt"] = angles[:, 1]
    relion_df["rlnAnglePsi"] = -angles[:, 2]

    return relion_df
'''
_ns = dict(vars(cryomotl))
exec(ORIGINAL_SRC, _ns)
orig_convert_angles_to_relion = _ns["convert_angles_to_relion"]


class OrigRelionMotl(RelionMotl):
    convert_angles_to_relion = orig_convert_angles_to_relion


def same_bits(a, b):
    a = np.ascontiguousarray(np.asarray(a, dtype=np.float64))
    b = np.ascontiguousarray(np.asarray(b, dtype=np.float64))
    return a.shape == b.shape and np.array_equal(a.view(np.int64), b.view(np.int64))


def outcome(f):
    try:
        return ("ok", f())
    except Exception as e:  # same kind of failure is the same behaviour
        return ("raise", type(e).__name__)


def compare_with_original(tmpdir, seed):
    rng = np.random.default_rng(seed)
    kinds = ["random", "gimbal", "canonical", "zeros", "same_tilt", "descending_tilt", "all_odd"]
    sizes = [1, 1, 2, 3, 5, 300, 299, 64]
    for li in range(40):
        kind = kinds[li % len(kinds)]
        n = sizes[li] if li < len(sizes) else int(rng.integers(1, 301))
        df = gen_motl(rng, n, kind)
        df_keep = df.copy(deep=True)
        for version in (3.0, 3.1, 4.0):
            tag = f"orig-vs-tree list {li} ({kind}, n={n}) v{version}"
            ps = float(rng.choice([1.0, 2.5, 0.827]))
            m_new = RelionMotl(df, version=version, pixel_size=ps, binning=1.0)
            m_old = OrigRelionMotl(df, version=version, pixel_size=ps, binning=1.0)
            keep = m_new.df.copy(deep=True)
            base = m_new.create_particles_data(version)
            arg_new, arg_old = base.copy(deep=True), base.copy(deep=True)
            out_new = m_new.convert_angles_to_relion(arg_new)
            out_old = orig_convert_angles_to_relion(m_old, arg_old)
            check(out_new is arg_new, f"{tag}: the table passed in is the one returned")
            check(list(out_new.columns) == list(out_old.columns), f"{tag}: columns")
            for c in ("rlnAngleRot", "rlnAngleTilt", "rlnAnglePsi"):
                check(same_bits(out_new[c], out_old[c]), f"{tag}: {c} bit-identical")
            check(out_new.equals(out_old), f"{tag}: whole table equal")
            # a second and third call on the same object and the same table
            for rep in range(2):
                out_rep = m_new.convert_angles_to_relion(arg_new)
                check(out_rep.equals(out_old), f"{tag}: repeated call {rep}")
            check(m_new.df.equals(keep) and m_old.df.equals(keep), f"{tag}: particle list untouched")
            check(df.equals(df_keep), f"{tag}: caller's table untouched")
            # the complete export and the written file
            k = li % 4
            tf, sf = export_formats(version, k)
            r_new = m_new.create_relion_df(tomo_format=tf, subtomo_format=sf)
            r_old = m_old.create_relion_df(tomo_format=tf, subtomo_format=sf)
            check(r_new.equals(r_old), f"{tag}: create_relion_df equal")
            if li % 4 == 0:
                p_new, p_old = os.path.join(tmpdir, "cmp_new.star"), os.path.join(tmpdir, "cmp_old.star")
                m_new.write_out(p_new, write_optics=version >= 3.1, tomo_format=tf, subtomo_format=sf)
                m_old.write_out(p_old, write_optics=version >= 3.1, tomo_format=tf, subtomo_format=sf)
                check(open(p_new).read() == open(p_old).read(), f"{tag}: written files identical")
            check(m_new.df.equals(keep) and df.equals(df_keep), f"{tag}: inputs untouched after export")
    # outside the quantifier, same behaviour all the same: an empty list
    empty = pd.DataFrame(np.zeros((0, 20)), columns=Motl.motl_columns)
    for version in (3.0, 3.1, 4.0):
        a = outcome(lambda: RelionMotl(empty, version=version, pixel_size=1.0).create_relion_df())
        b = outcome(lambda: OrigRelionMotl(empty, version=version, pixel_size=1.0).create_relion_df())
        same = a[0] == b[0] and (a[1].equals(b[1]) if a[0] == "ok" else a[1] == b[1])
        check(same, f"empty list v{version}: same outcome ({a[0]}/{b[0]})")


class _Capture(logging.Handler):
    def __init__(self):
        super().__init__()
        self.lines = []

    def emit(self, record):
        self.lines.append(record.getMessage())


def main():
    err_before = np.seterr()
    state_before = np.random.get_state()[1].copy()
    with tempfile.TemporaryDirectory() as td:
        # once with the default logging configuration, once with the debug log of cryocat.cryomotl switched on
        run_property(seed=20260928, tmpdir=td)
        compare_with_original(td, seed=11)
        log = logging.getLogger("cryocat.cryomotl")
        cap = _Capture()
        log.addHandler(cap)
        old_level = log.level
        log.setLevel(logging.DEBUG)
        try:
            run_property(seed=77, n_lists=9, tmpdir=td)
            compare_with_original(td, seed=12)
        finally:
            log.setLevel(old_level)
            log.removeHandler(cap)
    check(np.seterr() == err_before, "numpy error state unchanged")
    check(np.array_equal(np.random.get_state()[1], state_before), "global random state unchanged")
    print(f"{NCHECK[0]} checks, {len(FAILS)} failed, {len(cap.lines)} debug lines captured")
    if FAILS:
        print("FAILED")
        sys.exit(1)
    print("PASS")


if __name__ == "__main__":
    main()
