import sys, os
sys.path.insert(0, os.getcwd())
import copy, warnings
import numpy as np, pandas as pd
import sklearn.neighbors as sn
warnings.filterwarnings("ignore")
from cryocat import cryomotl, ribana

COLS = cryomotl.Motl.motl_columns


# ----------------------------------------------------------------------------- inputs inside the quantifier
def make_pair(rng, n, n_tomo, spread, disp, index_mode=0, cluster=False, nan_holes=False):
    """paired entry / exit tables: same rows, same subtomo_id / tomo_id, exit sites = entry sites + random vectors"""
    df = pd.DataFrame(np.zeros((n, 20)), columns=COLS)
    tomo = rng.integers(1, n_tomo + 1, size=n)
    if rng.random() < 0.5:
        tomo = np.sort(tomo)
    df["tomo_id"] = tomo.astype(float) * (7.0 if rng.random() < 0.3 else 1.0)
    df["subtomo_id"] = (rng.permutation(n) + 1).astype(float) if rng.random() < 0.5 else np.arange(1, n + 1, dtype=float)
    if cluster:  # dense clusters: force merging, prefixing and tail cutting
        centers = rng.uniform(-spread, spread, size=(max(1, n // 6), 3))
        pos = centers[rng.integers(0, centers.shape[0], size=n)] + rng.normal(0, disp, size=(n, 3))
    else:
        pos = rng.uniform(-spread, spread, size=(n, 3))
    ip = np.round(pos)
    df[["x", "y", "z"]] = ip
    df[["shift_x", "shift_y", "shift_z"]] = pos - ip
    df["score"] = rng.random(n)
    df[["phi", "theta", "psi"]] = rng.uniform(-180, 180, size=(n, 3))
    if n > 2:  # poles of the Euler angles
        df.loc[0, ["phi", "theta", "psi"]] = [30.0, 0.0, -30.0]
        df.loc[1, ["phi", "theta", "psi"]] = [10.0, 180.0, 20.0]
    df["class"] = 1.0
    ex = df.copy()
    epos = pos + rng.normal(0, disp, size=(n, 3))
    eip = np.round(epos)
    ex[["x", "y", "z"]] = eip
    ex[["shift_x", "shift_y", "shift_z"]] = epos - eip
    if nan_holes:  # holes in columns the tracing does not read
        for c in ("geom3", "geom5", "subtomo_mean"):
            holes = rng.random(n) < 0.3
            df.loc[holes, c] = np.nan
            ex.loc[holes, c] = np.nan
    if index_mode == 1:
        idx = rng.permutation(n) * 3 + 5
        df.index = idx
        ex.index = idx
    elif index_mode == 2:
        df.index = np.arange(n)[::-1]
        ex.index = np.arange(n)[::-1]
    return df, ex


def grid_pair(n, step):
    """exit of i coincides with nothing; entries on a line with equal spacing: ties and distances == max_distance"""
    df = pd.DataFrame(np.zeros((n, 20)), columns=COLS)
    df["tomo_id"] = 1.0
    df["subtomo_id"] = np.arange(1, n + 1, dtype=float)
    df["x"] = np.arange(n) * float(step)
    df["class"] = 1.0
    ex = df.copy()
    ex["x"] = df["x"] + step / 2.0
    return df, ex


# ----------------------------------------------------------------------------- the property, computed independently
def check_property(entry_df, exit_df, traced, dmax, dmin):
    t = traced.df
    assert sorted(t["subtomo_id"].tolist()) == sorted(entry_df["subtomo_id"].tolist()), "a particle is lost or doubled"
    ent, ext, tomo = {}, {}, {}
    for r in entry_df.itertuples(index=False):
        ent[r.subtomo_id] = np.array([r.x + r.shift_x, r.y + r.shift_y, r.z + r.shift_z])
        tomo[r.subtomo_id] = r.tomo_id
    for r in exit_df.itertuples(index=False):
        ext[r.subtomo_id] = np.array([r.x + r.shift_x, r.y + r.shift_y, r.z + r.shift_z])
    chains = {}
    for r in t.itertuples(index=False):
        assert tomo[r.subtomo_id] == r.tomo_id, "a particle changed its tomogram"
        chains.setdefault((r.tomo_id, r.object_id), []).append((r.geom2, r.subtomo_id, r.geom4))
    n_links = 0
    for key, members in chains.items():
        members.sort()
        orders = [m[0] for m in members]
        assert orders == list(range(1, len(members) + 1)), f"chain {key}: order numbers {orders}"
        for (o1, s1, d1), (o2, s2, d2) in zip(members[:-1], members[1:]):
            d = float(np.sqrt(((ext[s1] - ent[s2]) ** 2).sum()))
            assert dmin - 1e-9 < d <= dmax + 1e-9, f"chain {key}: link distance {d} outside ({dmin}, {dmax}]"
            assert abs(d - d1) < 1e-6, f"chain {key}: recorded distance {d1}, actual {d}"
            n_links += 1
    return len(chains), n_links


def as_input(df, mode):
    if mode == 0:
        return cryomotl.Motl(df.copy())
    if mode == 1:
        return df.copy()
    return cryomotl.EmMotl(df.copy())


def frames_identical(a, b):
    return (
        list(a.columns) == list(b.columns)
        and a.index.equals(b.index)
        and list(a.dtypes) == list(b.dtypes)
        and np.array_equal(a.to_numpy(dtype=float), b.to_numpy(dtype=float), equal_nan=True)
    )


def run_property(seed, rounds, with_reference=None):
    """with_reference: context manager factory that installs the ORIGINAL helper text; traced tables must be identical"""
    rng = np.random.default_rng(seed)
    stats = dict(cases=0, chains=0, links=0, suffix_calls=0, suffix_joined=0, prefix_calls=0, prefix_joined=0)
    orig_suffix, orig_prefix = ribana.add_chain_suffix, ribana.add_chain_prefix

    def count_suffix(*a, **k):
        r = orig_suffix(*a, **k)
        stats["suffix_calls"] += 1
        stats["suffix_joined"] += bool(r)
        return r

    def count_prefix(*a, **k):
        r = orig_prefix(*a, **k)
        stats["prefix_calls"] += 1
        stats["prefix_joined"] += r is None
        return r

    cases = []
    for it in range(rounds):
        n = int(rng.integers(2, 61))
        nt = int(rng.integers(1, 4))
        spread = float(rng.choice([10, 30, 80]))
        disp = float(rng.choice([1, 3, 8]))
        df, ex = make_pair(rng, n, nt, spread, disp, index_mode=int(rng.integers(0, 3)),
                           cluster=rng.random() < 0.6, nan_holes=rng.random() < 0.3)
        dmax = float(rng.choice([2, 5, 10, 20, 50]))
        dmin = float(rng.choice([0, 0, 0.5, 2, 4]))
        cases.append((df, ex, dmax, min(dmin, dmax), int(rng.integers(0, 3))))
    for n in (2, 3, 7, 8):  # tiny, odd and even sizes; equal spacings; distance exactly max_distance
        df, ex = grid_pair(n, 4.0)
        cases.append((df, ex, 2.0, 0.0, 0))
        cases.append((df, ex, 2.0, 2.0, 1))  # nothing is farther than min: every particle its own chain
        cases.append((df, ex, 1.0, 0.0, 2))  # nothing within reach
    df, ex = make_pair(rng, 2, 1, 10.0, 1.0)
    cases.append((df, ex, 100.0, 0.0, 0))
    df, ex = make_pair(rng, 12, 1, 5.0, 0.0)  # exit == entry: zero displacement
    cases.append((df, ex, 6.0, 0.0, 0))
    cases.append((df, ex, 6.0, 1.0, 1))

    for df, ex, dmax, dmin, mode in cases:
        m_entry, m_exit = as_input(df, mode), as_input(ex, mode)
        keep_entry = (m_entry.df if mode != 1 else m_entry).copy()
        keep_exit = (m_exit.df if mode != 1 else m_exit).copy()
        ribana.add_chain_suffix, ribana.add_chain_prefix = count_suffix, count_prefix
        try:
            traced = ribana.trace_chains(m_entry, m_exit, dmax, dmin)
        finally:
            ribana.add_chain_suffix, ribana.add_chain_prefix = orig_suffix, orig_prefix
        c, l = check_property(df, ex, traced, dmax, dmin)
        stats["cases"] += 1
        stats["chains"] += c
        stats["links"] += l
        # the inputs are left as they were, and a second call on the same objects gives the same table
        assert frames_identical(keep_entry, m_entry.df if mode != 1 else m_entry), "entry list modified"
        assert frames_identical(keep_exit, m_exit.df if mode != 1 else m_exit), "exit list modified"
        again = ribana.trace_chains(m_entry, m_exit, dmax, dmin)
        assert frames_identical(traced.df, again.df), "second call differs"
        check_property(df, ex, again, dmax, dmin)
        if with_reference is not None:
            with with_reference():
                ref = ribana.trace_chains(as_input(df, mode), as_input(ex, mode), dmax, dmin)
            assert frames_identical(traced.df, ref.df), "traced table differs from the one of the original helper"
    assert stats["suffix_calls"] > 20 and stats["prefix_joined"] > 20 and stats["prefix_calls"] > stats["prefix_joined"], (
        f"merging branches not exercised: {stats}"
    )
    return stats


# ----------------------------------------------------------------------------- change c: add_chain_suffix / add_chain_prefix
# the ORIGINAL text of the two helpers (renamed)
def add_chain_suffix_ORIGINAL(
    chain_df,
    motl,
    traced_df,
    subtomo_id,
    current_dist,
    store_idx1="object_id",
    store_idx2="geom2",
    store_dist="geom4",
):
    particle_id = motl.df.loc[motl.df.index[subtomo_id], "subtomo_id"]

    temp_cl_id, order_id, previous_dist = traced_df.loc[
        traced_df["subtomo_id"] == particle_id, [store_idx1, store_idx2, store_dist]
    ].values[0]
    chain_max_order = np.max(traced_df.loc[traced_df[store_idx1] == temp_cl_id, [store_idx2]].values)

    if chain_max_order != order_id:  # the closest particle is not the last one
        if previous_dist <= current_dist:  # the original chain holds, do nothing
            return False
        else:  # the new chain is better, cut of the tail of the existing one
            current_class = chain_df[store_idx1].values[0]
            traced_df.loc[
                (traced_df[store_idx1] == temp_cl_id) & (traced_df[store_idx2] > order_id),
                store_idx1,
            ] = current_class
            # the tail keeps its order: the order numbers order_id + 1, order_id + 2, ... become 1, 2, ...
            traced_df.loc[(traced_df[store_idx1] == current_class), store_idx2] -= order_id
            chain_max_order = np.max(
                traced_df.loc[traced_df[store_idx1] == temp_cl_id, [store_idx2]].values
            )  # max changed in the meantime so has to be fetched again

    traced_df.loc[traced_df["subtomo_id"] == particle_id, store_dist] = (
        current_dist  # add distance to the last traced element from the chain (should be 0 before)
    )
    chain_df[store_idx1] = temp_cl_id
    chain_df[store_idx2] += chain_max_order

    return True  # chain was changed


def add_chain_prefix_ORIGINAL(
    chain_df,
    motl,
    traced_df,
    subtomo_id,
    current_dist,
    store_idx1="object_id",
    store_idx2="geom2",
    store_dist="geom4",
    class_max=None,
):
    # finding out class of the chain that should be appended to the current chain
    particle_id = motl.df.loc[motl.df.index[subtomo_id], "subtomo_id"]
    class_to_change = traced_df.loc[traced_df["subtomo_id"] == particle_id, store_idx1].values[0]

    order_id = traced_df.loc[traced_df["subtomo_id"] == particle_id, store_idx2].values[0]

    current_class = chain_df[store_idx1].values[0]
    cut_off_size = 0

    if order_id != 1:  # the closest particle is NOT the first one in the chain!
        # take the previous particle distance
        previous_dist = traced_df.loc[
            (traced_df[store_idx1] == class_to_change) & (traced_df[store_idx2] == order_id - 1),
            store_dist,
        ].values[0]

        if previous_dist <= current_dist:  # original particle closer -> do not append
            return -1
        else:  # the new particle is closer - change the class/object_id to the one from the current particle
            cut_off_size = traced_df.loc[
                (traced_df[store_idx1] == class_to_change) & (traced_df[store_idx2] < order_id)
            ].shape[0]
            if (
                class_max is None
            ):  # Only appending, the chain object_id value is not used and can be assing to the cut chain
                traced_df.loc[
                    (traced_df[store_idx1] == class_to_change) & (traced_df[store_idx2] < order_id),
                    store_idx1,
                ] = current_class
            else:  # Connectiong from both sides, the chain object_id was changed in the previoius append and cannot be used -> the input from current is used
                traced_df.loc[
                    (traced_df[store_idx1] == class_to_change) & (traced_df[store_idx2] < order_id),
                    store_idx1,
                ] = -1  # class_max[1]

    if class_max is None:
        chain_df[store_idx1] = class_to_change
        class_max = np.max(chain_df[store_idx2].values)
        traced_df.loc[traced_df[store_idx1] == class_to_change, [store_idx2]] += class_max - cut_off_size
    else:
        temp_cl_id = chain_df[store_idx1][0]
        traced_df.loc[traced_df[store_idx1] == class_to_change, [store_idx2]] += class_max[0] - cut_off_size
        traced_df.loc[traced_df[store_idx1] == class_to_change, [store_idx1]] = temp_cl_id
        if order_id != 1:
            traced_df.loc[traced_df[store_idx1] == -1, [store_idx1]] = class_max[1]  # class_to_change

    chain_df.loc[chain_df.index[-1], store_dist] = current_dist



class original_helper:
    def __enter__(self):
        self.saved = (ribana.add_chain_suffix, ribana.add_chain_prefix)
        ribana.add_chain_suffix, ribana.add_chain_prefix = add_chain_suffix_ORIGINAL, add_chain_prefix_ORIGINAL

    def __exit__(self, *exc):
        ribana.add_chain_suffix, ribana.add_chain_prefix = self.saved


def random_state(rng):
    """a traced table as trace_chains builds it (chains concatenated, each with its own 0..k-1 index), a fresh chain and
    the list the closest particle is looked up in"""
    n_chains = int(rng.integers(1, 6))
    parts, sid = [], 1
    for c in range(1, n_chains + 1):
        k = int(rng.integers(1, 7))
        ch = pd.DataFrame(np.zeros((k, 20)), columns=COLS)
        ch["subtomo_id"] = np.arange(sid, sid + k, dtype=float)
        sid += k
        ch["object_id"] = float(c)
        ch["geom2"] = np.arange(1, k + 1, dtype=float)
        ch["geom4"] = np.round(rng.uniform(0.5, 6, size=k), int(rng.integers(0, 3)))  # rounded: equal distances occur
        ch.loc[ch.index[-1], "geom4"] = 0.0
        ch["tomo_id"] = 1.0
        ch[["x", "y", "z"]] = rng.integers(-20, 20, size=(k, 3)).astype(float)
        parts.append(ch)
    traced = pd.concat([cryomotl.Motl.create_empty_motl_df()] + parts)
    j = int(rng.integers(1, 5))
    chain = pd.DataFrame(np.zeros((j, 20)), columns=COLS)
    chain["subtomo_id"] = np.arange(sid, sid + j, dtype=float)
    chain["object_id"] = float(n_chains + 1)
    chain["geom2"] = np.arange(1, j + 1, dtype=float)
    chain["geom4"] = np.round(rng.uniform(0.5, 6, size=j), 1)
    chain.loc[chain.index[-1], "geom4"] = 0.0
    chain["tomo_id"] = 1.0
    every = pd.concat([traced, chain]).sample(frac=1.0, random_state=int(rng.integers(0, 2**31)))
    if rng.random() < 0.5:  # the looked-up list has unique row labels, not necessarily 0..n-1
        every.index = rng.permutation(every.shape[0]) * 2 + 3
    else:
        every.index = np.arange(every.shape[0])
    motl = cryomotl.Motl(every.copy())
    in_traced = np.flatnonzero(motl.df["subtomo_id"].isin(traced["subtomo_id"]).to_numpy())
    pos = int(rng.choice(in_traced))
    dist = float(np.round(rng.uniform(0.5, 6), int(rng.integers(0, 3))))
    return chain, motl, traced, pos, dist


def call(fn, *a, **k):
    try:
        return ("value", fn(*a, **k))
    except Exception as e:  # the same refusal is the same behaviour
        return ("raised", type(e).__name__)


def compare_helpers(seed, rounds):
    rng = np.random.default_rng(seed)
    n = dict(suffix=0, suffix_joined=0, suffix_cut=0, prefix=0, prefix_joined=0, prefix_cut=0, both_sides=0, raised=0)
    for it in range(rounds):
        chain, motl, traced, pos, dist = random_state(rng)
        # suffix
        c1, t1, c2, t2 = chain.copy(), traced.copy(), chain.copy(), traced.copy()
        m_before = motl.df.copy()
        r1 = call(ribana.add_chain_suffix, c1, motl, t1, pos, dist)
        r2 = call(add_chain_suffix_ORIGINAL, c2, motl, t2, pos, dist)
        assert r1 == r2 and type(r1[1]) is type(r2[1]), (r1, r2)
        assert frames_identical(c1, c2) and frames_identical(t1, t2), "add_chain_suffix: tables differ"
        n["suffix"] += 1
        n["suffix_joined"] += r1 == ("value", True)
        n["suffix_cut"] += not np.array_equal(t1["object_id"].to_numpy(), traced["object_id"].to_numpy())
        # prefix: alone, and after a suffix that joined (both sides)
        variants = [(chain.copy(), traced.copy(), None)]
        if r1 == ("value", True):
            cl_max = np.max(c1["geom2"].values)
            if cl_max > 1:
                variants.append((c1.copy(), t1.copy(), (cl_max, chain["object_id"].values[0])))
        for ch0, tr0, class_max in variants:
            pos2 = int(rng.choice(np.flatnonzero(motl.df["subtomo_id"].isin(tr0["subtomo_id"]).to_numpy())))
            d2 = float(np.round(rng.uniform(0.5, 6), int(rng.integers(0, 3))))
            c1, t1, c2, t2 = ch0.copy(), tr0.copy(), ch0.copy(), tr0.copy()
            r1 = call(ribana.add_chain_prefix, c1, motl, t1, pos2, d2, class_max=class_max)
            r2 = call(add_chain_prefix_ORIGINAL, c2, motl, t2, pos2, d2, class_max=class_max)
            assert r1 == r2 and type(r1[1]) is type(r2[1]), (r1, r2)
            assert frames_identical(c1, c2) and frames_identical(t1, t2), "add_chain_prefix: tables differ"
            n["prefix"] += 1
            n["prefix_joined"] += r1 == ("value", None)
            n["both_sides"] += class_max is not None
            pid = motl.df["subtomo_id"].to_numpy()[pos2]
            not_first = tr0.loc[tr0["subtomo_id"] == pid, "geom2"].to_numpy()[0] != 1
            n["prefix_cut"] += bool(not_first) and r1 == ("value", None)
            n["raised"] += r1[0] == "raised"
        assert frames_identical(motl.df, m_before), "looked-up list modified"
    assert min(v for k, v in n.items() if k != "raised") > 20, n
    return n


if __name__ == "__main__":
    n = compare_helpers(3, 1500)
    print("add_chain_suffix / add_chain_prefix: same return values and same tables as the original text:", n)
    stats = run_property(4711, 150, with_reference=original_helper)
    print("trace_chains:", stats)
    print("PASS")
