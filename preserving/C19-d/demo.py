import os, sys, warnings

sys.path.insert(0, os.getcwd())
warnings.filterwarnings("ignore")

import numpy as np
import pandas as pd
import sklearn.neighbors as sn
from cryocat import cryomotl, ribana

# --------------------------------------------------------------------------------------------------------------
# verbatim copy of the ORIGINAL tracing code (reference implementation the patched module is compared against)
# --------------------------------------------------------------------------------------------------------------
ORIGINAL = r'''
def get_nn_dist(kdt, query_point, dist_max, dist_min, active_points, test_value):
    id_max, dist = kdt.query_radius(query_point, dist_max, return_distance=True, sort_results=True)
    id_max = id_max[0]
    dist = dist[0]
    if id_max.size == 0:
        return -1, []

    rp_idx = id_max[active_points[id_max] == test_value]
    rp_dist = dist[active_points[id_max] == test_value]

    if rp_idx.size == 0:
        return -1, []
    elif dist_min >= 0:  # the interval is open at its lower end also for dist_min == 0 (a site at distance 0 is not a neighbour)
        rp_idx = rp_idx[rp_dist > dist_min]
        rp_dist = rp_dist[rp_dist > dist_min]

    if rp_idx.size == 0:
        return -1, []
    else:
        return rp_idx[0], rp_dist[0]


def add_chain_suffix(chain_df, motl, traced_df, subtomo_id, current_dist, store_idx1="object_id",
                     store_idx2="geom2", store_dist="geom4"):
    particle_id = motl.df.loc[motl.df.index[subtomo_id], "subtomo_id"]

    temp_cl_id, order_id, previous_dist = traced_df.loc[
        traced_df["subtomo_id"] == particle_id, [store_idx1, store_idx2, store_dist]
    ].values[0]
    chain_max_order = np.max(traced_df.loc[traced_df[store_idx1] == temp_cl_id, [store_idx2]].values)

    if chain_max_order != order_id:
        if previous_dist <= current_dist:
            return False
        else:
            current_class = chain_df[store_idx1].values[0]
            traced_df.loc[
                (traced_df[store_idx1] == temp_cl_id) & (traced_df[store_idx2] > order_id),
                store_idx1,
            ] = current_class
            # the tail keeps its order: the order numbers order_id + 1, order_id + 2, ... become 1, 2, ...
            traced_df.loc[(traced_df[store_idx1] == current_class), store_idx2] -= order_id
            chain_max_order = np.max(traced_df.loc[traced_df[store_idx1] == temp_cl_id, [store_idx2]].values)

    traced_df.loc[traced_df["subtomo_id"] == particle_id, store_dist] = current_dist
    chain_df[store_idx1] = temp_cl_id
    chain_df[store_idx2] += chain_max_order

    return True


def add_chain_prefix(chain_df, motl, traced_df, subtomo_id, current_dist, store_idx1="object_id",
                     store_idx2="geom2", store_dist="geom4", class_max=None):
    particle_id = motl.df.loc[motl.df.index[subtomo_id], "subtomo_id"]
    class_to_change = traced_df.loc[traced_df["subtomo_id"] == particle_id, store_idx1].values[0]

    order_id = traced_df.loc[traced_df["subtomo_id"] == particle_id, store_idx2].values[0]

    current_class = chain_df[store_idx1].values[0]
    cut_off_size = 0

    if order_id != 1:
        previous_dist = traced_df.loc[
            (traced_df[store_idx1] == class_to_change) & (traced_df[store_idx2] == order_id - 1),
            store_dist,
        ].values[0]

        if previous_dist <= current_dist:
            return -1
        else:
            cut_off_size = traced_df.loc[
                (traced_df[store_idx1] == class_to_change) & (traced_df[store_idx2] < order_id)
            ].shape[0]
            if class_max is None:
                traced_df.loc[
                    (traced_df[store_idx1] == class_to_change) & (traced_df[store_idx2] < order_id),
                    store_idx1,
                ] = current_class
            else:
                traced_df.loc[
                    (traced_df[store_idx1] == class_to_change) & (traced_df[store_idx2] < order_id),
                    store_idx1,
                ] = -1

    if class_max is None:
        chain_df[store_idx1] = class_to_change
        class_max = np.max(chain_df[store_idx2].values)
        traced_df.loc[traced_df[store_idx1] == class_to_change, [store_idx2]] += class_max - cut_off_size
    else:
        temp_cl_id = chain_df[store_idx1][0]
        traced_df.loc[traced_df[store_idx1] == class_to_change, [store_idx2]] += class_max[0] - cut_off_size
        traced_df.loc[traced_df[store_idx1] == class_to_change, [store_idx1]] = temp_cl_id
        if order_id != 1:
            traced_df.loc[traced_df[store_idx1] == -1, [store_idx1]] = class_max[1]

    chain_df.loc[chain_df.index[-1], store_dist] = current_dist


def trace_chains(motl_entry, motl_exit, max_distance, min_distance=0, feature="tomo_id", output_motl=None,
                 store_idx1="object_id", store_idx2="geom2", store_dist="geom4"):
    motl_entry = cryomotl.Motl.load(motl_entry)
    motl_exit = cryomotl.Motl.load(motl_exit)

    features1 = np.unique(motl_entry.df.loc[:, feature])
    features2 = np.unique(motl_exit.df.loc[:, feature])

    if ~np.all(np.equal(features1, features2)):
        ValueError("Provided motls have different features sets!!!")

    traced_motl = cryomotl.Motl.create_empty_motl_df()

    for f in features1:
        fm_entry = motl_entry.get_motl_subset(f, feature, reset_index=False)
        fm_exit = motl_exit.get_motl_subset(f, feature, reset_index=False)

        nfm_df = cryomotl.Motl.create_empty_motl_df()

        fm_size = fm_entry.df.shape[0]
        remain_entry = np.full((fm_size,), True)
        remain_exit = np.full((fm_size,), True)

        class_c = 1

        coord_entry = fm_entry.get_coordinates()
        coord_exit = fm_exit.get_coordinates()

        kdt_entry = sn.KDTree(coord_entry)
        kdt_exit = sn.KDTree(coord_exit)

        for i, current_point in enumerate(coord_exit):
            if ~remain_exit[i]:
                continue
            else:
                ch_m = cryomotl.Motl.create_empty_motl_df()
                chain_id = 1
                trace_chain = True
                p_idx = i
                used_idx = []
                while trace_chain:
                    ch_m = pd.concat([ch_m, fm_entry.df.iloc[[p_idx]]], ignore_index=True)

                    ch_m.loc[ch_m.index[-1], [store_idx2]] = chain_id
                    chain_id += 1

                    remain_entry[p_idx] = False
                    remain_exit[p_idx] = False
                    used_idx.append(p_idx)

                    p_coord = coord_exit[p_idx, None, :]

                    if np.all(remain_entry == False):
                        np_idx = -1
                    else:
                        np_idx, np_dist = get_nn_dist(kdt_entry, p_coord, max_distance, min_distance,
                                                      remain_entry, True)

                    if np_idx != -1:
                        p_idx = np_idx
                        ch_m.loc[ch_m.index[-1], [store_dist]] = np_dist
                    else:
                        ch_m.loc[:, store_idx1] = class_c
                        class_c += 1

                        if nfm_df.size != 0:
                            first_coord = (
                                ch_m.loc[ch_m.index[0], ["x", "y", "z"]].values
                                + ch_m.loc[ch_m.index[0], ["shift_x", "shift_y", "shift_z"]].values
                            )
                            first_coord = first_coord.reshape(1, 3)
                            remain_entry[used_idx] = True
                            remain_exit[used_idx] = True
                            nm_idx, nm_dist = get_nn_dist(kdt_entry, p_coord, max_distance, min_distance,
                                                          remain_entry, False)
                            first_idx, first_dist = get_nn_dist(kdt_exit, first_coord, max_distance, min_distance,
                                                                remain_exit, False)

                            remain_entry[used_idx] = False
                            remain_exit[used_idx] = False

                            if first_idx == nm_idx and first_idx != -1 and ch_m.shape[0] == 1:
                                if first_dist <= nm_dist:
                                    nm_idx = -1
                                else:
                                    first_idx = -1
                            elif first_idx != -1 and nm_idx != -1:
                                part1 = fm_exit.df.loc[fm_exit.df.index[first_idx], "subtomo_id"]
                                part2 = fm_entry.df.loc[fm_entry.df.index[nm_idx], "subtomo_id"]
                                cl1 = nfm_df.loc[nfm_df["subtomo_id"] == part1, store_idx1].values[0]
                                cl2 = nfm_df.loc[nfm_df["subtomo_id"] == part2, store_idx1].values[0]
                                if cl1 == cl2:
                                    if first_dist <= nm_dist:
                                        nm_idx = -1
                                    else:
                                        first_idx = -1

                            ch_changed = False

                            if first_idx != -1:
                                ch_changed = add_chain_suffix(ch_m, fm_exit, nfm_df, first_idx, first_dist,
                                                              store_idx1, store_idx2)

                            if nm_idx != -1:
                                class_max = None
                                if ch_changed:
                                    current_class = class_c - 1
                                    cl_max = np.max(ch_m[store_idx2].values)
                                    if cl_max > 1:
                                        if (nfm_df[store_idx1] == current_class).any():
                                            # the number went to a tail cut off by add_chain_suffix, a cut-off head needs its own
                                            current_class = class_c
                                            class_c += 1
                                        class_max = (cl_max, current_class)

                                add_chain_prefix(ch_m, fm_entry, nfm_df, nm_idx, nm_dist, store_idx1, store_idx2,
                                                 class_max=class_max)

                        nfm_df = pd.concat([nfm_df, ch_m])
                        trace_chain = False

        traced_motl = pd.concat([traced_motl, nfm_df])

    traced_motl = cryomotl.Motl(motl_df=traced_motl)

    if output_motl is not None:
        traced_motl.write_to_emfile(output_motl)

    return traced_motl
'''
REF = {"np": np, "pd": pd, "sn": sn, "cryomotl": cryomotl}
exec(ORIGINAL, REF)

COVER = {"suffix kept": 0, "suffix joined": 0, "tail cut": 0, "prefix refused": 0, "prefix joined": 0,
         "head cut": 0, "both sides": 0, "both sides head cut": 0}


def _count(name):
    inner = REF[name]

    def wrapped(chain_df, motl, traced_df, row, current_dist, store_idx1="object_id", store_idx2="geom2", **kwargs):
        pid = motl.df.loc[motl.df.index[row], "subtomo_id"]
        cl, order = traced_df.loc[traced_df["subtomo_id"] == pid, [store_idx1, store_idx2]].values[0]
        last = np.max(traced_df.loc[traced_df[store_idx1] == cl, store_idx2].values)
        r = inner(chain_df, motl, traced_df, row, current_dist, store_idx1, store_idx2, **kwargs)
        if name == "add_chain_suffix":
            COVER["suffix joined" if r else "suffix kept"] += 1
            if r and order != last:
                COVER["tail cut"] += 1
        else:
            COVER["prefix refused" if r == -1 else "prefix joined"] += 1
            if r != -1 and order != 1:
                COVER["head cut"] += 1
            if kwargs.get("class_max") is not None:
                COVER["both sides"] += 1
                if r != -1 and order != 1:
                    COVER["both sides head cut"] += 1
        return r

    return wrapped


REF["add_chain_suffix"] = _count("add_chain_suffix")
REF["add_chain_prefix"] = _count("add_chain_prefix")


def outcome(fn, *args, **kwargs):
    """Result frame or the exception type -- lets the comparison cover calls that fail in the original as well."""
    try:
        return fn(*args, **kwargs).df
    except Exception as err:  # noqa
        return type(err).__name__


# --------------------------------------------------------------------------------------------------------------
# input generators (paired entry / exit lists inside the quantifier)
# --------------------------------------------------------------------------------------------------------------
def make_pair(rng, n, n_tomo, mode):
    tomo_ids = np.sort(rng.choice(np.arange(1, 9), size=n_tomo, replace=False))
    tomo = np.sort(rng.choice(tomo_ids, size=n))
    if mode == "dense":  # everything within reach of everything -> merges, prefixes and tail cuts
        entry = rng.uniform(0, 12, size=(n, 3))
        disp = rng.normal(0, 4, size=(n, 3))
    elif mode == "line":  # noisy polyline, shuffled -> chains are started "in the middle"
        t = np.arange(n) * 10.0
        entry = np.c_[t, rng.normal(0, 2, n), rng.normal(0, 2, n)]
        disp = np.c_[np.full(n, 6.0), rng.normal(0, 1, n), rng.normal(0, 1, n)]
        perm = rng.permutation(n)
        entry, disp = entry[perm], disp[perm]
    elif mode == "clusters":
        centres = rng.uniform(0, 200, size=(max(1, n // 6), 3))
        entry = centres[rng.integers(0, centres.shape[0], n)] + rng.normal(0, 5, size=(n, 3))
        disp = rng.normal(0, 6, size=(n, 3))
    else:  # sparse
        entry = rng.uniform(0, 150, size=(n, 3))
        disp = rng.normal(0, 10, size=(n, 3))
    if rng.random() < 0.3:  # integer grid -> exact distance ties and zero distances
        entry = np.round(entry)
        disp = np.round(disp)

    df = cryomotl.Motl.create_empty_motl_df()
    df["subtomo_id"] = np.arange(1, n + 1, dtype=float)
    df = df.fillna(0.0)
    df["tomo_id"] = tomo.astype(float)
    df["class"] = 1.0
    df["score"] = rng.random(n)
    df["phi"] = rng.uniform(-180, 180, n)
    df_entry, df_exit = df.copy(), df.copy()
    sh_e = np.where(rng.random((n, 3)) < 0.5, np.round(rng.normal(0, 1, (n, 3)), 2), 0.0)
    df_entry[["x", "y", "z"]] = entry - sh_e
    df_entry[["shift_x", "shift_y", "shift_z"]] = sh_e
    ex = entry + disp
    sh_x = np.where(rng.random((n, 3)) < 0.5, np.round(rng.normal(0, 1, (n, 3)), 2), 0.0)
    df_exit[["x", "y", "z"]] = ex - sh_x
    df_exit[["shift_x", "shift_y", "shift_z"]] = sh_x
    return df_entry, df_exit


# --------------------------------------------------------------------------------------------------------------
# the property (independent computation straight from the coordinates)
# --------------------------------------------------------------------------------------------------------------
def check_property(res, df_entry, df_exit, dmax, dmin, tag):
    out = res.df
    ids = np.sort(out["subtomo_id"].to_numpy())
    assert ids.shape[0] == df_entry.shape[0] and np.array_equal(ids, np.sort(df_entry["subtomo_id"].to_numpy())), (
        tag + ": every particle exactly once"
    )
    c_entry = {
        s: np.array([r.x + r.shift_x, r.y + r.shift_y, r.z + r.shift_z]) for s, r in
        zip(df_entry["subtomo_id"], df_entry.itertuples())
    }
    c_exit = {
        s: np.array([r.x + r.shift_x, r.y + r.shift_y, r.z + r.shift_z]) for s, r in
        zip(df_exit["subtomo_id"], df_exit.itertuples())
    }
    tomo_of = dict(zip(df_entry["subtomo_id"], df_entry["tomo_id"]))
    for s, t in zip(out["subtomo_id"], out["tomo_id"]):
        assert tomo_of[s] == t, tag + ": tomo_id kept"
    for (t, o), g in out.groupby(["tomo_id", "object_id"]):
        g = g.sort_values("geom2")
        k = g.shape[0]
        assert np.array_equal(g["geom2"].to_numpy(), np.arange(1, k + 1)), f"{tag}: order numbers 1..k in {t},{o}"
        sid = g["subtomo_id"].to_numpy()
        rec = g["geom4"].to_numpy()
        for a in range(k - 1):
            d = np.linalg.norm(c_exit[sid[a]] - c_entry[sid[a + 1]])
            assert d <= dmax * (1 + 1e-12), f"{tag}: distance {d} above {dmax}"
            if dmin > 0:
                assert d > dmin * (1 - 1e-12), f"{tag}: distance {d} not above {dmin}"
            assert abs(rec[a] - d) <= 1e-9 * max(1.0, d), f"{tag}: recorded {rec[a]} vs {d}"
    return True


def same(a, b, tag):
    pd.testing.assert_frame_equal(a.df, b.df, check_exact=True, obj=tag)


# seeds found by search over 6000 small dense arrangements: these reach the rare branches of the tracing (joining
# behind an existing chain, cutting its tail, connecting on both sides with and without cutting the head)
HARD_SEEDS = [0, 93, 96, 114, 236, 336, 694, 742, 771, 780, 920, 1022, 1039, 1272, 1361, 1443, 1453, 1482, 1599, 1691,
              2099, 2140, 2150, 2216, 2353, 2391, 2564, 2714, 3016, 3080, 3296, 3830, 3841, 3874, 3877, 3923, 4015,
              4118, 4190, 4356, 4634, 5178, 5283, 5445, 5461, 5464, 5602, 5702, 5773, 5912]


def hard_case(seed):
    rng = np.random.default_rng(seed)
    n = int(rng.integers(4, 16))
    mode = ["dense", "clusters"][seed % 2]
    dmax = float(rng.choice([4.0, 6.0, 9.0]))
    dmin = float(rng.choice([0, 0, 1.0, 2.0, 3.0]))
    e, x = make_pair(rng, n, 1, mode)
    return e, x, dmax, dmin


def cases():
    rng = np.random.default_rng(20260928)
    out = []
    modes = ["dense", "line", "clusters", "sparse"]
    for k in range(N_RANDOM):
        n = int(rng.integers(2, 61)) if k % 5 else int(rng.choice([2, 3, 60]))
        n_tomo = int(rng.integers(1, 4))
        n_tomo = min(n_tomo, n)
        mode = modes[k % 4]
        dmax = float(rng.choice([3.0, 6.0, 9.0, 15.0, 40.0, 1e4]))
        dmin = float(rng.choice([0.0, 0.0, 0.5, 2.0, 5.0]))
        if dmin >= dmax:
            dmin = 0.0
        out.append((k, mode, n, n_tomo, dmax, dmin) + make_pair(rng, n, n_tomo, mode))
    for seed in HARD_SEEDS:
        e, x, dmax, dmin = hard_case(seed)
        out.append((f"hard{seed}", "hard", e.shape[0], 1, dmax, dmin, e, x))
    # three tomograms made of hard arrangements (object numbers restart, chains stay inside their tomogram)
    for a in range(0, 12, 3):
        parts_e, parts_x = [], []
        for j, seed in enumerate(HARD_SEEDS[a:a + 3]):
            e, x, _, _ = hard_case(seed)
            for p in (e, x):
                p["tomo_id"] = float(j + 2)
                p["subtomo_id"] += 100.0 * j
            parts_e.append(e)
            parts_x.append(x)
        e = pd.concat(parts_e, ignore_index=True)
        x = pd.concat(parts_x, ignore_index=True)
        out.append((f"hard3x{a}", "hard", e.shape[0], 3, 6.0, [0.0, 1.0][a % 2], e, x))
    return out


N_RANDOM = 70


def run(extra=None):
    n_checked = 0
    n_prop_fail = 0
    for k, mode, n, n_tomo, dmax, dmin, df_entry, df_exit in cases():
        tag = f"case {k} ({mode}, n={n}, tomos={n_tomo}, max={dmax}, min={dmin})"
        e0, x0 = df_entry.copy(), df_exit.copy()
        new = ribana.trace_chains(df_entry, df_exit, dmax, dmin)
        ref = REF["trace_chains"](e0.copy(), x0.copy(), dmax, dmin)
        same(new, ref, tag + " first call")
        # inputs are not modified
        pd.testing.assert_frame_equal(df_entry, e0)
        pd.testing.assert_frame_equal(df_exit, x0)
        try:
            check_property(new, e0, x0, dmax, dmin, tag)
        except AssertionError as err:  # the original has the same result (shown above), so report it only
            n_prop_fail += 1
            PROP_FAILS.append(str(err))
        # second call, keyword form, same objects
        new2 = ribana.trace_chains(motl_entry=df_entry, motl_exit=df_exit, max_distance=dmax, min_distance=dmin,
                                   feature="tomo_id", output_motl=None, store_idx1="object_id", store_idx2="geom2",
                                   store_dist="geom4")
        same(new2, ref, tag + " second call")
        # edit the inputs in place and call a third time on the same objects
        df_exit.loc[df_exit.index[::2], "x"] += 3.0
        df_entry.loc[df_entry.index[::3], "shift_y"] -= 2.0
        e1, x1 = df_entry.copy(), df_exit.copy()
        new3 = ribana.trace_chains(df_entry, df_exit, dmax, min_distance=dmin)
        ref3 = REF["trace_chains"](e1.copy(), x1.copy(), dmax, min_distance=dmin)
        same(new3, ref3, tag + " third call after in-place edit")
        try:
            check_property(new3, e1, x1, dmax, dmin, tag + " edited")
        except AssertionError as err:
            n_prop_fail += 1
            PROP_FAILS.append(str(err))
        # Motl objects as input and different call order (exit list == entry list as in unify_nn_orientations)
        m = cryomotl.Motl(e1.copy())
        new4 = ribana.trace_chains(m, m, dmax, dmin)
        ref4 = REF["trace_chains"](cryomotl.Motl(e1.copy()), cryomotl.Motl(e1.copy()), dmax, dmin)
        same(new4, ref4, tag + " self tracing")
        # other storage columns (outside the observed columns, still has to behave like the original)
        if isinstance(k, str) and k.endswith(('0', '3')) or isinstance(k, int) and k % 5 == 0:
            for kw in ({"store_idx1": "geom3", "store_idx2": "geom5"}, {"store_dist": "geom1"},
                       {"store_idx1": "class", "store_idx2": "geom1", "store_dist": "geom3"}):
                a = outcome(ribana.trace_chains, e1.copy(), x1.copy(), dmax, dmin, **kw)
                b = outcome(REF["trace_chains"], e1.copy(), x1.copy(), dmax, dmin, **kw)
                if isinstance(b, str) or isinstance(a, str):
                    assert isinstance(a, str) and a == b, f"{tag} {kw}: {a if isinstance(a, str) else 'frame'} vs {b if isinstance(b, str) else 'frame'}"
                else:
                    pd.testing.assert_frame_equal(a, b, check_exact=True, obj=tag + str(kw))
                n_checked += 1
        if extra is not None:
            extra(k, e1, x1, dmax, dmin, tag)
        n_checked += 4
    return n_checked, n_prop_fail


def check_get_nn_dist(n_trees=40, n_queries=25):
    """get_nn_dist against the original and against a brute-force search (positional call, as in the original)."""
    rng = np.random.default_rng(7)
    n_cmp = 0
    for _ in range(n_trees):
        n = int(rng.integers(1, 40))
        pts = rng.uniform(0, 20, size=(n, 3))
        if rng.random() < 0.4:
            pts = np.round(pts / 4) * 4  # ties and duplicates
        kdt = sn.KDTree(pts)
        for _ in range(n_queries):
            active = rng.random(n) < rng.choice([0.0, 0.3, 0.7, 1.0])
            q = pts[rng.integers(0, n)][None, :] if rng.random() < 0.5 else rng.uniform(0, 20, size=(1, 3))
            dmax = float(rng.choice([0.5, 3.0, 8.0, 100.0]))
            dmin = float(rng.choice([0.0, 0.0, 1.0, 4.0]))
            for tv in (True, False):
                for rep in range(2):  # repeated identical query has to give the identical answer
                    a = ribana.get_nn_dist(kdt, q, dmax, dmin, active, tv)
                    b = REF["get_nn_dist"](kdt, q, dmax, dmin, active, tv)
                    assert type(a) is type(b) and len(a) == 2
                    assert a[0] == b[0] and (a[1] == b[1] if b[0] != -1 else a[1] == []), (a, b)
                    d = np.linalg.norm(pts - q, axis=1)
                    ok = (active == tv) & (d <= dmax) & (d > dmin)
                    if not ok.any():
                        assert a[0] == -1
                    else:
                        assert a[0] != -1 and ok[a[0]] and abs(a[1] - d[ok].min()) <= 1e-9
                    n_cmp += 1
                active[rng.integers(0, n)] ^= True  # edit the mask in place between the queries
    return n_cmp


PROP_FAILS = []

if __name__ == "__main__":
    print(f"get_nn_dist: {check_get_nn_dist()} queries agree with the original and with brute force")
    n_checked, n_prop_fail = run()
    print(f"compared {n_checked} tracings with the original code; property violations: {n_prop_fail}")
    print("branches exercised in the reference:", COVER)
    assert all(v > 0 for v in COVER.values()), "generator does not reach every branch"
    for p in PROP_FAILS[:5]:
        print("  ", p)
    if n_prop_fail:
        print("FAIL")
        sys.exit(1)
    print("PASS")
