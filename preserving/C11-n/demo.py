import os
import sys

sys.path.insert(0, os.getcwd())
"""C11 / change a -- read() and write() accept path objects (os.PathLike) next to strings and arrays.

Checks the property (a 3-D array written to .mrc / .rec / .em comes back with the same (x,y,z) shape and voxels, float64
narrowed to float32; on disk x varies fastest and nx,ny,nz equal the shape; EM<->MRC conversions keep every voxel, negated
on request, and refuse to overwrite when told so) with parsers / writers of the two formats that use nothing but struct and
numpy, and compares every result of the functions in the tree with the result of the original functions (text kept
below) on the same inputs: bytes of the files, class / dtype / shape / strides / flags / values of the arrays, exception
type and arguments of the failing calls.  On a tree that accepts path objects the same cases are repeated through
pathlib.Path, PurePath and a foreign os.PathLike (str and bytes) and must give the files / arrays of the string route.
"""

# text of the functions as they are at HEAD (cryocat/cryomap.py, read ... mrc2em), kept for the comparison
ORIGINAL_TEXT = r'''def read(input_map, transpose=True, data_type=None):
    """Reads a map file (from the file or numpy array) and returns the data as a numpy array.

    Parameters
    ----------
    input_map : str or numpy.ndarray
        The input map file name or a numpy array containing the map data. The accepted formats are MRC and EM.
    transpose : bool, optional
        Whether to transpose the data. Default is True.
    data_type : numpy.dtype, optional
        The desired data type of the returned array. If None, the data type is not modified.

    Returns
    -------
    numpy.ndarray
        The map data as a numpy array.

    Raises
    ------
    ValueError
        If the input map file name does not have a valid extension.
        If the input map file is not a valid path or numpy array.

    Notes
    -----
    This function supports reading map files with the following extensions: .mrc, .rec, .st, .ali, .em.

    If the input_map is a string, the function will attempt to open the file and read the data.
    If the input_map is a numpy array, it will be directly used as the map data.

    If transpose is True, the data will be transposed using the transpose(2, 1, 0) method.

    If data_type is not None, the data will be cast to the specified data type using the astype method.

    Examples
    --------
    >>> data = read("map.mrc")
    >>> data = read("map.em", transpose=False, data_type=np.float32)
    >>> data = read(np.random.rand(10, 10, 10))
    """

    if isinstance(input_map, str):

        def valid_mrc(filename):
            pattern = r"\.(mrc|ali|rec|st)(\.\d+)?$"
            return bool(re.search(pattern, filename))

        if valid_mrc(input_map):
            data = mrcfile.open(input_map).data
        elif input_map.endswith(".em"):
            data = emfile.read(input_map)[1]
        else:
            raise ValueError("The input map file name", input_map, "is neither em or mrc file!")

        if transpose:
            data = data.transpose(2, 1, 0)
    elif isinstance(input_map, np.ndarray):
        data = np.array(input_map)
    else:
        raise ValueError(f"Input map must be path to valid file or nparray")

    data = np.array(data, copy=True)
    if data_type is not None:
        data = data.astype(data_type)

    return data


def write(data_to_write, file_name, transpose=True, data_type=None, overwrite=True):
    """Write data to a specified file in a given format.

    Parameters
    ----------
    data_to_write : numpy.ndarray
        The data array to be written to the file. It can be of any shape and type.

    file_name : str
        The name of the file to which the data will be written. The file extension must be
        one of the following: '.mrc', '.rec', or '.em'.

    transpose : bool, default=True
        If True (default), the data will be transposed before writing. The transposition
        will change the order of the axes to (2, 1, 0). Default is True.

    data_type : type, optional
        If specified, the data will be cast to this type before writing. If None (default),
        the original data type will be used.

    overwrite : bool, default=True
        If True (default), existing files will be overwritten. If False, an error will be
        raised if the file already exists. Default is True.

    Raises
    ------
    ValueError
        If the provided file name does not end with one of the allowed extensions
        ('.mrc', '.rec', or '.em').

    Notes
    -----
    The function will convert the data to float32 if the original data type is float64
    before writing to the file.
    """

    if data_type is not None:
        data_to_write = data_to_write.astype(data_type)

    if transpose and data_to_write.ndim == 3:
        data_to_write = data_to_write.transpose(2, 1, 0)

    if data_to_write.dtype == np.float64:
        data_to_write = data_to_write.astype(np.float32)

    if file_name.endswith(".mrc") or file_name.endswith(".rec"):
        mrcfile.write(name=file_name, data=data_to_write, overwrite=overwrite)
    elif file_name.endswith(".em"):
        emfile.write(file_name, data=data_to_write, overwrite=overwrite)
    else:
        raise ValueError("The output file name", file_name, "has to end with .mrc, .rec or .em!")


def invert_contrast(input_map, output_name=None):
    """Invert the contrast of an input volume map.

    Parameters
    ----------
    input_map : str or numpy.ndarray
        The path to the input volume map file or the volume map data itself.
    output_name : str, optional
        The name of the output file where the inverted volume map will be saved.
        If not provided, the output will not be saved to a file.

    Returns
    -------
    numpy.ndarray
        The inverted volume map.

    Notes
    -----
    The contrast is inverted by multiplying the input map by -1. The data type
    of the output file will be set to single precision if the input map is of
    type float64; otherwise, it will retain the original data type.
    """

    input_map = read(input_map)
    inverted_map = input_map * (-1)

    if output_name is not None:
        if inverted_map.dtype == np.float64:
            data_type = np.single
        else:
            data_type = inverted_map.dtype

        write(inverted_map, output_name, data_type=data_type)

    return inverted_map


def em2mrc(map_name, invert=False, overwrite=True, output_name=None):
    """Convert a file in EM format to MRC format.

    Parameters
    ----------
    map_name : str
        The name of the input map file to be converted.
    invert : bool, default=False
        If True, the data will be inverted (multiplied by -1). Default is False.
    overwrite : bool, default=True
        If True, allows overwriting of the output file if it already exists. Default is True.
    output_name : str, optional
        The name of the output MRC file. If None, the output name will be derived from `map_name` by replacing the
        last two characters with 'mrc'.

    Returns
    -------
    None
        The function writes the converted data to the specified output file.

    Raises
    -------
    ValueError
        If input map_name is not a valid .em file path

    """
    if not isinstance(map_name, str):
        raise ValueError(f"Input file must be a string, valid path")
    elif not map_name.endswith(".em"):
        raise ValueError(f"Provided path must be .em file")
    data_to_write = read(map_name)

    if invert:
        data_to_write = data_to_write * (-1)

    if output_name is None:
        output_name = map_name[:-2] + "mrc"
    elif not output_name.endswith(".mrc"):
        raise ValueError(f"Specified output file name must end with .mrc")
    write(data_to_write, output_name, overwrite=overwrite)


def mrc2em(map_name, invert=False, overwrite=True, output_name=None):
    """Convert a file in MRC format to EM format.

    map_name : str
        The name of the input map file to be converted.
    invert : bool, default=False
        If True, the data will be inverted (multiplied by -1). Default is False.
    overwrite : bool, default=True
        If True, allows overwriting of the output file if it already exists. Default is True.
    output_name : str, optional
        The name of the output EM file. If None, the output name will be derived from `map_name` by replacing the
        last three characters with 'em'.

    Returns
    -------
    None
        The function writes the converted data to the specified output file.

    Raises
    -------
    ValueError
        If the provided file name does not end with .em extension.

    """
    if not isinstance(map_name, str):
        raise ValueError(f"Input is not a string")
    else:
        if not map_name.endswith(".mrc"):
            raise ValueError(f"Input file is not .mrc file")
    data_to_write = read(map_name)

    if invert:
        data_to_write = data_to_write * (-1)

    if output_name is None:
        output_name = map_name[:-3] + "em"
    elif not output_name.endswith(".em"):
        raise ValueError(f"Specified output_name is not .em file")

    write(data_to_write, output_name, overwrite=overwrite)
'''


import gc
import itertools
import pathlib
import shutil
import struct
import tempfile
import warnings

import numpy as np
import emfile
import mrcfile
import re

from cryocat import cryomap

warnings.simplefilter("ignore")

# ---------------------------------------------------------------------------------------------------------------------
# the original functions, executed in their own namespace (same module-level names as cryocat/cryomap.py uses)
# ---------------------------------------------------------------------------------------------------------------------
ORIG = {"emfile": emfile, "mrcfile": mrcfile, "re": re, "np": np}
exec(compile(ORIGINAL_TEXT, "<original cryomap.read/write/...>", "exec"), ORIG)

FAILS = []
COUNT = {"property": 0, "compare": 0}


def check(cond, msg):
    if not cond:
        FAILS.append(msg)
        if len(FAILS) <= 25:
            print("FAIL:", msg)


# ---------------------------------------------------------------------------------------------------------------------
# independent parsers of the two formats (bytes only, nothing of mrcfile / emfile / cryocat is used)
# ---------------------------------------------------------------------------------------------------------------------
MRC_MODES = {0: "<i1", 1: "<i2", 2: "<f4", 6: "<u2", 12: "<f2"}
EM_CODES = {1: "<i1", 2: "<i2", 4: "<i4", 5: "<f4", 9: "<f8"}


def parse_mrc(path):
    """-> (nx, ny, nz), numpy dtype string, flat data in file order"""
    raw = open(path, "rb").read()
    nx, ny, nz, mode = struct.unpack("<4i", raw[0:16])
    nsymbt = struct.unpack("<i", raw[92:96])[0]
    assert raw[208:212] == b"MAP ", "no MAP stamp"
    assert raw[212] == 0x44, "not little endian"
    dt = np.dtype(MRC_MODES[mode])
    off = 1024 + nsymbt
    flat = np.frombuffer(raw, dtype=dt, count=nx * ny * nz, offset=off)
    assert len(raw) == off + nx * ny * nz * dt.itemsize, "file length does not match header"
    return (nx, ny, nz), dt, flat


def parse_em(path):
    raw = open(path, "rb").read()
    code = raw[3]
    nx, ny, nz = struct.unpack("<3i", raw[4:16])
    dt = np.dtype(EM_CODES[code])
    flat = np.frombuffer(raw, dtype=dt, count=nx * ny * nz, offset=512)
    assert len(raw) == 512 + nx * ny * nz * dt.itemsize, "file length does not match header"
    return (nx, ny, nz), dt, flat


def parse(path):
    return parse_em(path) if str(path).endswith(".em") else parse_mrc(path)


def build_mrc(path, vol_xyz):
    """independent MRC writer (mode from dtype, x fastest) used to feed the reader with foreign files"""
    nx, ny, nz = vol_xyz.shape
    mode = {"i1": 0, "i2": 1, "f4": 2}[vol_xyz.dtype.str[1:]]
    h = bytearray(1024)
    struct.pack_into("<4i", h, 0, nx, ny, nz, mode)
    struct.pack_into("<3i", h, 28, nx, ny, nz)  # mx my mz
    struct.pack_into("<3f", h, 40, float(nx), float(ny), float(nz))  # cella
    struct.pack_into("<3f", h, 52, 90.0, 90.0, 90.0)
    struct.pack_into("<3i", h, 64, 1, 2, 3)  # mapc mapr maps
    h[208:212] = b"MAP "
    h[212:216] = bytes([0x44, 0x44, 0, 0])
    struct.pack_into("<i", h, 88, 1)  # ispg 1: a volume (with 0 and nz == 1 mrcfile hands out a 2-D image)
    struct.pack_into("<i", h, 108, 20140)  # nversion
    with open(path, "wb") as f:
        f.write(bytes(h) + np.ascontiguousarray(vol_xyz.transpose(2, 1, 0)).astype(vol_xyz.dtype.newbyteorder("<")).tobytes())


def build_em(path, vol_xyz):
    nx, ny, nz = vol_xyz.shape
    code = {"i1": 1, "i2": 2, "f4": 5}[vol_xyz.dtype.str[1:]]
    h = bytearray(512)
    h[0], h[3] = 6, code
    struct.pack_into("<3i", h, 4, nx, ny, nz)
    with open(path, "wb") as f:
        f.write(bytes(h) + np.ascontiguousarray(vol_xyz.transpose(2, 1, 0)).tobytes())


def file_bytes(path):
    """bytes of a file; for MRC the ten text labels are blanked (mrcfile puts the time of writing there)"""
    raw = open(path, "rb").read()
    if not str(path).endswith(".em") and len(raw) >= 1024:
        raw = raw[:224] + bytes(800) + raw[1024:]
    return raw


def same_values(a, b):
    return a.shape == b.shape and np.array_equal(a, b, equal_nan=(a.dtype.kind == "f" and b.dtype.kind == "f"))


def same_array(a, b):
    """identical in every observable respect: class, dtype, shape, strides, flags, values"""
    return (
        type(a) is type(b)
        and a.dtype == b.dtype
        and a.shape == b.shape
        and a.strides == b.strides
        and a.flags.writeable == b.flags.writeable
        and a.flags.owndata == b.flags.owndata
        and a.flags.c_contiguous == b.flags.c_contiguous
        and a.flags.f_contiguous == b.flags.f_contiguous
        and same_values(a, b)
    )


def outcome(fn, *args, **kwargs):
    """('ok', result) or ('exc', type name, args)"""
    try:
        return ("ok", fn(*args, **kwargs))
    except Exception as e:  # noqa
        return ("exc", type(e).__name__, repr(e.args))


# ---------------------------------------------------------------------------------------------------------------------
# inputs
# ---------------------------------------------------------------------------------------------------------------------
rng = np.random.default_rng(20240611)
DTYPES = [np.float32, np.float64, np.int16, np.int8]
EXTS = [".mrc", ".rec", ".em"]


def make_volume(shape, dtype, flavour):
    n = int(np.prod(shape))
    if np.dtype(dtype).kind == "f":
        v = rng.normal(0, 50, n)
        if flavour == 1:
            v[rng.random(n) < 0.2] = 0.0
        elif flavour == 2:
            v[rng.random(n) < 0.15] = np.nan
            v[0] = -0.0
            v[-1] = np.inf
        elif flavour == 3:
            v = -np.abs(v)
        elif flavour == 4:
            v = np.arange(n, dtype=float) - n // 2  # every voxel different: any axis mix-up shows
        v = v.astype(dtype)
    else:
        info = np.iinfo(dtype)
        if flavour == 4:
            v = ((np.arange(n) * 7) % (info.max - 1)) - (info.max // 2)
        elif flavour == 3:
            v = -rng.integers(0, info.max, n)
        else:
            v = rng.integers(info.min + 1, info.max + 1, n)  # minimum left out: its negation is not representable
            if flavour == 1:
                v[rng.random(n) < 0.2] = 0
            v[0], v[-1] = info.max, info.min + 1
        v = v.astype(dtype)
    return v.reshape(shape)


def expected_dtype(dtype, data_type):
    dt = np.dtype(dtype if data_type is None else data_type)
    return np.dtype(np.float32) if dt == np.float64 else dt


edge_shapes = [(1, 1, 1), (1, 2, 3), (3, 2, 1), (48, 1, 7), (1, 48, 2), (2, 1, 48), (48, 47, 46), (5, 5, 4), (4, 5, 5),
               (5, 4, 5), (7, 7, 7), (2, 3, 2), (16, 9, 31), (31, 16, 9)]
rand_shapes = []
while len(rand_shapes) < 40:
    s = tuple(int(k) for k in rng.integers(1, 49, 3))
    if len(set(s)) == 3:
        rand_shapes.append(s)
SHAPES = edge_shapes + rand_shapes

tmp = tempfile.mkdtemp(prefix="c11_demo_")
counter = itertools.count()


def newname(ext, sub=""):
    d = os.path.join(tmp, sub) if sub else tmp
    os.makedirs(d, exist_ok=True)
    return os.path.join(d, "vol_%05d%s" % (next(counter), ext))


# does this tree accept path objects? (new input kind of one of the changes; the old tree raises for them)
_probe = newname(".mrc")
try:
    cryomap.write(np.zeros((2, 3, 4), np.float32), pathlib.Path(_probe))
    PATH_OBJECTS = same_values(cryomap.read(pathlib.Path(_probe)), np.zeros((2, 3, 4), np.float32))
except Exception:
    PATH_OBJECTS = False

try:
    # =================================================================================================================
    # 1. the property: write -> bytes on disk -> read
    # =================================================================================================================
    for si, shape in enumerate(SHAPES):
        for di, dtype in enumerate(DTYPES):
            flavour = (si + di) % 5
            vol = make_volume(shape, dtype, flavour)
            keep = vol.copy()
            for ext in EXTS:
                # options: a small rotating subset for the random shapes, everything for the edge shapes
                opts = [(True, None), (False, None), (True, np.float32), (True, np.float64), (False, np.float64),
                        (True, np.int16), (False, np.int16), (True, np.int8)]
                if si >= len(edge_shapes):
                    opts = [opts[0], opts[1], opts[2 + (si + di) % 6]]
                for transpose, data_type in opts:
                    tag = f"{shape} {np.dtype(dtype).name} {ext} transpose={transpose} data_type={data_type}"
                    if data_type is not None and np.dtype(data_type).kind == "i" and np.dtype(dtype).kind == "f":
                        src = np.nan_to_num(vol, nan=0.0, posinf=0.0, neginf=0.0)  # casting NaN to int: undefined
                        src = np.clip(src, -100, 100)
                    else:
                        src = vol
                    src_keep = src.copy()
                    fn = newname(ext)
                    cryomap.write(src, fn, transpose=transpose, data_type=data_type)
                    fo = newname(ext, "orig")
                    ORIG["write"](src, fo, transpose=transpose, data_type=data_type)
                    check(file_bytes(fn) == file_bytes(fo), "bytes differ from original write: " + tag)
                    COUNT["compare"] += 1
                    check(same_values(src, src_keep) and src.dtype == src_keep.dtype, "write modified its input: " + tag)

                    want = src if data_type is None else src.astype(data_type)
                    edt = expected_dtype(dtype, data_type)
                    want = want.astype(edt)
                    (nx, ny, nz), fdt, flat = parse(fn)
                    check(fdt == edt, f"element type on disk {fdt} != {edt}: " + tag)
                    if transpose:
                        check((nx, ny, nz) == shape, f"header {(nx, ny, nz)} != shape {shape}: " + tag)
                        # x fastest: voxel (x,y,z) at offset x + nx*(y + ny*z)
                        disk = flat.reshape(nz, ny, nx)
                        check(same_values(disk.transpose(2, 1, 0), want), "voxels on disk (x fastest): " + tag)
                        check(same_values(flat, want.ravel(order="F")), "flat order on disk: " + tag)
                        # spot checks by explicit offset
                        for _ in range(3):
                            x, y, z = (int(rng.integers(0, k)) for k in shape)
                            a, b = flat[x + nx * (y + ny * z)], want[x, y, z]
                            check(a == b or (a != a and b != b), "offset formula: " + tag)
                    else:
                        check((nx, ny, nz) == shape[::-1], f"header {(nx, ny, nz)} != reversed shape: " + tag)
                        check(same_values(flat, want.ravel(order="C")), "flat order on disk (no transpose): " + tag)

                    # read back (same transpose flag gives the array back; repeated calls give the same)
                    for rep in range(2):
                        back = cryomap.read(fn, transpose=transpose)
                        check(back.shape == shape, f"shape read back {back.shape}: " + tag)
                        check(back.dtype == edt, f"dtype read back {back.dtype}: " + tag)
                        check(same_values(back, want), "voxels read back: " + tag)
                        check(same_array(back, ORIG["read"](fn, transpose=transpose)), "read differs from original: " + tag)
                        COUNT["compare"] += 1
                    other = cryomap.read(fn, transpose=not transpose)
                    check(same_values(other, want.transpose(2, 1, 0)), "read with the other flag is the axis reversal: " + tag)
                    check(same_array(other, ORIG["read"](fn, transpose=not transpose)), "read(other flag) vs original: " + tag)
                    for rdt in (np.float32, np.float64, np.int16):
                        if rdt is np.int16 and (edt.kind == "f"):
                            continue
                        got = cryomap.read(fn, transpose=transpose, data_type=rdt)
                        check(got.dtype == np.dtype(rdt) and same_values(got, want.astype(rdt)), f"read data_type={rdt}: " + tag)
                        check(same_array(got, ORIG["read"](fn, transpose=transpose, data_type=rdt)), f"read data_type={rdt} vs original: " + tag)
                        COUNT["compare"] += 1
                    back[...] = 0  # the result is writeable and private
                    check(same_values(cryomap.read(fn, transpose=transpose), want), "second read after modifying the first: " + tag)
                    COUNT["property"] += 1

                    if PATH_OBJECTS:
                        fp = pathlib.Path(newname(ext, "pathobj"))
                        cryomap.write(src, fp, transpose=transpose, data_type=data_type)
                        check(file_bytes(fp) == file_bytes(fn), "bytes via path object: " + tag)
                        check(same_array(cryomap.read(fp, transpose=transpose), ORIG["read"](fn, transpose=transpose)), "read via path object: " + tag)
                        check(same_array(cryomap.read(fp, transpose=transpose, data_type=np.float64), ORIG["read"](fn, transpose=transpose, data_type=np.float64)), "read via path object, data_type: " + tag)
                        os.remove(fp)
                    os.remove(fn)
                    os.remove(fo)
            check(same_values(vol, keep), f"volume changed by the calls {shape} {dtype}")

    # =================================================================================================================
    # 2. foreign files (written by the independent builders) are read with x as first axis
    # =================================================================================================================
    for shape in SHAPES[:30]:
        for dtype in (np.float32, np.int16, np.int8):
            vol = make_volume(shape, dtype, 4)
            for ext, builder in ((".mrc", build_mrc), (".rec", build_mrc), (".em", build_em)):
                fn = newname(ext)
                builder(fn, vol)
                got = cryomap.read(fn)
                check(got.dtype == vol.dtype and same_values(got, vol), f"foreign {ext} {shape} {np.dtype(dtype).name}")
                check(same_array(got, ORIG["read"](fn)), f"foreign {ext} {shape}: differs from original read")
                COUNT["property"] += 1
                COUNT["compare"] += 1
                # numbered MRC names (vol.mrc.2) are MRC files for the reader
                if ext == ".mrc":
                    fn2 = fn + ".2"
                    shutil.copy(fn, fn2)
                    check(same_array(cryomap.read(fn2), ORIG["read"](fn2)) and same_values(cryomap.read(fn2), vol), "numbered mrc name")
                    os.remove(fn2)
                os.remove(fn)

    # =================================================================================================================
    # 3. conversions EM <-> MRC
    # =================================================================================================================
    conv_shapes = SHAPES[:10] + SHAPES[-12:]
    for si, shape in enumerate(conv_shapes):
        for dtype in (np.float32, np.int16, np.int8, np.float64):
            vol = make_volume(shape, dtype, (si % 4) + (1 if np.dtype(dtype).kind == "i" else 0))
            if np.dtype(dtype).kind == "f":
                vol = np.where(np.isfinite(vol), vol, 0).astype(dtype)
            stored = vol.astype(expected_dtype(dtype, None))
            for src_ext, dst_ext, conv, cut in ((".em", ".mrc", "em2mrc", 2), (".mrc", ".em", "mrc2em", 3)):
                for invert in (False, True):
                    for explicit in (False, True):
                        tag = f"{conv} {shape} {np.dtype(dtype).name} invert={invert} explicit={explicit}"
                        src = newname(src_ext)
                        (build_em if src_ext == ".em" else build_mrc)(src, stored)
                        src_bytes = open(src, "rb").read()
                        out = newname(dst_ext, "explicit") if explicit else src[:-cut] + dst_ext[1:]
                        kw = {"output_name": out} if explicit else {}
                        check(not os.path.exists(out), "output exists before: " + tag)
                        getattr(cryomap, conv)(src, invert=invert, **kw)
                        check(os.path.exists(out), "output not created: " + tag)
                        (nx, ny, nz), fdt, flat = parse(out)
                        want = (-stored if invert else stored)
                        check((nx, ny, nz) == shape, "header after conversion: " + tag)
                        check(fdt == stored.dtype, f"type after conversion {fdt}: " + tag)
                        check(same_values(flat.reshape(nz, ny, nx).transpose(2, 1, 0), want), "voxels after conversion: " + tag)
                        check(same_values(cryomap.read(out), want), "read after conversion: " + tag)
                        check(open(src, "rb").read() == src_bytes, "source touched: " + tag)
                        new_bytes = file_bytes(out)
                        # original on a copy of the source
                        src_o = newname(src_ext, "orig")
                        shutil.copy(src, src_o)
                        out_o = newname(dst_ext, "orig_explicit") if explicit else src_o[:-cut] + dst_ext[1:]
                        ORIG[conv](src_o, invert=invert, **({"output_name": out_o} if explicit else {}))
                        check(file_bytes(out_o) == new_bytes, "bytes differ from original conversion: " + tag)
                        COUNT["compare"] += 1

                        # refuse to overwrite: the existing file stays as it is, an exception is raised
                        marker = b"existing file, must survive"
                        open(out, "wb").write(marker)
                        r = outcome(getattr(cryomap, conv), src, invert=invert, overwrite=False, **kw)
                        check(r[0] == "exc", "overwrite=False did not refuse: " + tag)
                        check(open(out, "rb").read() == marker, "overwrite=False changed the file: " + tag)
                        open(out_o, "wb").write(marker)
                        ro = outcome(ORIG[conv], src_o, invert=invert, overwrite=False, **({"output_name": out_o} if explicit else {}))
                        check(r[:2] == ro[:2], f"refusal differs from original {r[:2]} vs {ro[:2]}: " + tag)
                        # overwrite=True replaces it, overwrite=False on a free name writes
                        getattr(cryomap, conv)(src, invert=invert, overwrite=True, **kw)
                        check(file_bytes(out) == new_bytes, "overwrite=True: " + tag)
                        os.remove(out)
                        getattr(cryomap, conv)(src, invert=invert, overwrite=False, **kw)
                        check(file_bytes(out) == new_bytes, "overwrite=False on a free name: " + tag)
                        COUNT["property"] += 1
                        for f in (src, out, src_o, out_o):
                            os.remove(f)

    # write(..., overwrite=False) itself
    for ext in EXTS:
        fn = newname(ext)
        vol = make_volume((3, 4, 5), np.float32, 4)
        cryomap.write(vol, fn, overwrite=False)
        first = file_bytes(fn)
        r = outcome(cryomap.write, vol * 2, fn, overwrite=False)
        ro = outcome(ORIG["write"], vol * 2, fn, overwrite=False)
        check(r[0] == "exc" and r[:2] == ro[:2], f"write overwrite=False {ext}: {r[:2]} vs {ro[:2]}")
        check(file_bytes(fn) == first, f"write overwrite=False changed {ext}")
        cryomap.write(vol * 2, fn)
        check(same_values(cryomap.read(fn), vol * 2), f"write overwrite default {ext}")

    # =================================================================================================================
    # 4. remaining routes of read / write / invert_contrast: patched against original
    # =================================================================================================================
    base = make_volume((6, 5, 4), np.float64, 4)
    arrays = [
        base, base.astype(np.float32), base.astype(np.int16), base.astype(np.int8),
        np.asfortranarray(base), base[::2], base[:, ::-1, 1:], base.transpose(1, 2, 0), base[0], base[0, 0],
        np.zeros((0, 3, 2)), np.array(3.5), np.broadcast_to(np.arange(4.0), (2, 3, 4)),
        np.ma.masked_less(base, 0), base.view(type("Sub", (np.ndarray,), {})), base > 0,
    ]
    ro_arr = base.copy()
    ro_arr.flags.writeable = False
    arrays.append(ro_arr)
    big = make_volume((7, 6, 5, 4), np.float32, 4)
    for _ in range(40):  # random views: permuted axes, steps of +-1 / +-2, a fixed index now and then
        view = big.transpose(rng.permutation(4))
        idx = tuple(int(rng.integers(0, n)) if rng.random() < 0.25 else slice(None, None, int(rng.choice([1, -1, 2, -2])))
                    for n in view.shape)
        view = view[idx]
        arrays.append(view if rng.random() < 0.7 else view.astype(rng.choice([np.int16, np.float64, np.int8])))
    for k, arr in enumerate(arrays):
        for data_type in (None, np.float32, np.float64, np.int16, np.float16, bool):
            for transpose in (True, False):
                snap = np.array(arr, copy=True)
                r = outcome(cryomap.read, arr, transpose=transpose, data_type=data_type)
                ro = outcome(ORIG["read"], arr, transpose=transpose, data_type=data_type)
                tag = f"read(array #{k}, transpose={transpose}, data_type={data_type})"
                check(r[0] == ro[0], tag + f" outcome {r[:2]} vs {ro[:2]}")
                if r[0] == "ok" and ro[0] == "ok":
                    check(same_array(r[1], ro[1]), tag + " differs from original")
                    check(not np.shares_memory(r[1], arr), tag + " shares memory with its input")
                    check(r[1].flags.writeable, tag + " not writeable")
                    if r[1].size:
                        r[1][...] = 1
                    check(same_values(np.asarray(arr), snap), tag + " input changed through the result")
                else:
                    check(r == ro, tag + f" {r} vs {ro}")
                COUNT["compare"] += 1
    for bad in (1234, None, 3.5, ["a.mrc"], b"x.mrc", "x.txt", "x.mrc.gz", "x.em.1", os.path.join(tmp, "missing.mrc"),
                os.path.join(tmp, "missing.em"), os.path.join(tmp, "missing.rec.3")):
        r, ro = outcome(cryomap.read, bad), outcome(ORIG["read"], bad)
        check(r == ro, f"read({bad!r}): {r} vs {ro}")
        COUNT["compare"] += 1
    vol = make_volume((4, 3, 2), np.float32, 4)
    for bad in ("x.txt", "x.mrc.1", "x.st", 5, None, os.path.join(tmp, "nodir", "x.mrc")):
        r, ro = outcome(cryomap.write, vol, bad), outcome(ORIG["write"], vol, bad)
        check(r == ro, f"write(vol, {bad!r}): {r} vs {ro}")
        COUNT["compare"] += 1
    # 2-D and 4-D data through write (no axis reversal there), float16 and unsigned data
    for arr in (make_volume((5, 7), np.float32, 4), make_volume((2, 3, 4, 5), np.float32, 4).astype(np.int16),
                vol.astype(np.float16), np.abs(vol).astype(np.uint16), np.abs(vol).astype(np.uint8), vol.astype(np.int32),
                vol.astype(np.complex64)):
        for ext in EXTS:
            for data_type in (None, np.float32):
                f1, f2 = newname(ext), newname(ext, "orig")
                r = outcome(cryomap.write, arr, f1, data_type=data_type)
                ro = outcome(ORIG["write"], arr, f2, data_type=data_type)
                check(r[:2] == ro[:2], f"write {arr.dtype}{arr.shape} {ext}: {r[:2]} vs {ro[:2]}")
                check(os.path.exists(f1) == os.path.exists(f2), f"write {arr.dtype}{arr.shape} {ext}: file existence")
                if os.path.exists(f1) and os.path.exists(f2):
                    check(file_bytes(f1) == file_bytes(f2), f"write {arr.dtype}{arr.shape} {ext}: bytes")
                    r, ro = outcome(cryomap.read, f1), outcome(ORIG["read"], f1)
                    check(r[0] == ro[0] and (r[0] == "exc" or same_array(r[1], ro[1])) and (r[0] == "ok" or r == ro),
                          f"read back {arr.dtype}{arr.shape} {ext}")
                COUNT["compare"] += 1
    # invert_contrast on files and arrays
    for dtype in DTYPES:
        for shape in ((3, 4, 5), (1, 1, 2), (9, 2, 4)):
            vol = make_volume(shape, dtype, 0)
            if np.dtype(dtype).kind == "f":
                vol = np.where(np.isfinite(vol), vol, 0).astype(dtype)
            for ext in EXTS:
                src = newname(ext)
                cryomap.write(vol, src)
                o1, o2 = newname(ext), newname(ext, "orig")
                for inp in (src, vol):
                    a = cryomap.invert_contrast(inp, output_name=o1)
                    b = ORIG["invert_contrast"](inp, output_name=o2)
                    check(same_array(a, b), f"invert_contrast {shape} {np.dtype(dtype).name} {ext}")
                    check(file_bytes(o1) == file_bytes(o2), f"invert_contrast file {shape} {np.dtype(dtype).name} {ext}")
                    stored = vol.astype(expected_dtype(dtype, None))
                    check(same_values(cryomap.read(o1), -stored), f"invert_contrast voxels {shape} {np.dtype(dtype).name} {ext}")
                    COUNT["compare"] += 1
    # conversion argument checks
    for conv in ("em2mrc", "mrc2em"):
        for args, kw in (((5,), {}), (("a.txt",), {}), ((pathlib.Path("a.em"),), {}), ((pathlib.Path("a.mrc"),), {}),
                         (("a.em",), {"output_name": "b.txt"}), (("a.mrc",), {"output_name": "b.txt"}),
                         ((os.path.join(tmp, "missing.em"),), {}), ((os.path.join(tmp, "missing.mrc"),), {})):
            r, ro = outcome(getattr(cryomap, conv), *args, **kw), outcome(ORIG[conv], *args, **kw)
            check(r == ro, f"{conv}{args}{kw}: {r} vs {ro}")
            COUNT["compare"] += 1

    # =================================================================================================================
    # 5. the arrays returned by read stay valid when everything else is gone (file deleted, garbage collected)
    # =================================================================================================================
    held = []
    for ext in EXTS:
        for shape in ((7, 5, 3), (1, 9, 2), (48, 2, 1)):
            vol = make_volume(shape, np.float32, 4)
            fn = newname(ext)
            cryomap.write(vol, fn)
            held.append((cryomap.read(fn), cryomap.read(fn, transpose=False), cryomap.read(fn, data_type=np.float64), vol))
            os.remove(fn)
    gc.collect()
    junk = [np.full((64, 64, 64), 7.0, np.float32) for _ in range(8)]  # reuse freed memory, if any was freed
    for a, b, c, vol in held:
        check(same_values(a, vol) and same_values(b, vol.transpose(2, 1, 0)) and same_values(c, vol.astype(np.float64)),
              "array returned by read no longer valid after gc")
        COUNT["property"] += 1
    del junk

    # path objects: new input kind (only on a tree that has it); strings that are also PathLike stay strings
    if PATH_OBJECTS:
        class P:  # a foreign os.PathLike
            def __init__(self, p):
                self.p = p

            def __fspath__(self):
                return self.p

        vol = make_volume((4, 6, 3), np.int16, 4)
        for ext in EXTS:
            s = newname(ext)
            for obj in (pathlib.Path(s), pathlib.PurePath(s), P(s), P(os.fsencode(s))):
                cryomap.write(vol, obj)
                ORIG["write"](vol, s + ".ref" + ext)
                check(file_bytes(s) == file_bytes(s + ".ref" + ext), f"path object {type(obj).__name__} {ext}: bytes")
                check(same_array(cryomap.read(obj), ORIG["read"](s)), f"path object {type(obj).__name__} {ext}: read")
                check(same_array(cryomap.read(obj, False, np.float32), ORIG["read"](s, False, np.float32)), f"path object positional options {ext}")
                os.remove(s)
                COUNT["compare"] += 1
        for bad in (pathlib.Path("x.txt"), pathlib.Path(tmp) / "missing.mrc"):
            r, ro = outcome(cryomap.read, bad), outcome(ORIG["read"], str(bad))
            check(r == ro, f"read({bad!r}) vs original read(str): {r} vs {ro}")
        r, ro = outcome(cryomap.write, vol, pathlib.Path("x.txt")), outcome(ORIG["write"], vol, "x.txt")
        check(r == ro, f"write(path x.txt): {r} vs {ro}")
finally:
    shutil.rmtree(tmp, ignore_errors=True)

print(f"property cases: {COUNT['property']}, comparisons with the original functions: {COUNT['compare']}, "
      f"path objects accepted by this tree: {PATH_OBJECTS}")
if FAILS:
    print(f"FAIL ({len(FAILS)} checks)")
    sys.exit(1)
print("PASS")
