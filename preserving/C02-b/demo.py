import sys, os

sys.path.insert(0, os.getcwd())

import re
import random
import tempfile
import shutil
import numpy as np
import pandas as pd

import cryocat.starfileio as sfio
from cryocat.starfileio import Starfile, Token, TokenType

assert os.path.abspath(sfio.__file__).startswith(os.getcwd()), sfio.__file__

FAILURES = []


def check(cond, msg):
    if not cond:
        FAILURES.append(msg)
        if len(FAILURES) < 20:
            print("FAIL:", msg)


# --------------------------------------------------------------------------------------------------------------------
# independent tokenizer of STAR text (regex / line based, shares nothing with cryocat.starfileio)
# --------------------------------------------------------------------------------------------------------------------
INT_RE = re.compile(r"^[+-]?\d+$")


def independent_parse(text):
    """returns list of (block_name, labels, rows) ; rows = list of list of str tokens"""
    blocks = []
    state = "between"  # between -> named -> labels -> rows
    for raw in text.replace("\r\n", "\n").replace("\r", "\n").split("\n"):
        code = raw.split("#", 1)[0]
        words = re.findall(r"[^ \t\r\n\f\v]+", code)
        if not words:
            continue
        if state in ("between", "rows", "labels") and len(words) == 1 and words[0].startswith("data_"):
            blocks.append([words[0], [], []])
            state = "named"
            continue
        if state == "named":
            assert words == ["loop_"], words
            state = "labels"
            continue
        if state == "labels" and words[0].startswith("_"):
            assert len(words) == 1, words
            blocks[-1][1].append(words[0][1:])
            continue
        if state in ("labels", "rows"):
            assert len(words) == len(blocks[-1][1]), (words, blocks[-1][1])
            blocks[-1][2].append(words)
            state = "rows"
            continue
        raise AssertionError(("unexpected line", raw, state))
    return [(b[0], b[1], b[2]) for b in blocks]


def column_kind(tokens):
    """independent decision of the type of a column given its tokens (generator only produces these classes)"""
    if len(tokens) == 0:
        return "empty"
    if all(INT_RE.match(t) for t in tokens):
        return "int"
    try:
        [float(t) for t in tokens]
        return "float"
    except ValueError:
        return "text"


def compare_read_with_tokens(frames, specifiers, blocks, tag):
    check(list(specifiers) == [b[0] for b in blocks], f"{tag}: specifiers {specifiers} vs {[b[0] for b in blocks]}")
    check(len(frames) == len(blocks), f"{tag}: number of frames")
    for k, (frame, (name, labels, rows)) in enumerate(zip(frames, blocks)):
        check(list(frame.columns) == labels, f"{tag}: block {k} labels {list(frame.columns)[:5]} vs {labels[:5]}")
        check(frame.shape == (len(rows), len(labels)), f"{tag}: block {k} shape {frame.shape} vs {(len(rows), len(labels))}")
        check(list(frame.index) == list(range(len(rows))), f"{tag}: block {k} index")
        if frame.shape != (len(rows), len(labels)):
            continue
        for j, label in enumerate(labels):
            toks = [r[j] for r in rows]
            kind = column_kind(toks)
            col = frame.iloc[:, j]
            if kind == "int":
                check(col.dtype.kind in "iu", f"{tag}: block {k} col {label} expected integer dtype, got {col.dtype}")
                check([int(v) for v in col] == [int(t) for t in toks], f"{tag}: block {k} col {label} int values")
            elif kind == "float":
                check(col.dtype.kind == "f", f"{tag}: block {k} col {label} expected float dtype, got {col.dtype}")
                check(
                    # pandas' own float parser drops digits beyond the 17th, so it may differ from float() by a few 1e-14 relative
                    np.allclose(col.to_numpy(dtype=float), np.array([float(t) for t in toks]), rtol=1e-11, atol=1e-15),
                    f"{tag}: block {k} col {label} float values",
                )
            elif kind == "text":
                check(col.dtype.kind not in "iuf", f"{tag}: block {k} col {label} expected text, got {col.dtype}")
                check(list(col) == toks, f"{tag}: block {k} col {label} text values")
                check(all(type(v) is str for v in col), f"{tag}: block {k} col {label} text types")


# --------------------------------------------------------------------------------------------------------------------
# generators
# --------------------------------------------------------------------------------------------------------------------
WORD_CHARS = "abcdefghijklmnopqrstuvwxyzABCDEFGHIJKLMNOPQRSTUVWXYZ0123456789_./-+:@,;[](){}=*%$!~^&|<>?'\"\\"


def random_word(rng, maxlen=12):
    while True:
        n = rng.randint(1, maxlen)
        w = "".join(rng.choice(WORD_CHARS) for _ in range(n))
        if w[0] == "_" or w == "loop_":
            continue
        return w


def clearly_text(rng):
    # a token that no numeric parser accepts
    return rng.choice(["tomo", "x", "a/b.mrc", "TS_", "img", "q"]) + random_word(rng, 6) + rng.choice(["z", ".mrc", "_k", "Q"])


def random_label(rng, used):
    while True:
        n = rng.randint(1, 14)
        w = "".join(rng.choice("abcdefghijklmnopqrstuvwxyzABCDEFGHIJKLMNOPQRSTUVWXYZ0123456789_") for _ in range(n))
        if w not in used:
            used.add(w)
            return w


def random_table(rng, nrows, ncols):
    used = set()
    data = {}
    for _ in range(ncols):
        label = random_label(rng, used)
        if rng.random() < 0.35:
            label = rng.choice(["rln", "", "sg_", "rlnCoordinate"]) + label
            if label in used:
                label = label + "Q%d" % len(used)
            used.add(label)
        kind = rng.choice(["int", "int", "float", "float", "float", "text", "text", "intfloat", "smallfloat", "bigint", "f32", "ties"])
        if kind == "int":
            col = np.array([rng.randint(-1000, 1000) for _ in range(nrows)], dtype=rng.choice([np.int64, np.int32, np.int16]))
        elif kind == "bigint":
            col = np.array([rng.randint(-(2**62), 2**62) for _ in range(nrows)], dtype=np.int64)
        elif kind == "float":
            scale = rng.choice([1.0, 1e-3, 1e3, 1e8, 360.0])
            col = np.array([rng.uniform(-1, 1) * scale for _ in range(nrows)], dtype=np.float64)
        elif kind == "smallfloat":
            col = np.array([rng.choice([1e-7, -4e-7, 5e-7, 4.9999999e-6, 1.5e-6, -2.5e-6, 0.0, -0.0, 1e-12, 123456.7890125]) for _ in range(nrows)])
        elif kind == "intfloat":
            col = np.array([float(rng.randint(-50, 50)) for _ in range(nrows)])
        elif kind == "f32":
            col = np.array([rng.uniform(-100, 100) for _ in range(nrows)], dtype=np.float32)
        elif kind == "ties":
            v = rng.choice([0.5, -3, 2.25, 7])
            col = np.array([v] * nrows)
        else:
            vals = [random_word(rng) for _ in range(nrows)]
            # the column must not be purely numeric: force one clearly textual token
            if nrows:
                vals[rng.randrange(nrows)] = clearly_text(rng)
            if rng.random() < 0.3 and nrows:
                vals = [vals[0]] * nrows  # ties
                vals[0] = clearly_text(rng)
            if rng.random() < 0.5:
                col = np.array(vals, dtype=object)
            else:
                col = pd.array(vals, dtype="str") if nrows else np.array(vals, dtype=object)
        data[label] = col
    frame = pd.DataFrame(data)
    # non-default index
    mode = rng.choice(["default", "shuffled", "offset", "strings", "duplicates"])
    if nrows:
        if mode == "shuffled":
            idx = list(range(nrows))
            rng.shuffle(idx)
            frame.index = idx
        elif mode == "offset":
            frame.index = range(1000, 1000 + 3 * nrows, 3)
        elif mode == "strings":
            frame.index = ["r%d" % i for i in range(nrows)]
        elif mode == "duplicates":
            frame.index = [7] * nrows
    return frame


SPECIFIERS = ["data_", "data_particles", "data_optics", "data_stopgap_motivelist", "data_stopgap_wedgelist", "data_stopgap_x"]


def random_tables(rng):
    n = rng.randint(1, 4)
    frames, specs = [], []
    for k in range(n):
        last = k == n - 1
        nrows = rng.choice([1, 1, 2, 3, 5, 17, 50, 200, rng.randint(1, 200)])
        if last and rng.random() < 0.15:
            nrows = 0
        ncols = rng.choice([1, 1, 2, 3, 5, 12, 30, rng.randint(1, 30)])
        frames.append(random_table(rng, nrows, ncols))
        specs.append(rng.choice(SPECIFIERS))
    return frames, specs


def check_roundtrip(frames, specs, number_columns, path, tag, writer=None, reader=None):
    writer = writer or Starfile.write
    reader = reader or Starfile.read
    originals = [f.copy(deep=True) for f in frames]
    to_write = list(frames)
    kwargs = {}
    if number_columns is not None:
        kwargs["number_columns"] = number_columns
    writer(to_write, path, specifiers=list(specs), **kwargs)
    with open(path, newline="") as fh:
        text = fh.read()
    blocks = independent_parse(text)
    numbered = (number_columns is None) or bool(number_columns)

    # 1. text of the written file against the tables
    check([b[0] for b in blocks] == list(specs), f"{tag}: block names in file")
    for k, (orig, spec) in enumerate(zip(originals, specs)):
        if k >= len(blocks):
            break
        name, labels, rows = blocks[k]
        check(labels == [str(c) for c in orig.columns], f"{tag}: file labels block {k}")
        check(len(rows) == len(orig), f"{tag}: file rows block {k}: {len(rows)} vs {len(orig)}")
    # header numbering style checked on raw lines
    label_lines = [ln for ln in text.split("\n") if ln.startswith("_")]
    li = 0
    for k, (orig, spec) in enumerate(zip(originals, specs)):
        for j, c in enumerate(orig.columns, 1):
            if li >= len(label_lines):
                check(False, f"{tag}: missing label line")
                break
            want = f"_{c} #{j}" if (numbered and "stopgap" not in spec) else f"_{c}"
            check(label_lines[li] == want, f"{tag}: label line {label_lines[li]!r} vs {want!r}")
            li += 1
    check(li == len(label_lines), f"{tag}: label line count")

    # 2. read back against the tables
    frames_r, specs_r, comments_r = reader(path)
    check(list(specs_r) == list(specs), f"{tag}: specifiers read {specs_r} vs {specs}")
    check(len(frames_r) == len(originals), f"{tag}: number of frames read")
    for k, (orig, got) in enumerate(zip(originals, frames_r)):
        check(list(got.columns) == [str(c) for c in orig.columns], f"{tag}: read labels block {k}")
        check(len(got) == len(orig), f"{tag}: read rows block {k}")
        if len(got) != len(orig) or got.shape[1] != orig.shape[1]:
            continue
        if len(orig) == 0:
            continue
        for j in range(orig.shape[1]):
            oc = orig.iloc[:, j]
            gc = got.iloc[:, j]
            if oc.dtype.kind in "iu":
                check(gc.dtype.kind in "iu", f"{tag}: block {k} col {j} int dtype read as {gc.dtype}")
                check([int(v) for v in gc] == [int(v) for v in oc], f"{tag}: block {k} col {j} int values")
            elif oc.dtype.kind == "f":
                want = np.round(oc.to_numpy(dtype=np.float64), 6)
                have = gc.to_numpy(dtype=np.float64)
                check(gc.dtype.kind in "iuf", f"{tag}: block {k} col {j} float dtype read as {gc.dtype}")
                check(
                    np.allclose(np.round(have, 6), want, rtol=0, atol=(2e-6 + 1e-6 * float(np.max(np.abs(want)))) if oc.dtype == np.float32 else 1e-9 * max(1.0, float(np.max(np.abs(want))))),
                    f"{tag}: block {k} col {j} float values",
                )
            else:
                check(list(gc) == [str(v) for v in oc], f"{tag}: block {k} col {j} text values")
    # 3. read back against the independent tokens
    compare_read_with_tokens(frames_r, specs_r, blocks, tag + " (tokens)")
    return text, to_write, (frames_r, specs_r, comments_r)


# hand built STAR texts -------------------------------------------------------------------------------------------
def random_noise_lines(rng, allow=True):
    out = []
    if not allow:
        return out
    for _ in range(rng.choice([0, 0, 1, 2, 3])):
        r = rng.random()
        if r < 0.4:
            out.append("")
        elif r < 0.6:
            out.append(rng.choice([" ", "\t", "  \t  "]))
        else:
            out.append(rng.choice(["", " ", "\t"]) + "#" + rng.choice(["", " ", "  "]) + rng.choice(["comment", "version 30001", "a b  c", "_rlnFake #3", "data_fake", "loop_", "# double", ""]) + rng.choice(["", " ", "\t "]))
    return out


def random_numeric_token(rng, kind):
    if kind == "int":
        return rng.choice(["", "-", ""]) + str(rng.randint(0, 10**rng.randint(1, 9)))
    r = rng.random()
    if r < 0.5:
        return "%.*f" % (rng.randint(1, 8), rng.uniform(-500, 500))
    if r < 0.7:
        return "%.*e" % (rng.randint(0, 6), rng.uniform(-5, 5) * 10 ** rng.randint(-8, 8))
    if r < 0.85:
        return str(rng.randint(-100, 100))
    return rng.choice(["0.0", "-0.0", "1.", ".5", "-.25", "1E3", "+7", "+2.5"])


def random_star_text(rng):
    nblocks = rng.randint(1, 4)
    lines = []
    for k in range(nblocks):
        last = k == nblocks - 1
        noise = random_noise_lines(rng)
        if k > 0 and not noise:
            # blocks are separated by at least one blank or comment line
            noise = [rng.choice(["", " ", "# next block", "\t"])]
        lines += noise
        pad = lambda: rng.choice(["", "", " ", "\t", "   ", " \t "])
        lines.append(pad() + rng.choice(SPECIFIERS) + pad())
        lines += random_noise_lines(rng)
        lines.append(pad() + "loop_" + pad())
        ncols = rng.choice([1, 2, 3, 6, 30, rng.randint(1, 30)])
        used = set()
        numbered = rng.random() < 0.5
        kinds = []
        for j in range(ncols):
            label = random_label(rng, used)
            ln = pad() + "_" + label
            if numbered or rng.random() < 0.1:
                ln += rng.choice([" ", "\t", "  ", ""]) + "#" + rng.choice(["", " "]) + str(j + 1) + pad()
            else:
                ln += pad()
            lines.append(ln)
            kinds.append(rng.choice(["int", "float", "text", "mixedtext"]))
        lines += random_noise_lines(rng)
        nrows = rng.choice([1, 2, 5, 40, rng.randint(1, 200)])
        if last and rng.random() < 0.2:
            nrows = 0
        text_row = rng.randrange(nrows) if nrows else 0
        for i in range(nrows):
            toks = []
            for kind in kinds:
                if kind in ("int", "float"):
                    toks.append(random_numeric_token(rng, kind))
                elif kind == "text":
                    toks.append(clearly_text(rng))
                else:
                    toks.append(clearly_text(rng) if i == text_row else rng.choice([random_word(rng), random_numeric_token(rng, "float")]))
            sep = lambda: rng.choice([" ", "\t", "  ", "\t\t", " \t ", "          "])
            lines.append(pad() + "".join(t + sep() for t in toks[:-1]) + toks[-1] + pad())
        if last:
            lines += random_noise_lines(rng)
    eol = rng.choice(["\n", "\r\n"])
    text = eol.join(lines)
    # (a label line of an empty last block is never the very last line without a line end: the unmodified reader
    #  needs at least a line end after the last label)
    if rng.random() < 0.6 or lines[-1].lstrip().startswith("_"):
        text += eol
    return text


def check_hand_built(text, path, tag, reader=None):
    reader = reader or Starfile.read
    with open(path, "w", newline="") as fh:
        fh.write(text)
    blocks = independent_parse(text)
    frames_r, specs_r, comments_r = reader(path)
    compare_read_with_tokens(frames_r, specs_r, blocks, tag)
    return frames_r, specs_r, comments_r


def frames_identical(a, b):
    """strict comparison of two frames, including dtypes, index, column index"""
    try:
        pd.testing.assert_frame_equal(a, b, check_exact=True, check_dtype=True, check_index_type=True, check_column_type=True)
    except AssertionError as e:
        return str(e)
    if list(a.dtypes.astype(str)) != list(b.dtypes.astype(str)):
        return "dtypes differ"
    return None


FIXED_TEXTS = [
    "data_\n\nloop_\n_a #1\n_b #2\n1 2\n3 4\n",
    "data_\nloop_\n_a\n1",
    "\n\n# c\ndata_optics\n\nloop_\n_rlnX #1 \n_rlnY #2\n\n 1.5\tabc \n 2.5\tdef\n\n\n# version\n\ndata_particles\n\nloop_\n_rlnZ #1\n7\n8\n9\n\n",
    "data_stopgap_motivelist\r\n\r\nloop_\r\n_motl_idx\r\n_x\r\n\r\n1   2.0\r\n2   3.0\r\n",
    "data_particles\nloop_\n_a #1\n_b #2\n_c #3\n",  # empty last block
    "data_a\nloop_\n_x\n1\n\ndata_b\nloop_\n_y\n_z\n",  # empty last block after a full one
    "#only\n\ndata_\n#between name and loop\nloop_\n_a#1\n_b#2\n#after labels\n\n-1\t\t+2\n1e3   -.5   \n",
    "data_\nloop_\n_t\n_u\nnan_x 1\ninf. 2\n",
    "data_\nloop_\n_t\n007\n-08\n",
]


# =====================================================================================================================
# change (b): Starfile.read split into helpers; DataFrame.apply replaced by an explicit loop over column positions
# =====================================================================================================================
def original_read(file_path, data_id=None):
    """verbatim copy of Starfile.read of the unmodified tree"""
    with open(file_path, mode="r") as file:
        raw_starfile = file.read()

    tokens = Token.tokenize(raw_starfile)
    frames = []
    comments = []
    specifiers = []
    while Token.lookahead(tokens, TokenType.LITERAL, [TokenType.NEWLINE, TokenType.COMMENT]):
        specifier_comments, specifier = Token.parse_specifier(tokens)
        column_comments, columns = Token.parse_columns(tokens)
        rows_comments, data = Token.parse_rows(tokens, columns)
        comments.append(specifier_comments + column_comments + rows_comments)
        specifiers.append(specifier)
        frames.append(data)
    Token.parse_newline_or_comments(tokens)
    if len(tokens) > 0:
        raise IOError(f"Expected a specifier or an end of token but got {tokens[0].token_type}")

    def to_numeric_if_possible(column):
        try:
            return pd.to_numeric(column)
        except (ValueError, TypeError):
            return column

    for i, f in enumerate(frames):
        frames[i] = f.apply(to_numeric_if_possible)

    if data_id is not None:
        return frames[data_id], specifiers[data_id], comments[data_id]
    else:
        return frames, specifiers, comments


def compare_readers(path, tag, rng):
    got = Starfile.read(path)
    want = original_read(path)
    check(type(got) is type(want) and len(got) == 3, f"{tag}: result type")
    check(got[1] == want[1], f"{tag}: specifiers differ from original read")
    check(got[2] == want[2], f"{tag}: comments differ from original read")
    check(len(got[0]) == len(want[0]), f"{tag}: number of frames differs from original read")
    for k, (a, b) in enumerate(zip(got[0], want[0])):
        why = frames_identical(a, b)
        check(why is None, f"{tag}: frame {k} differs from original read: {why}")
        check(type(a.index) is type(b.index) and a.index.equals(b.index), f"{tag}: frame {k} index")
        check(a.columns.equals(b.columns) and a.columns.dtype == b.columns.dtype, f"{tag}: frame {k} columns")
    # data_id option
    n = len(want[0])
    for data_id in {0, n - 1, -1, rng.randrange(n), -n}:
        a = Starfile.read(path, data_id=data_id)
        b = original_read(path, data_id=data_id)
        check(a[1] == b[1] and a[2] == b[2] and frames_identical(a[0], b[0]) is None, f"{tag}: data_id={data_id}")
    # the frames returned are independent objects: changing one result does not change the next read
    if n and len(got[0][0]):
        got[0][0].iloc[0, 0] = got[0][0].iloc[0, 0]
        again = Starfile.read(path)
        check(frames_identical(again[0][0], want[0][0]) is None, f"{tag}: repeated read")


def main():
    rng = random.Random(20260929)
    tmp = tempfile.mkdtemp(prefix="c02b_")
    try:
        path = os.path.join(tmp, "t.star")

        # 1. round trips of random tables
        for it in range(140):
            frames, specs = random_tables(rng)
            nc = rng.choice([True, False, None])
            check_roundtrip(frames, specs, nc, path, f"roundtrip {it}")
            compare_readers(path, f"roundtrip {it}", rng)

        # 2. hand-built texts
        for it, text in enumerate(FIXED_TEXTS):
            check_hand_built(text, path, f"fixed {it}")
            compare_readers(path, f"fixed {it}", rng)
        for it in range(160):
            text = random_star_text(rng)
            check_hand_built(text, path, f"handbuilt {it}")
            compare_readers(path, f"handbuilt {it}", rng)

        # 3. texts at / beyond the edge of the quantifier: repeated labels, huge integers, special float words,
        #    columns of mixed numeric-looking and other tokens, a single column, a single row
        extra = [
            "data_\nloop_\n_a #1\n_a #2\n_b #3\n1 x 2.5\n2 y 3\n",
            "data_\nloop_\n_a\n_b\n99999999999999999999 18446744073709551615\n1 2\n",
            "data_\nloop_\n_a\n_b\n_c\nnan inf -inf\n1 2 3\n",
            "data_\nloop_\n_a\n_b\nNaN 1e400\nNA -1e400\n",
            "data_\nloop_\n_a\n_b\n1 0x10\n2 1_000\n",
            "data_\nloop_\n_a\n_b\nTrue 1\nFalse 2\n",
            "data_\nloop_\n_a\n1\n",
            "data_\nloop_\n_a\nx\n",
            "data_one\nloop_\n_a\n_b\n1 2\n\ndata_two\nloop_\n_a\n_b\n",
            "# nothing but a comment\n",
            "",
        ]
        for it, text in enumerate(extra):
            with open(path, "w", newline="") as fh:
                fh.write(text)
            try:
                want = original_read(path)
            except Exception as e:  # outside the quantifier: the same exception type is expected
                try:
                    Starfile.read(path)
                    check(False, f"extra {it}: original raised {type(e).__name__}, patched did not")
                except Exception as e2:
                    check(type(e2) is type(e), f"extra {it}: exception types {type(e)} / {type(e2)}")
                continue
            got = Starfile.read(path)
            check(got[1] == want[1] and got[2] == want[2] and len(got[0]) == len(want[0]), f"extra {it}: lists")
            for k, (a, b) in enumerate(zip(got[0], want[0])):
                why = frames_identical(a, b)
                check(why is None, f"extra {it}: frame {k}: {why}")
    finally:
        shutil.rmtree(tmp, ignore_errors=True)

    if FAILURES:
        print(f"FAILED: {len(FAILURES)} checks")
        sys.exit(1)
    print("PASS")


if __name__ == "__main__":
    main()
