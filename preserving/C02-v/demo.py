"""C02 / change a -- Token.tokenize: a finished word is classified in one place (sentinel blank at the end of the line, word slice taken once).

Checks (clean tree and patched tree alike):
 1. round trip: Starfile.write -> independent tokenizer of the text -> Starfile.read gives the same blocks, labels, rows, values;
 2. hand-built STAR texts with comments / blank lines / tabs / CRLF are read into what an independent tokenizer finds;
 3. Token.tokenize of the tree returns exactly the tokens (type, value, location) of the ORIGINAL tokenize kept below;
 4. the caller's tables / lists are left untouched, repeated calls give the same result.
"""
import os
import sys

sys.path.insert(0, os.getcwd())

import copy
import random
import re
import tempfile

import numpy as np
import pandas as pd

from cryocat import starfileio
from cryocat.starfileio import Starfile, Token, TokenType

FAIL = []


def check(cond, msg):
    if not cond:
        FAIL.append(msg)
        if len(FAIL) < 15:
            print("FAIL:", msg)


# ------------------------------------------------------------------------------------------------ original function text
def original_tokenize(text):
    tokens = list()

    # Split the text into several lines
    lines = text.split("\n")
    for line_number, line in enumerate(lines):
        # The first index of a non-space-or-hash sequence of characters. None means there is no sequence found
        first = None
        for index, char in enumerate(line):
            if not char.isspace() and char != "#":
                # Set the first index of the sequence if it is None
                if first is None:
                    first = index
                continue
            elif first is not None:
                if line[first] == "_":
                    tokens.append(Token(TokenType.PROPERTY, line[first:index], (line_number, first)))
                elif line[first:index] == "loop_":
                    tokens.append(Token(TokenType.LOOP, line[first:index], (line_number, first)))
                else:
                    tokens.append(Token(TokenType.LITERAL, line[first:index], (line_number, first)))

                # Set that there is no sequence found
                first = None
            if char == "#":
                # Anything after the # character is a comment

                tokens.append(Token(TokenType.COMMENT, line[index + 1 :].strip(), (line_number, index)))
                break
            elif not char.isspace():
                raise IOError(f"Got unexpected {char} at (Line {line_number}, Column {index}).")
        if first is not None:
            # Classifies the sequence if there is an end of line

            if line[first] == "_":
                tokens.append(Token(TokenType.PROPERTY, line[first:], (line_number, first)))
            elif line[first:] == "loop_":
                tokens.append(Token(TokenType.LOOP, line[first:], (line_number, first)))
            else:
                tokens.append(Token(TokenType.LITERAL, line[first:], (line_number, first)))

        # Add a NEWLINE token
        tokens.append(Token(TokenType.NEWLINE, None, (line_number, 0)))

    return tokens[::-1]


def tok_key(tokens):
    return [(t.token_type, t.value, t.location) for t in tokens]


# ------------------------------------------------------------------------------------------------ independent tokenizer
def independent_parse(text):
    """blocks = [(specifier, [labels], [[row tokens]])] found without any cryocat code."""
    words = []  # (word, line number)
    for ln, raw in enumerate(re.split(r"\n", text)):
        body = raw.split("#", 1)[0]
        for w in body.split():
            words.append((w, ln))
    blocks = []
    i = 0
    while i < len(words):
        spec = words[i][0]
        assert spec.startswith("data_"), spec
        i += 1
        assert words[i][0] == "loop_"
        i += 1
        labels = []
        while i < len(words) and words[i][0].startswith("_"):
            labels.append(words[i][0][1:])
            i += 1
        rows = {}
        order = []
        while i < len(words) and not words[i][0].startswith("data_"):
            ln = words[i][1]
            if ln not in rows:
                rows[ln] = []
                order.append(ln)
            rows[ln].append(words[i][0])
            i += 1
        blocks.append((spec, labels, [rows[k] for k in order]))
    return blocks


def is_number(tok):
    try:
        float(tok)
        return True
    except ValueError:
        return False


def compare_read_with_blocks(frames, specifiers, blocks, tag):
    check(list(specifiers) == [b[0] for b in blocks], f"{tag}: specifiers {specifiers} != {[b[0] for b in blocks]}")
    check(len(frames) == len(blocks), f"{tag}: number of frames")
    for f, (spec, labels, rows) in zip(frames, blocks):
        check(list(f.columns) == labels, f"{tag}/{spec}: labels {list(f.columns)} != {labels}")
        check(len(f) == len(rows), f"{tag}/{spec}: {len(f)} rows != {len(rows)}")
        if len(f) != len(rows) or list(f.columns) != labels:
            continue
        check(list(f.index) == list(range(len(rows))), f"{tag}/{spec}: index")
        for j, lab in enumerate(labels):
            toks = [r[j] for r in rows]
            col = f.iloc[:, j]
            if len(toks) and all(is_number(t) for t in toks):
                check(pd.api.types.is_numeric_dtype(col.dtype), f"{tag}/{spec}/{lab}: numeric column read as {col.dtype}")
                exp = np.array([float(t) for t in toks])
                check(np.allclose(col.to_numpy(dtype=float), exp, rtol=1e-12, atol=1e-12), f"{tag}/{spec}/{lab}: numbers differ")
                if all(re.fullmatch(r"[+-]?\d+", t) for t in toks):
                    check(pd.api.types.is_integer_dtype(col.dtype), f"{tag}/{spec}/{lab}: integer column read as {col.dtype}")
            elif len(toks):
                check(not pd.api.types.is_numeric_dtype(col.dtype), f"{tag}/{spec}/{lab}: text column read as {col.dtype}")
                check([str(v) for v in col.tolist()] == toks, f"{tag}/{spec}/{lab}: text differs")


# ------------------------------------------------------------------------------------------------ generators
ALPHA = "abcdefghijklmnopqrstuvwxyzABCDEFGHIJKLMNOPQRSTUVWXYZ"
REST = ALPHA + "0123456789_-./:@+=[]()"
FORBIDDEN = {"nan", "inf", "infinity", "na", "none", "null", "true", "false", "loop_"}


def text_token(rng):
    while True:
        t = rng.choice(ALPHA) + "".join(rng.choice(REST) for _ in range(rng.randint(0, 12)))
        if t.lower() not in FORBIDDEN and not t.startswith("data_"):
            return t


def random_table(rng, nrows, ncols):
    data = {}
    names = set()
    for c in range(ncols):
        while True:
            name = rng.choice(["rln", "", "x_", "col"]) + rng.choice(ALPHA) + "".join(
                rng.choice(ALPHA + "0123456789_") for _ in range(rng.randint(0, 10))
            )
            if name not in names:
                names.add(name)
                break
        kind = rng.choice(["int", "float", "text", "floatint", "small"])
        if kind == "int":
            col = np.array([rng.randint(-10**6, 10**6) for _ in range(nrows)], dtype=np.int64)
        elif kind == "float":
            col = np.array([rng.uniform(-1e4, 1e4) for _ in range(nrows)], dtype=float)
        elif kind == "floatint":
            col = np.array([float(rng.randint(-50, 50)) for _ in range(nrows)], dtype=float)
        elif kind == "small":
            col = np.array([rng.choice([0.0, 1e-7, -4e-7, 5.5e-6, 1.23456789e-3, 1e-5]) for _ in range(nrows)], dtype=float)
        else:
            col = [text_token(rng) for _ in range(nrows)]
        data[name] = col
    return pd.DataFrame(data)


SPECS = ["data_", "data_particles", "data_optics", "data_stopgap_motivelist", "data_stopgap_wedgelist"]


def random_case(rng):
    nblocks = rng.randint(1, 4)
    frames, specs = [], []
    for b in range(nblocks):
        last = b == nblocks - 1
        nrows = rng.choice([1, 1, 2, 3, 7, 20, 200]) if rng.random() < 0.5 else rng.randint(1, 40)
        if last and rng.random() < 0.2:
            nrows = 0
        frames.append(random_table(rng, nrows, rng.choice([1, 2, 3, 5, 12, 30])))
        specs.append(rng.choice(SPECS))
    return frames, specs


def frames_equal(a, b):
    if list(a.columns) != list(b.columns) or len(a) != len(b):
        return False
    if [str(x) for x in a.dtypes] != [str(x) for x in b.dtypes]:
        return False
    return a.equals(b)


# ------------------------------------------------------------------------------------------------ 1. round trip
def roundtrip_checks(rng, tmp, n):
    for k in range(n):
        frames, specs = random_case(rng)
        number_columns = rng.random() < 0.5
        keep_objs = list(frames)
        keep = [f.copy(deep=True) for f in frames]
        keep_specs = list(specs)
        arg_frames = list(frames)
        p = os.path.join(tmp, f"rt{k}.star")
        Starfile.write(arg_frames, p, specifiers=specs, number_columns=number_columns)
        # caller's tables untouched
        for o, c in zip(keep_objs, keep):
            check(frames_equal(o, c), f"rt{k}: a caller's table was modified by write")
        check(specs == keep_specs, f"rt{k}: specifiers modified")
        with open(p) as fh:
            text = fh.read()
        blocks = independent_parse(text)
        tag = f"rt{k}"
        # text of the written file against the tables
        check([b[0] for b in blocks] == specs, f"{tag}: block names in the file")
        for (spec, labels, rows), f in zip(blocks, keep):
            check(labels == [str(c) for c in f.columns], f"{tag}: labels in the file")
            check(len(rows) == len(f), f"{tag}: rows in the file")
        # header style
        for spec in specs:
            pass
        numbered = re.findall(r"^_\S+ #(\d+)$", text, flags=re.M)
        plain = re.findall(r"^_\S+$", text, flags=re.M)
        exp_numbered = sum(len(f.columns) for f, s in zip(keep, specs) if number_columns and "stopgap" not in s)
        exp_plain = sum(len(f.columns) for f, s in zip(keep, specs) if not (number_columns and "stopgap" not in s))
        check(len(numbered) == exp_numbered and len(plain) == exp_plain, f"{tag}: header style")
        # read back
        r1 = Starfile.read(p)
        r2 = Starfile.read(p)
        compare_read_with_blocks(r1[0], r1[1], blocks, tag)
        check(r1[1] == specs, f"{tag}: specifiers read back")
        for fr, f in zip(r1[0], keep):
            check(list(fr.columns) == list(f.columns), f"{tag}: columns read back")
            check(len(fr) == len(f), f"{tag}: rows read back")
            if len(fr) != len(f) or len(f) == 0:
                continue
            for c in f.columns:
                if pd.api.types.is_numeric_dtype(f[c].dtype):
                    check(pd.api.types.is_numeric_dtype(fr[c].dtype), f"{tag}/{c}: numeric column read as {fr[c].dtype}")
                    check(
                        np.allclose(fr[c].to_numpy(dtype=float), np.round(f[c].to_numpy(dtype=float), 6), rtol=1e-12, atol=1e-12),
                        f"{tag}/{c}: values differ after rounding to 6 decimals",
                    )
                else:
                    check([str(v) for v in fr[c].tolist()] == list(f[c]), f"{tag}/{c}: text changed")
        # repeated call, same result
        check(r1[1] == r2[1] and r1[2] == r2[2] and all(frames_equal(x, y) for x, y in zip(r1[0], r2[0])), f"{tag}: second read differs")
        # data_id variant
        j = rng.randrange(len(specs))
        fj, sj, cj = Starfile.read(p, data_id=j)
        check(sj == specs[j] and frames_equal(fj, r1[0][j]) and cj == r1[2][j], f"{tag}: data_id read differs")
        # tokens of the written text: tree against original
        check(tok_key(Token.tokenize(text)) == tok_key(original_tokenize(text)), f"{tag}: tokenize differs from the original on the written file")


# ------------------------------------------------------------------------------------------------ 2. hand-built texts
def ws(rng):
    return "".join(rng.choice([" ", " ", "\t", "  "]) for _ in range(rng.randint(1, 4)))


def maybe_junk(rng, lines):
    for _ in range(rng.choice([0, 0, 1, 2, 3])):
        r = rng.random()
        if r < 0.4:
            lines.append("")
        elif r < 0.6:
            lines.append(rng.choice(["  ", "\t", " \t "]))
        elif r < 0.8:
            lines.append("# " + rng.choice(["version 30001", "a comment  with   spaces ", "_notalabel", "data_fake loop_", "#"]))
        else:
            lines.append(ws(rng) + "#" + rng.choice(["indented comment", "", " x # y"]))


def build_text(rng):
    nblocks = rng.randint(1, 4)
    blocks = []
    lines = []
    for b in range(nblocks):
        last = b == nblocks - 1
        spec = rng.choice(SPECS)
        ncols = rng.randint(1, 8)
        nrows = 0 if (last and rng.random() < 0.15) else rng.randint(1, 12)
        kinds = [rng.choice(["int", "float", "text", "mixed"]) for _ in range(ncols)]
        labels = []
        while len(labels) < ncols:
            l = rng.choice(["rln", "", "my_"]) + text_token(rng).replace("#", "")
            if l not in labels:
                labels.append(l)
        rows = []
        for r in range(nrows):
            row = []
            for kd in kinds:
                if kd == "int":
                    row.append(str(rng.randint(-999, 999)))
                elif kd == "float":
                    row.append(rng.choice(["%.6f", "%.3e", "%g", "%r"]) % rng.uniform(-100, 100))
                elif kd == "text":
                    row.append(text_token(rng))
                else:
                    row.append(text_token(rng) if (r == 0 or rng.random() < 0.4) else str(rng.randint(0, 9)))
            rows.append(row)
        blocks.append((spec, labels, rows))
        maybe_junk(rng, lines)
        lines.append(rng.choice(["", "", " ", "\t"]) + spec + rng.choice(["", "", "  ", "\t", " # block comment"]))
        maybe_junk(rng, lines)
        lines.append(rng.choice(["", "", "  "]) + "loop_" + rng.choice(["", "", " ", "\t "]))
        numbered = rng.random() < 0.5
        for i, l in enumerate(labels, 1):
            tail = (rng.choice([" ", "\t", "   "]) + "#" + str(i) + rng.choice(["", " ", "  extra"])) if numbered else rng.choice(["", "", " ", "\t"])
            lines.append(rng.choice(["", "", " "]) + "_" + l + tail)
        maybe_junk(rng, lines)
        for row in rows:
            lines.append(rng.choice(["", "", " ", "\t", "   "]) + ws(rng).join(row) + rng.choice(["", "", " ", "\t", "  \t "]))
        if not last:
            maybe_junk(rng, lines)
            if not lines[-1].strip() == "" and not lines[-1].lstrip().startswith("#"):
                lines.append("")
    if rng.random() < 0.5:
        maybe_junk(rng, lines)
    eol = rng.choice(["\n", "\r\n"])
    text = eol.join(lines)
    if rng.random() < 0.6:
        text += eol
    return text, blocks


def handbuilt_checks(rng, tmp, n):
    for k in range(n):
        text, blocks = build_text(rng)
        tag = f"hb{k}"
        ind = independent_parse(text)
        check(ind == blocks, f"{tag}: the independent tokenizer does not find the constructed blocks (demo bug)")
        p = os.path.join(tmp, f"hb{k}.star")
        with open(p, "w", newline="") as fh:
            fh.write(text)
        try:
            frames, specs, comments = Starfile.read(p)
        except Exception as e:  # noqa
            check(False, f"{tag}: read raised {type(e).__name__}: {e}")
            continue
        compare_read_with_blocks(frames, specs, ind, tag)
        check(len(comments) == len(blocks), f"{tag}: comments list length")
        # tree tokenizer against the original one, on what open() hands to it and on the raw text
        with open(p, mode="r") as fh:
            as_read = fh.read()
        for t in (as_read, text):
            check(tok_key(Token.tokenize(t)) == tok_key(original_tokenize(t)), f"{tag}: tokenize differs from the original")
            check(tok_key(Token.tokenize(t)) == tok_key(Token.tokenize(t)), f"{tag}: second tokenize call differs")


# ------------------------------------------------------------------------------------------------ 3. tokenizer on arbitrary text
def fuzz_tokenize(rng, n):
    pieces = ["_", "loop_", "loop_x", "_loop_", "data_", "#", "##", " ", "\t", "\n", "\r", "a", "1.5", "_a#1", "x#y", " #", "# ", "\x0b", " ", "_ ", "loop_#"]
    fixed = ["", "\n", "#", "a", "_", "loop_", "a#", "#a", " a ", "a\n", "\na", "loop_ loop_", "_x #1\n", "a\tb  c\r\n", "   ", "a #", "_#", "loop_#c", "x\n\n\ny"]
    for k in range(n):
        t = fixed[k] if k < len(fixed) else "".join(rng.choice(pieces) for _ in range(rng.randint(0, 40)))
        try:
            o = ("ok", tok_key(original_tokenize(t)))
        except Exception as e:  # noqa
            o = ("exc", type(e).__name__, str(e))
        try:
            m = ("ok", tok_key(Token.tokenize(t)))
        except Exception as e:  # noqa
            m = ("exc", type(e).__name__, str(e))
        check(o == m, f"fuzz{k}: tokenize differs from the original on {t!r}")


def main():
    rng = random.Random(20260928)
    with tempfile.TemporaryDirectory() as tmp:
        roundtrip_checks(rng, tmp, 120)
        handbuilt_checks(rng, tmp, 400)
    fuzz_tokenize(rng, 3000)
    if FAIL:
        print(f"{len(FAIL)} failures")
        sys.exit(1)
    print("PASS")


if __name__ == "__main__":
    main()
