"""C11 demo: map files round-trip voxels and axis order across MRC, REC and EM.

Checks, for many non-cubic shapes / dtypes / options,
  * the bytes on disk with two independent header parsers (x fastest, nx,ny,nz == array shape),
  * cryomap.read(cryomap.write(a)) == a (float64 narrowed to float32),
  * em2mrc / mrc2em keep every voxel (negated on request), default and explicit output names, overwrite=False refusal,
  * the functions in the tree against verbatim copies of the original functions (same files, same arrays, same errors),
  * the caller's arrays are left untouched.
Run:  cd /tmp/wt13/C11 && /venv/bin/python <this file>
"""
import os
import sys

sys.path.insert(0, os.getcwd())

import re
import shutil
import struct
import tempfile
import warnings

import numpy as np
import emfile
import mrcfile

warnings.simplefilter("ignore")

from cryocat import cryomap

# ----------------------------------------------------------------------------------------------------------------
# verbatim copies of the original functions (HEAD of the scratch tree), executed in their own namespace
ORIGINAL_TEXT = '''
def read(input_map, transpose=True, data_type=None):
    if isinstance(input_map, str):

        def valid_mrc(filename):
            pattern = r"\\.(mrc|ali|rec|st)(\\.\\d+)?$"
            return bool(re.search(pattern, filename))

        if valid_mrc(input_map):
            data = mrcfile.open(input_map).data
        elif input_map.endswith(".em"):
            data = emfile.read(input_map)[1]
        else:
            raise ValueError("The input map file name", input_map, "is neither em or mrc file!")

        if transpose:
            data = data.transpose(2, 1, 0)
    elif isinstance(input_map, np.ndarray):
        data = np.array(input_map)
    else:
        raise ValueError(f"Input map must be path to valid file or nparray")

    data = np.array(data, copy=True)
    if data_type is not None:
        data = data.astype(data_type)

    return data


def write(data_to_write, file_name, transpose=True, data_type=None, overwrite=True):
    if data_type is not None:
        data_to_write = data_to_write.astype(data_type)

    if transpose and data_to_write.ndim == 3:
        data_to_write = data_to_write.transpose(2, 1, 0)

    if data_to_write.dtype == np.float64:
        data_to_write = data_to_write.astype(np.float32)

    if file_name.endswith(".mrc") or file_name.endswith(".rec"):
        mrcfile.write(name=file_name, data=data_to_write, overwrite=overwrite)
    elif file_name.endswith(".em"):
        emfile.write(file_name, data=data_to_write, overwrite=overwrite)
    else:
        raise ValueError("The output file name", file_name, "has to end with .mrc, .rec or .em!")


def invert_contrast(input_map, output_name=None):
    input_map = read(input_map)
    inverted_map = input_map * (-1)

    if output_name is not None:
        if inverted_map.dtype == np.float64:
            data_type = np.single
        else:
            data_type = inverted_map.dtype

        write(inverted_map, output_name, data_type=data_type)

    return inverted_map


def em2mrc(map_name, invert=False, overwrite=True, output_name=None):
    if not isinstance(map_name, str):
        raise ValueError(f"Input file must be a string, valid path")
    elif not map_name.endswith(".em"):
        raise ValueError(f"Provided path must be .em file")
    data_to_write = read(map_name)

    if invert:
        data_to_write = data_to_write * (-1)

    if output_name is None:
        output_name = map_name[:-2] + "mrc"
    elif not output_name.endswith(".mrc"):
        raise ValueError(f"Specified output file name must end with .mrc")
    write(data_to_write, output_name, overwrite=overwrite)


def mrc2em(map_name, invert=False, overwrite=True, output_name=None):
    if not isinstance(map_name, str):
        raise ValueError(f"Input is not a string")
    else:
        if not map_name.endswith(".mrc"):
            raise ValueError(f"Input file is not .mrc file")
    data_to_write = read(map_name)

    if invert:
        data_to_write = data_to_write * (-1)

    if output_name is None:
        output_name = map_name[:-3] + "em"
    elif not output_name.endswith(".em"):
        raise ValueError(f"Specified output_name is not .em file")

    write(data_to_write, output_name, overwrite=overwrite)
'''


class _NS:
    pass


def _load_original():
    ns = {"np": np, "re": re, "mrcfile": mrcfile, "emfile": emfile}
    exec(compile(ORIGINAL_TEXT, "<original cryomap>", "exec"), ns)
    o = _NS()
    for k in ("read", "write", "invert_contrast", "em2mrc", "mrc2em"):
        setattr(o, k, ns[k])
    return o


orig = _load_original()

# ----------------------------------------------------------------------------------------------------------------
# independent parsers (struct + numpy only)
MRC_MODE = {0: np.int8, 1: np.int16, 2: np.float32, 6: np.uint16, 12: np.float16}
EM_TYPE = {1: np.int8, 2: np.int16, 4: np.int32, 5: np.float32, 9: np.float64}


def parse_mrc(path):
    raw = open(path, "rb").read()
    nx, ny, nz, mode = struct.unpack("<4i", raw[:16])
    nsymbt = struct.unpack("<i", raw[92:96])[0]
    assert raw[208:212] == b"MAP ", "no MAP stamp"
    mapc, mapr, maps = struct.unpack("<3i", raw[64:76])
    assert (mapc, mapr, maps) == (1, 2, 3), "axis mapping"
    dt = np.dtype(MRC_MODE[mode]).newbyteorder("<")
    body = raw[1024 + nsymbt :]
    assert len(body) == nx * ny * nz * dt.itemsize, "body length"
    return (nx, ny, nz), np.dtype(MRC_MODE[mode]), np.frombuffer(body, dtype=dt)


def parse_em(path):
    raw = open(path, "rb").read()
    machine, _, _, code = struct.unpack("<4b", raw[:4])
    assert machine == 6, "little endian PC"
    nx, ny, nz = struct.unpack("<3i", raw[4:16])
    dt = np.dtype(EM_TYPE[code]).newbyteorder("<")
    body = raw[512:]
    assert len(body) == nx * ny * nz * dt.itemsize, "body length"
    return (nx, ny, nz), np.dtype(EM_TYPE[code]), np.frombuffer(body, dtype=dt)


def parse(path):
    return parse_em(path) if path.endswith(".em") else parse_mrc(path)


def file_bytes(path):
    """bytes of a file with the free-text labels of an MRC header (time stamp of mrcfile) blanked"""
    raw = bytearray(open(path, "rb").read())
    if not path.endswith(".em"):
        raw[220:1024] = b"\0" * (1024 - 220)  # nlabl + 10 labels
    return bytes(raw)


# ----------------------------------------------------------------------------------------------------------------
FAILS = []
COUNT = [0]


def check(cond, msg):
    COUNT[0] += 1
    if not cond:
        FAILS.append(msg)
        if len(FAILS) <= 20:
            print("FAIL:", msg)


def same_array(a, b):
    return (
        isinstance(a, np.ndarray)
        and isinstance(b, np.ndarray)
        and a.dtype == b.dtype
        and a.shape == b.shape
        and np.array_equal(a, b)
        and a.flags["C_CONTIGUOUS"] == b.flags["C_CONTIGUOUS"]
        and a.flags["OWNDATA"] == b.flags["OWNDATA"]
        and a.flags["WRITEABLE"] == b.flags["WRITEABLE"]
    )


def outcome(fn, *a, **k):
    try:
        return ("ok", fn(*a, **k))
    except Exception as e:  # noqa
        return ("err", type(e).__name__, tuple(str(x) for x in e.args))


def same_outcome(x, y):
    if x[0] != y[0]:
        return False
    if x[0] == "err":
        return x == y
    if x[1] is None or y[1] is None:
        return x[1] is None and y[1] is None
    return same_array(x[1], y[1])


def rand_array(rng, shape, dtype):
    dtype = np.dtype(dtype)
    if dtype.kind == "f":
        a = rng.normal(0, 50, size=shape).astype(dtype)
        if a.size > 3:
            a.flat[0] = 0.0
            a.flat[1] = -0.0
            a.flat[2] = 1e-3
    else:
        info = np.iinfo(dtype)
        a = rng.integers(info.min, info.max + 1, size=shape).astype(dtype)
        if a.size > 2:
            a.flat[0] = info.min  # -128 / -32768: negation wraps, the same in every implementation
            a.flat[1] = info.max
    return a


def expected_on_disk(arr, transpose, data_type):
    """independent: what other software must find in the file: (nx,ny,nz), dtype, flat data with x fastest"""
    a = arr if data_type is None else arr.astype(data_type)
    if a.dtype == np.float64:
        a = a.astype(np.float32)
    if transpose:
        dims = a.shape  # array is (x,y,z)
        flat = np.array([a[x, y, z] for z in range(dims[2]) for y in range(dims[1]) for x in range(dims[0])], dtype=a.dtype) if a.size <= 60 else a.ravel(order="F")
    else:
        dims = a.shape[::-1]  # array is (z,y,x)
        flat = a.ravel(order="C")
    return tuple(int(d) for d in dims), a.dtype, flat, a


def negated(a):
    """independent negation: through int64 / float64 and back to the voxel type (wraps like the voxel type does)"""
    if a.dtype.kind == "f":
        return (0.0 - a.astype(np.float64)).astype(a.dtype) * 1  # -0.0 vs 0.0 compare equal
    return (-a.astype(np.int64)).astype(a.dtype)


def shapes(rng, n):
    out = [(1, 1, 1), (1, 2, 3), (48, 1, 1), (1, 48, 1), (1, 1, 48), (48, 47, 46), (2, 3, 5), (7, 7, 7), (5, 1, 9)]
    while len(out) < n:
        out.append(tuple(int(v) for v in rng.integers(1, 49, size=3)))
    return out


def main():
    rng = np.random.default_rng(1107)
    tmp = tempfile.mkdtemp(prefix="c11demo_")
    try:
        dtypes = [np.float32, np.float64, np.int16, np.int8]
        exts = [".mrc", ".rec", ".em"]
        dts = [None, np.float32, np.single, np.int16, np.int8, np.float64, "float32"]
        k = 0
        # ---------------------------------------------------------------- write / read over shapes, dtypes, options
        for shape in shapes(rng, 70):
            for dtype in dtypes:
                k += 1
                ext = exts[k % 3]
                transpose = (k % 5) != 0
                data_type = dts[k % len(dts)] if (k % 2) else None
                arr = rand_array(rng, shape, dtype)
                if data_type is not None and np.dtype(data_type).kind == "i":
                    # keep the cast inside the integer range (out-of-range float -> int casts are undefined)
                    lim = np.iinfo(np.dtype(data_type))
                    arr = np.clip(arr, lim.min, lim.max).astype(dtype)
                if k % 7 == 0:
                    arr = np.asfortranarray(arr)  # caller's layout must not matter
                if k % 11 == 0:
                    big = rand_array(rng, tuple(2 * s for s in shape), dtype)
                    arr = big[::2, ::2, ::2]  # a strided view as input
                    if data_type is not None and np.dtype(data_type).kind == "i":
                        lim = np.iinfo(np.dtype(data_type))
                        big[...] = np.clip(big, lim.min, lim.max)
                keep = arr.copy()
                keep_flags = (arr.flags["C_CONTIGUOUS"], arr.flags["F_CONTIGUOUS"], arr.dtype, arr.strides)
                tag = f"shape={shape} dtype={np.dtype(dtype).name} ext={ext} transpose={transpose} data_type={data_type}"

                p_new = os.path.join(tmp, f"n{k}{ext}")
                p_old = os.path.join(tmp, f"o{k}{ext}")
                r_new = outcome(cryomap.write, arr, p_new, transpose=transpose, data_type=data_type)
                r_old = outcome(orig.write, arr, p_old, transpose=transpose, data_type=data_type)
                check(r_new == ("ok", None), f"write failed {tag}: {r_new}")
                check(same_outcome(r_new, r_old), f"write outcome differs from original {tag}")
                check(np.array_equal(arr, keep) and keep_flags == (arr.flags["C_CONTIGUOUS"], arr.flags["F_CONTIGUOUS"], arr.dtype, arr.strides), f"write touched its input {tag}")
                if r_new[0] != "ok":
                    continue
                # bytes on disk, independent parser
                dims, edt, flat, narrowed = expected_on_disk(arr, transpose, data_type)
                fd, fdt, fflat = parse(p_new)
                check(fd == dims, f"header nx,ny,nz {fd} != {dims} {tag}")
                check(fdt == edt, f"voxel type on disk {fdt} != {edt} {tag}")
                check(fflat.shape == flat.shape and np.array_equal(fflat, flat), f"voxels on disk differ / x not fastest {tag}")
                check(file_bytes(p_new) == file_bytes(p_old), f"file bytes differ from original writer {tag}")
                # a second write to the same path (overwrite defaults to True) gives the same file
                before = file_bytes(p_new)
                cryomap.write(arr, p_new, transpose=transpose, data_type=data_type)
                check(file_bytes(p_new) == before, f"second write changed the file {tag}")

                # read back
                back = cryomap.read(p_new, transpose=transpose)
                check(back.shape == narrowed.shape, f"round trip shape {back.shape} != {narrowed.shape} {tag}")
                check(back.dtype == narrowed.dtype and np.array_equal(back, narrowed), f"round trip values {tag}")
                check(back.flags["OWNDATA"] and back.flags["WRITEABLE"], f"read must return its own writable array {tag}")
                back2 = cryomap.read(p_new, transpose=transpose)
                check(same_array(back, back2), f"second read differs {tag}")
                check(same_array(back, orig.read(p_new, transpose=transpose)), f"read differs from original {tag}")
                # crosswise: original reader on new file == new reader on original file
                check(same_array(orig.read(p_new, transpose=transpose), cryomap.read(p_old, transpose=transpose)), f"cross read {tag}")
                # the other transpose setting on reading: axes reversed, nothing else
                other = cryomap.read(p_new, transpose=not transpose)
                check(other.shape == narrowed.shape[::-1] and np.array_equal(other, narrowed.transpose(2, 1, 0)), f"read transpose option {tag}")
                check(same_array(other, orig.read(p_new, transpose=not transpose)), f"read(transpose) differs from original {tag}")
                # data_type on reading
                for rdt in (np.float32, np.float64, np.int16):
                    if np.dtype(rdt).kind == "i" and narrowed.dtype.kind == "f":
                        continue
                    got = cryomap.read(p_new, transpose=transpose, data_type=rdt)
                    check(got.dtype == np.dtype(rdt) and np.array_equal(got, narrowed.astype(rdt)), f"read data_type={rdt} {tag}")
                    check(same_array(got, orig.read(p_new, transpose=transpose, data_type=rdt)), f"read data_type={rdt} differs from original {tag}")
                # reading an array gives an equal, independent copy
                cp = cryomap.read(arr)
                check(np.array_equal(cp, keep) and cp.dtype == arr.dtype and not np.shares_memory(cp, arr), f"read(ndarray) {tag}")
                check(same_array(cp, orig.read(arr)), f"read(ndarray) differs from original {tag}")
                cp[...] = 0
                check(np.array_equal(arr, keep), f"read(ndarray) aliases its input {tag}")

        # other MRC-like names are read through the MRC branch; numbered backups as well
        a = rand_array(rng, (4, 9, 6), np.float32)
        src = os.path.join(tmp, "names.mrc")
        cryomap.write(a, src)
        for name in ("names.st", "names.ali", "names.rec", "names.mrc.1", "names.rec.23", "names.st.007"):
            dst = os.path.join(tmp, name)
            shutil.copy(src, dst)
            r1, r2 = outcome(cryomap.read, dst), outcome(orig.read, dst)
            check(r1[0] == "ok" and np.array_equal(r1[1], a), f"read {name}")
            check(same_outcome(r1, r2), f"read {name} differs from original")
        # refused names and inputs: same exception, same arguments, nothing written
        for bad in ("x.map", "x.mrc.gz", "x.em.1", "x.EM", "x.MRC", "xmrc", "x.mrcs", "", ".em", "x.st", "x.ali", "x.mrc.1", "x.rec\n", "x.em\n"):
            pb = os.path.join(tmp, bad) if bad else bad
            listing = sorted(os.listdir(tmp))
            if bad != ".em":
                r1, r2 = outcome(cryomap.write, a, pb), outcome(orig.write, a, pb)
                check(same_outcome(r1, r2), f"write({bad!r}) outcome differs from original: {r1} / {r2}")
                if r1[0] == "err":
                    check(sorted(os.listdir(tmp)) == listing, f"refused write({bad!r}) left a file")
                else:
                    os.remove(pb)
            r1, r2 = outcome(cryomap.read, pb), outcome(orig.read, pb)
            check(same_outcome(r1, r2), f"read({bad!r}) outcome differs from original: {r1} / {r2}")
        for bad in (None, 5, [1, 2, 3], b"x.mrc"):
            check(same_outcome(outcome(cryomap.read, bad), outcome(orig.read, bad)), f"read({bad!r}) outcome differs")
        # 2-D data goes to MRC untransposed
        img = rand_array(rng, (5, 8), np.float32)
        p1, p2 = os.path.join(tmp, "img_n.mrc"), os.path.join(tmp, "img_o.mrc")
        check(same_outcome(outcome(cryomap.write, img, p1), outcome(orig.write, img, p2)), "2-D write outcome")
        check(file_bytes(p1) == file_bytes(p2), "2-D write bytes")
        check(same_outcome(outcome(cryomap.write, img, p1[:-3] + "em"), outcome(orig.write, img, p2[:-3] + "em")), "2-D em write outcome")
        # overwrite=False on write itself
        for ext in exts:
            p = os.path.join(tmp, "ow" + ext)
            r = outcome(cryomap.write, a, p, overwrite=False)
            check(r == ("ok", None), f"write(overwrite=False) to a fresh name {ext}: {r}")
            before = open(p, "rb").read()
            r1 = outcome(cryomap.write, a * 2, p, overwrite=False)
            check(r1[0] == "err" and r1[1] == "ValueError", f"write(overwrite=False) must refuse {ext}: {r1}")
            check(open(p, "rb").read() == before, f"refused write changed the file {ext}")
            check(same_outcome(r1, outcome(orig.write, a * 2, p, overwrite=False)), f"write(overwrite=False) differs from original {ext}")

        # ---------------------------------------------------------------- em2mrc / mrc2em
        conv = [
            ("em2mrc", ".em", ".mrc", cryomap.em2mrc, orig.em2mrc, parse_em, parse_mrc),
            ("mrc2em", ".mrc", ".em", cryomap.mrc2em, orig.mrc2em, parse_mrc, parse_em),
        ]
        k = 0
        for shape in shapes(rng, 40):
            for dtype in dtypes:
                for cname, e_in, e_out, f_new, f_old, p_in, p_out in conv:
                    k += 1
                    invert = bool(k % 2)
                    explicit = (k % 3) == 0
                    arr = rand_array(rng, shape, dtype)
                    tag = f"{cname} shape={shape} dtype={np.dtype(dtype).name} invert={invert} explicit={explicit}"
                    d_new = os.path.join(tmp, f"cn{k}")
                    d_old = os.path.join(tmp, f"co{k}")
                    os.mkdir(d_new), os.mkdir(d_old)
                    res = {}
                    for d, f in ((d_new, f_new), (d_old, f_old)):
                        src = os.path.join(d, "vol" + e_in)
                        orig.write(arr, src)
                        src_bytes = open(src, "rb").read()
                        out = os.path.join(d, "other_name" + e_out) if explicit else os.path.join(d, "vol" + e_out)
                        r = outcome(f, src, invert=invert, output_name=out) if explicit else outcome(f, src, invert=invert)
                        res[d] = (r, out, src, src_bytes)
                    (r1, out1, src1, sb1), (r2, out2, _, _) = res[d_new], res[d_old]
                    check(r1 == ("ok", None), f"{tag}: {r1}")
                    check(same_outcome(r1, r2), f"{tag}: outcome differs from original")
                    check(sorted(os.listdir(d_new)) == sorted(os.listdir(d_old)), f"{tag}: files created differ {os.listdir(d_new)}")
                    check(open(src1, "rb").read() == sb1, f"{tag}: source file changed")
                    if r1[0] != "ok":
                        continue
                    narrowed = arr.astype(np.float32) if arr.dtype == np.float64 else arr
                    want = negated(narrowed) if invert else narrowed
                    dims, vdt, flat = p_out(out1)
                    check(dims == tuple(shape), f"{tag}: header {dims}")
                    check(vdt == want.dtype, f"{tag}: voxel type {vdt}")
                    check(np.array_equal(flat, want.ravel(order="F")), f"{tag}: voxels on disk")
                    got = cryomap.read(out1)
                    check(got.shape == want.shape and got.dtype == want.dtype and np.array_equal(got, want), f"{tag}: read back")
                    check(file_bytes(out1) == file_bytes(out2), f"{tag}: bytes differ from original")

                    # refusal to overwrite: the existing file stays as it is, the error is the same
                    for d, f in ((d_new, f_new), (d_old, f_old)):
                        r, out, src, _ = res[d]
                        before = open(out, "rb").read()
                        kw = {"output_name": out} if explicit else {}
                        rr = outcome(f, src, invert=not invert, overwrite=False, **kw)
                        res[d] = (rr, before == open(out, "rb").read())
                    check(res[d_new][0][0] == "err" and res[d_new][0][1] == "ValueError", f"{tag}: overwrite=False must refuse: {res[d_new][0]}")
                    check(res[d_new][1], f"{tag}: refused conversion changed the existing file")
                    check(res[d_new][0][:2] == res[d_old][0][:2], f"{tag}: refusal differs from original")
                    # overwrite=False to a fresh name works, overwrite=True replaces
                    fresh = os.path.join(d_new, "fresh" + e_out)
                    r = outcome(f_new, src1, invert=invert, overwrite=False, output_name=fresh)
                    check(r == ("ok", None) and file_bytes(fresh) == file_bytes(out1), f"{tag}: overwrite=False to a fresh name")
                    r = outcome(f_new, src1, invert=not invert, overwrite=True, output_name=fresh)
                    want2 = narrowed if invert else negated(narrowed)
                    check(r == ("ok", None) and np.array_equal(cryomap.read(fresh), want2), f"{tag}: overwrite=True replaces")
                    # repeated call, same result
                    r = outcome(f_new, src1, invert=invert, **({"output_name": out1} if explicit else {}))
                    check(r == ("ok", None) and file_bytes(out1) == file_bytes(out2), f"{tag}: repeated conversion")
                    shutil.rmtree(d_new), shutil.rmtree(d_old)

        # wrong names / inputs for the converters: the same error and no file, with and without inversion
        a = rand_array(rng, (3, 4, 5), np.float32)
        for cname, e_in, e_out, f_new, f_old, _, _ in conv:
            for invert in (False, True):
                for bad_out in ("out.map", "out" + e_in, "out", "out" + e_out + ".1", "out" + e_out.upper()):
                    d = tempfile.mkdtemp(dir=tmp)
                    src = os.path.join(d, "vol" + e_in)
                    orig.write(a, src)
                    r1 = outcome(f_new, src, invert=invert, output_name=os.path.join(d, bad_out))
                    r2 = outcome(f_old, src, invert=invert, output_name=os.path.join(d, bad_out))
                    check(r1[0] == "err" and r1[1] == "ValueError", f"{cname} output_name={bad_out!r} must be refused: {r1}")
                    check(r1 == r2, f"{cname} output_name={bad_out!r}: differs from original {r1} / {r2}")
                    check(os.listdir(d) == ["vol" + e_in], f"{cname} output_name={bad_out!r}: left files {os.listdir(d)}")
                for bad_in in (None, 3, "vol" + e_out, "vol.map", "missing" + e_in):
                    d = tempfile.mkdtemp(dir=tmp)
                    arg = os.path.join(d, bad_in) if isinstance(bad_in, str) else bad_in
                    for out in (None, os.path.join(d, "o" + e_out), os.path.join(d, "o.bad")):
                        r1 = outcome(f_new, arg, invert=invert, output_name=out)
                        r2 = outcome(f_old, arg, invert=invert, output_name=out)
                        check(r1[0] == "err" and r1 == r2, f"{cname}({bad_in!r}, output_name={out!r}): {r1} / {r2}")
                    check(os.listdir(d) == [], f"{cname}({bad_in!r}) left files")

        # a float64 EM file made by other software is converted with narrowing only
        d = tempfile.mkdtemp(dir=tmp)
        a64 = rng.normal(size=(3, 5, 4))  # (z,y,x) as emfile takes it
        emfile.write(os.path.join(d, "dbl.em"), a64, overwrite=True)
        for f, name in ((cryomap.em2mrc, "n.mrc"), (orig.em2mrc, "o.mrc")):
            f(os.path.join(d, "dbl.em"), invert=True, output_name=os.path.join(d, name))
        dims, vdt, flat = parse_mrc(os.path.join(d, "n.mrc"))
        check(dims == (4, 5, 3) and vdt == np.float32 and np.array_equal(flat, (-a64).astype(np.float32).ravel()), "float64 EM -> MRC")
        check(file_bytes(os.path.join(d, "n.mrc")) == file_bytes(os.path.join(d, "o.mrc")), "float64 EM -> MRC bytes")

        # ---------------------------------------------------------------- invert_contrast (uses read and write)
        for shape in shapes(rng, 14):
            for dtype in dtypes:
                arr = rand_array(rng, shape, dtype)
                keep = arr.copy()
                for ext in exts:
                    p1, p2 = os.path.join(tmp, "inv_n" + ext), os.path.join(tmp, "inv_o" + ext)
                    r1 = outcome(cryomap.invert_contrast, arr, p1)
                    r2 = outcome(orig.invert_contrast, arr, p2)
                    check(same_outcome(r1, r2) and r1[0] == "ok", f"invert_contrast {shape} {dtype} {ext}")
                    check(file_bytes(p1) == file_bytes(p2), f"invert_contrast bytes {shape} {dtype} {ext}")
                    check(np.array_equal(arr, keep), "invert_contrast touched its input")
                    src = os.path.join(tmp, "inv_src" + ext)
                    orig.write(arr, src)
                    check(same_outcome(outcome(cryomap.invert_contrast, src), outcome(orig.invert_contrast, src)), f"invert_contrast(path) {ext}")
    finally:
        shutil.rmtree(tmp, ignore_errors=True)

    print(f"{COUNT[0]} checks, {len(FAILS)} failed")
    if FAILS:
        print("FAIL")
        sys.exit(1)
    print("PASS")


if __name__ == "__main__":
    main()
