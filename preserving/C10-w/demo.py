"""C10 -- cyclic symmetry expansion places subunits on the symmetry orbit.

Run as   cd /tmp/wt13/C10 && /venv/bin/python <this file>

1. property: Motl.split_in_asymmetric_subunits(Cn / cn / n, s) against an independent matrix computation
   (all n in 1..64, many poses, offsets on and off the axis, several list sizes up to 100, unsorted ids,
   non-default row labels, repeated calls on the same object);
2. the functions of the tree (split_in_asymmetric_subunits, update_coordinates) against verbatim copies of the
   original function texts kept below, on the same inputs (frames compared exactly, dtypes and index included,
   number of warnings included);
3. the caller's table, its index and the offset argument are left untouched.
Prints PASS and exits 0 when everything holds.
"""
import os
import sys

sys.path.insert(0, os.getcwd())

import decimal
import re
import warnings

import numpy as np
import pandas as pd
from scipy.spatial.transform import Rotation as rot

from cryocat.cryomotl import Motl

warnings.simplefilter("ignore")


# --------------------------------------------------------------------------------------------------------------
# verbatim copies of the original function texts (HEAD b1093bd); only `self.update_coordinates()` inside the
# split was redirected to the original copy below
# --------------------------------------------------------------------------------------------------------------
def orig_update_coordinates(self):
    # Python 0.5 rounding: round(1.5) = 2, BUT round(2.5) = 2, while in Matlab round(2.5) = 3
    def round_and_recenter(row):
        new_row = row.copy()
        shifted_x = row["x"] + row["shift_x"]
        shifted_y = row["y"] + row["shift_y"]
        shifted_z = row["z"] + row["shift_z"]
        new_row["x"] = float(decimal.Decimal(shifted_x).to_integral_value(rounding=decimal.ROUND_HALF_UP))
        new_row["y"] = float(decimal.Decimal(shifted_y).to_integral_value(rounding=decimal.ROUND_HALF_UP))
        new_row["z"] = float(decimal.Decimal(shifted_z).to_integral_value(rounding=decimal.ROUND_HALF_UP))
        new_row["shift_x"] = shifted_x - new_row["x"]
        new_row["shift_y"] = shifted_y - new_row["y"]
        new_row["shift_z"] = shifted_z - new_row["z"]
        return new_row

    self.df = self.df.apply(round_and_recenter, axis=1)
    warnings.warn("The coordinates for subtomogram extraction were changed, new extraction is necessary!")


def orig_split_in_asymmetric_subunits(self, symmetry, xyz_shift):
    if isinstance(symmetry, str):
        nfold = int(re.findall(r"\d+", symmetry)[-1])
        if symmetry.lower().startswith("c"):
            s_type = 1  # c symmetry
        elif symmetry.lower().startswith("d"):
            s_type = 2  # d symmetry
        else:
            ValueError("Unknown symmetry - currently only c and are supported!")
    elif isinstance(symmetry, (int, float)):
        s_type = 1  # c symmetry
        nfold = symmetry
    else:
        ValueError(
            "The symmetry has to be specified as a string (starting with c or d) or as a number (float, int)!"
        )

    inplane_step = 360 / nfold

    if s_type == 1:
        n_subunits = nfold
        phi_angles = np.arange(n_subunits) * inplane_step
        new_angles = np.zeros((n_subunits, 3))
        new_angles[:, 0] = phi_angles
    elif s_type == 2:
        n_subunits = nfold * 2
        in_plane_offset = int(inplane_step / 2)
        new_angles = np.zeros((n_subunits, 3))
        new_angles[0::2, 0] = np.arange(0, 360, int(inplane_step))
        new_angles[1::2, 0] = np.arange(0 + in_plane_offset, 360 + in_plane_offset, int(inplane_step))
        new_angles[1::2, 1] = 180

        phi_angles = new_angles[:, 0].copy()

    phi_angles = phi_angles.reshape(
        n_subunits,
    )

    # make up vectors
    starting_vector = np.array(xyz_shift)
    rho = np.sqrt(starting_vector[0] ** 2 + starting_vector[1] ** 2)
    the = np.arctan2(starting_vector[1], starting_vector[0])

    rot_rho = np.full((n_subunits,), rho)
    rep_the = np.full((n_subunits,), the) + np.deg2rad(phi_angles)
    rep_z = np.full((n_subunits,), starting_vector[2])

    if s_type == 2:
        rep_z[1::2] *= -1

    center_shift = np.zeros([rot_rho.shape[0], 3])
    center_shift[:, 0] = rot_rho * np.cos(rep_the)
    center_shift[:, 1] = rot_rho * np.sin(rep_the)
    center_shift[:, 2] = rep_z

    new_motl_df = pd.concat([self.df] * n_subunits)

    new_motl_df["geom5"] = new_motl_df["subtomo_id"]
    new_motl_df = new_motl_df.sort_values(by="subtomo_id")
    new_motl_df["geom2"] = np.tile(np.arange(1, n_subunits + 1).reshape(n_subunits, 1), (len(self.df), 1))

    euler_angles = new_motl_df[["phi", "theta", "psi"]]
    rotations = rot.from_euler(seq="zxz", angles=euler_angles, degrees=True)
    center_shift = np.tile(center_shift, (len(self.df), 1))
    new_angles = np.tile(new_angles, (len(self.df), 1))
    new_motl_df.loc[:, ["shift_x", "shift_y", "shift_z"]] = new_motl_df.loc[
        :, ["shift_x", "shift_y", "shift_z"]
    ] + rotations.apply(center_shift)

    new_rotations = rotations * rot.from_euler(seq="zxz", angles=new_angles, degrees=True)
    new_motl_df.loc[:, ["phi", "theta", "psi"]] = new_rotations.as_euler(seq="zxz", degrees=True)

    new_motl_df["subtomo_id"] = np.arange(1, len(new_motl_df) + 1)
    new_motl = Motl(new_motl_df)
    orig_update_coordinates(new_motl)
    new_motl.df.reset_index(inplace=True, drop=True)
    return new_motl


# --------------------------------------------------------------------------------------------------------------
# independent reference: plain 3x3 matrices, no scipy
# --------------------------------------------------------------------------------------------------------------
def Rz(deg):
    a = np.deg2rad(deg)
    c, s = np.cos(a), np.sin(a)
    return np.array([[c, -s, 0.0], [s, c, 0.0], [0.0, 0.0, 1.0]])


def Rx(deg):
    a = np.deg2rad(deg)
    c, s = np.cos(a), np.sin(a)
    return np.array([[1.0, 0.0, 0.0], [0.0, c, -s], [0.0, s, c]])


def pose(phi, theta, psi):
    # extrinsic z-x-z by (phi, theta, psi): first about z by phi, then about x by theta, then about z by psi
    return Rz(psi) @ Rx(theta) @ Rz(phi)


OTHER = ["score", "geom1", "tomo_id", "object_id", "subtomo_mean", "geom3", "geom4", "class"]


def check_property(inp, out, n, s, tag):
    s = np.asarray(s, dtype=float)
    N = len(inp)
    assert len(out) == N * n, (tag, "count", len(out), N * n)
    assert list(out.columns) == list(inp.columns), (tag, "columns")
    assert list(out.index) == list(range(N * n)), (tag, "index")
    assert sorted(out["subtomo_id"].tolist()) == list(range(1, N * n + 1)), (tag, "subtomo ids not unique 1..N*n")
    parents = inp.sort_values("subtomo_id", kind="stable")
    r = 0
    for _, p in parents.iterrows():
        R = pose(p["phi"], p["theta"], p["psi"])
        centre = np.array([p["x"] + p["shift_x"], p["y"] + p["shift_y"], p["z"] + p["shift_z"]])
        zaxis = R[:, 2]
        for k in range(n):
            o = out.iloc[r]
            r += 1
            assert o["geom5"] == p["subtomo_id"], (tag, "parent", r)
            assert o["geom2"] == k + 1, (tag, "subunit index", r)
            for c in OTHER:
                assert o[c] == p[c], (tag, c, r)
            Rk_ref = R @ Rz(360.0 * k / n)
            Rk = pose(o["phi"], o["theta"], o["psi"])
            assert np.allclose(Rk, Rk_ref, atol=1e-8), (tag, "orientation", r, k)
            # related to the parent by a rotation about the parent's own z axis
            assert np.allclose(Rk[:, 2], zaxis, atol=1e-8), (tag, "z axis", r)
            pos = np.array([o["x"] + o["shift_x"], o["y"] + o["shift_y"], o["z"] + o["shift_z"]])
            tol = 1e-8 * max(1.0, np.abs(centre).max(), np.abs(s).max())
            assert np.allclose(pos, centre + Rk_ref @ s, atol=tol), (tag, "position", r, k)
            # maps back onto the parent's centre
            assert np.allclose(pos - Rk @ s, centre, atol=tol), (tag, "back to centre", r, k)
            for c in "xyz":
                assert float(o[c]) == np.floor(float(o[c])), (tag, "integer " + c, r)
                assert abs(o["shift_" + c]) <= 0.5, (tag, "shift " + c, o["shift_" + c])


# --------------------------------------------------------------------------------------------------------------
# inputs
# --------------------------------------------------------------------------------------------------------------
rng = np.random.default_rng(20260928)


def make_df(N, kind="random", ids="sorted", index="range"):
    df = Motl.create_empty_motl_df()
    df = df.reindex(range(N)).fillna(0.0)
    df["score"] = rng.uniform(0, 1, N)
    df["geom1"] = rng.integers(0, 5, N).astype(float)
    df["geom2"] = rng.integers(0, 9, N).astype(float)
    df["geom3"] = rng.uniform(-3, 3, N)
    df["geom4"] = rng.integers(0, 5, N).astype(float)
    df["geom5"] = rng.integers(0, 99, N).astype(float)
    df["subtomo_mean"] = rng.uniform(-1, 1, N)
    df["tomo_id"] = np.sort(rng.integers(1, 4, N)).astype(float)  # groups of different sizes, some tomograms absent
    df["object_id"] = rng.integers(1, 6, N).astype(float)
    df["class"] = rng.integers(1, 4, N).astype(float)
    if kind == "random":
        df[["x", "y", "z"]] = rng.integers(-50, 900, (N, 3)).astype(float)
        df[["shift_x", "shift_y", "shift_z"]] = rng.uniform(-4, 4, (N, 3))
        df["phi"] = rng.uniform(-180, 180, N)
        df["theta"] = rng.uniform(0, 180, N)
        df["psi"] = rng.uniform(-180, 180, N)
    elif kind == "edge":
        # half-integer positions, zero / gimbal-lock poses, fractional x,y,z
        df[["x", "y", "z"]] = rng.integers(-5, 50, (N, 3)).astype(float) + rng.choice([0.0, 0.5, 0.25], (N, 3))
        df[["shift_x", "shift_y", "shift_z"]] = rng.choice([0.0, 0.5, -0.5, 1.5, -2.5, 0.1], (N, 3))
        df["phi"] = rng.choice([0.0, 90.0, -180.0, 37.0, 360.0], N)
        df["theta"] = rng.choice([0.0, 180.0, 90.0, 12.0], N)
        df["psi"] = rng.choice([0.0, -90.0, 180.0, 211.0], N)
    sid = np.arange(1, N + 1)
    if ids == "shuffled":
        sid = rng.permutation(sid) * 3 + 2  # unsorted, gaps, not starting at 1
    df["subtomo_id"] = sid.astype(float)
    if index == "odd":
        df.index = rng.permutation(N) * 7 + 5  # unique but unordered labels, as left by a filter without reset
    return df


OFFSETS = [
    np.array([10.0, 0.0, 0.0]),
    np.array([0.0, 0.0, 7.5]),  # on the axis
    np.array([0.0, 0.0, 0.0]),  # null offset
    [3, -4, 2],  # list of ints
    (-2.25, 6.5, -11.0),  # tuple
    np.array([1e-3, -2e-3, 0.0]),
]


def copy_arg(s):
    return s.copy() if isinstance(s, np.ndarray) else type(s)(s)


def same_arg(s, s0):
    return type(s) is type(s0) and np.array_equal(np.asarray(s), np.asarray(s0))


def run_both(df, sym, s):
    """returns (result of the tree, result of the original copy); checks inputs untouched and warnings equal"""
    df0 = df.copy(deep=True)
    s0 = copy_arg(s)
    m_new = Motl(df)
    with warnings.catch_warnings(record=True) as w_new:
        warnings.simplefilter("always")
        out_new = m_new.split_in_asymmetric_subunits(sym, s)
    assert m_new.df is df, "caller's table was rebound"
    pd.testing.assert_frame_equal(df, df0, check_exact=True)
    assert df.index.equals(df0.index) and same_arg(s, s0), "caller's inputs were modified"
    m_old = Motl(df)
    with warnings.catch_warnings(record=True) as w_old:
        warnings.simplefilter("always")
        out_old = orig_split_in_asymmetric_subunits(m_old, sym, s)
    pd.testing.assert_frame_equal(df, df0, check_exact=True)
    assert type(out_new) is Motl and type(out_old) is Motl
    pd.testing.assert_frame_equal(out_new.df, out_old.df, check_exact=True, check_dtype=True, check_index_type=True)
    assert type(out_new.df.index) is type(out_old.df.index)
    assert [str(x.message) for x in w_new] == [str(x.message) for x in w_old], "warnings differ"
    return out_new, out_old


count = 0

# (1) every n in 1..64, the three spellings, small lists of varying size, all offsets in turn
for n in range(1, 65):
    for j, sym in enumerate(("C%d" % n, "c%d" % n, n)):
        N = int(rng.integers(1, 7))
        df = make_df(
            N,
            kind="edge" if (n + j) % 3 == 0 else "random",
            ids="shuffled" if (n + j) % 2 else "sorted",
            index="odd" if (n + j) % 4 == 1 else "range",
        )
        s = OFFSETS[(n + j) % len(OFFSETS)]
        out, _ = run_both(df, sym, s)
        check_property(df, out.df, n, s, ("small", sym, N))
        count += 1

# (2) larger lists (up to the 100 particles of the quantifier) for n that do and do not divide 360
for N, n in ((100, 1), (100, 7), (57, 13), (100, 16), (31, 64), (64, 36)):
    df = make_df(N, ids="shuffled", index="odd" if n % 2 else "range")
    s = rng.uniform(-20, 20, 3)
    out, _ = run_both(df, "C%d" % n, s)
    check_property(df, out.df, n, s, ("large", n, N))
    count += 1

# (3) repeated calls on the same object: same answer every time, expanding an expansion works as on a fresh list
df = make_df(9, ids="shuffled")
m = Motl(df)
df0 = df.copy(deep=True)
first = m.split_in_asymmetric_subunits("C7", [5.0, 1.0, -2.0])
second = m.split_in_asymmetric_subunits("C7", [5.0, 1.0, -2.0])
third = m.split_in_asymmetric_subunits(11, [0.0, 0.0, 3.0])
pd.testing.assert_frame_equal(first.df, second.df, check_exact=True)
pd.testing.assert_frame_equal(m.df, df0, check_exact=True)
check_property(df0, first.df, 7, [5.0, 1.0, -2.0], "repeat-1")
check_property(df0, third.df, 11, [0.0, 0.0, 3.0], "repeat-3")
mid = first.df.copy(deep=True)
again, _ = run_both(first.df, "c5", np.array([2.0, 2.0, 1.0]))
check_property(mid, again.df, 5, [2.0, 2.0, 1.0], "expansion of an expansion")
count += 4

# (4) outside the property but the same code: dihedral spellings and integer-typed bookkeeping columns, compared
#     with the original copy only
for sym in ("D2", "d3", "D4", "D6"):
    run_both(make_df(5, ids="shuffled", index="odd"), sym, np.array([4.0, -1.0, 2.5]))
    count += 1
dfi = make_df(6)
dfi = dfi.astype({"tomo_id": int, "object_id": int, "class": int, "subtomo_id": int, "geom5": int})
out, _ = run_both(dfi, "C9", [1.0, 2.0, 3.0])
check_property(dfi, out.df, 9, [1.0, 2.0, 3.0], "int columns")
count += 1


# (5) update_coordinates on its own against the original copy and against an independent half-up rounding
def half_up(v):
    return np.floor(v + 0.5)


for N, kind, index in ((0, "random", "range"), (1, "edge", "range"), (40, "edge", "odd"), (60, "random", "odd")):
    df = make_df(N, kind=kind, index=index)
    if N >= 40:
        df = pd.concat([df, df.iloc[:3]])  # duplicated row labels
    df0 = df.copy(deep=True)
    a, b = Motl(df), Motl(df)
    a.update_coordinates()
    a.update_coordinates()  # second call: already centred, must be stable
    orig_update_coordinates(b)
    orig_update_coordinates(b)
    pd.testing.assert_frame_equal(a.df, b.df, check_exact=True, check_dtype=True)
    pd.testing.assert_frame_equal(df, df0, check_exact=True)
    once = Motl(df)
    once.update_coordinates()
    for c in "xyz":
        tot = (df0[c] + df0["shift_" + c]).to_numpy()
        # exact .5 cases of negative numbers round away from zero with ROUND_HALF_UP
        ref = np.where(tot >= 0, half_up(tot), -half_up(-tot))
        assert np.array_equal(once.df[c].to_numpy(), ref), ("update_coordinates", c)
        assert np.array_equal(once.df["shift_" + c].to_numpy(), tot - ref)
        assert (np.abs(once.df["shift_" + c].to_numpy()) <= 0.5).all()
    count += 1

print("checked", count, "cases")
print("PASS")
