"""C08 -- particle-list set algebra and identifier discipline.

Random histories (up to 10 operations) of subset / remove / split / intersection / drop-duplicates /
merge-and-renumber / merge-and-drop-duplicates / renumber particles / renumber objects on random particle lists
(0..200 rows, repeated ids, missing values, unsorted ids, shuffled column order, integer columns) are checked

  1. against a pure-Python row-set model (lists of dicts, no pandas),
  2. against the ORIGINAL text of the functions this change touches (kept below), called on deep copies of the same
     objects: values, dtypes, index, column order, result type and printed text have to be identical,
  3. for untouched caller inputs: every particle list that is not the target of an in-place operation is compared
     with a snapshot taken before the call.

Run:  cd /tmp/wt13/C08 && /venv/bin/python /tmp/seedsW/C08/b/demo.py
"""
import sys, os

sys.path.insert(0, os.getcwd())
import contextlib, copy, io, math, random, warnings

import numpy as np
import pandas as pd

from cryocat import cryomotl
from cryocat.cryomotl import Motl, EmMotl

COLS = list(Motl.motl_columns)
assert len(COLS) == 20

# ---------------------------------------------------------------------------------------------------------------
# original text of the functions the patch touches (HEAD b1093bd)
# ---------------------------------------------------------------------------------------------------------------
ORIG_SRC = '''
class _Orig:
    def get_motl_subset(self, feature_values, feature_id="tomo_id", return_df=False, reset_index=True):
        if isinstance(feature_values, (list, np.ndarray)):
            feature_values = np.atleast_1d(np.array(feature_values))  # a 0-d array is one value
        else:
            feature_values = np.array([feature_values])

        new_df = Motl.create_empty_motl_df()
        for i in feature_values:
            df_i = self.df.loc[self.df[feature_id] == i].copy()
            new_df = pd.concat([new_df, df_i])

        if reset_index:
            new_df = new_df.reset_index(drop=True)

        if return_df:
            return new_df
        else:
            return Motl(motl_df=new_df)

    def renumber_objects_sequentially(self, starting_number=1):
        start_number = starting_number

        def assign_new_object_id(group):
            # If there are duplicate 'object_id' values within the group, keep the first occurrence
            nonlocal start_number
            group["object_id"] = group["object_id"].factorize()[0] + start_number
            start_number = group["object_id"].max() + 1
            return group

        # Resetting the index before applying the function
        df_reset = self.df.reset_index(drop=True)

        # Apply the custom function to each group (explicit loop: groupby.apply drops the grouping column in pandas 3)
        renumbered = [assign_new_object_id(group.copy()) for _, group in df_reset.groupby("tomo_id")]
        self.df = pd.concat(renumbered).sort_index() if renumbered else df_reset

    @classmethod
    def merge_and_renumber(cls, motl_list):
        if not isinstance(motl_list, list) or len(motl_list) == 0:
            raise UserInputError(f"Input must be a list of em file paths, or Motl instances.")

        merged_df = cls.create_empty_motl_df()
        feature_add = 0

        if not isinstance(motl_list, list) or len(motl_list) == 0:
            raise UserInputError(
                f"You must provide a list of em file paths, or Motl instances. "
                f"Instead, an instance of {type(motl_list).__name__} was given."
            )

        for m in motl_list:
            if m is None:
                raise ValueError("Motl list cannot contain None values.")
            motl = cls.load(m)
            if not motl.df.empty:
                feature_min = min(motl.df.loc[:, "object_id"])
            else:
                print("Warning: Encountered an empty Motl DataFrame. Skipping.")
                continue

            if feature_min <= feature_add:
                motl.df.loc[:, "object_id"] = motl.df.loc[:, "object_id"] + (feature_add - feature_min + 1)

            merged_df = pd.concat([merged_df, motl.df])
            feature_add = max(motl.df.loc[:, "object_id"])

        merged_motl = cls(merged_df)
        merged_motl.renumber_particles()
        merged_motl.df.reset_index(inplace=True, drop=True)

        return merged_motl

    @classmethod
    def merge_and_drop_duplicates(cls, motl_list):
        merged_df = cls.create_empty_motl_df()
        feature_add = 0

        if not isinstance(motl_list, list) or len(motl_list) == 0:
            raise UserInputError(
                f"You must provide a list of em file paths, or Motl instances. "
                f"Instead, an instance of {type(motl_list).__name__} was given."
            )

        for m in motl_list:
            motl = cls.load(m)
            if motl.df.empty:
                print(f"Skipping empty Motl: {motl}")
                continue  # Skip empty motls
            feature_min = min(motl.df.loc[:, "object_id"])

            if feature_min <= feature_add:
                motl.df.loc[:, "object_id"] = motl.df.loc[:, "object_id"] + (feature_add - feature_min + 1)

            merged_df = pd.concat([merged_df, motl.df])
            feature_add = max(motl.df.loc[:, "object_id"])

        merged_motl = cls(merged_df)
        merged_motl.drop_duplicates()
        merged_motl.df.reset_index(inplace=True, drop=True)

        return merged_motl
'''
_ns = dict(vars(cryomotl))
exec(ORIG_SRC, _ns)
_Orig = _ns["_Orig"]


def orig_call(name, target, *args, **kw):
    """Call the original text: `target` is the instance (methods) or the class (classmethods)."""
    f = _Orig.__dict__[name]
    if isinstance(f, classmethod):
        return f.__func__(target, *args, **kw)
    return f(target, *args, **kw)


def tree_call(name, target, *args, **kw):
    return getattr(target, name)(*args, **kw)


# ---------------------------------------------------------------------------------------------------------------
# helpers
# ---------------------------------------------------------------------------------------------------------------
FAILS = []


def fail(msg):
    FAILS.append(msg)
    if len(FAILS) <= 15:
        print("FAIL:", msg)


def snapshot(m):
    df = m.df
    return (df.to_numpy(dtype=object, copy=True), list(df.columns), list(df.index), [str(t) for t in df.dtypes], type(m))


def same_snapshot(s1, s2):
    a, b = s1[0], s2[0]
    if a.shape != b.shape or s1[1:] != s2[1:]:
        return False
    for x, y in zip(a.ravel(), b.ravel()):
        if x is y:
            continue
        try:
            if x != y and not (x != x and y != y):
                return False
        except Exception:
            return False
        if type(x) is not type(y):
            return False
    return True


def rows_of(m):
    """Pure-Python view of the table: list of dicts, missing -> nan."""
    df = m.df
    out = []
    cols = list(df.columns)
    for rec in df.itertuples(index=False, name=None):
        out.append({c: float(v) for c, v in zip(cols, rec)})
    return out


def norm(v):
    # comparable spelling of a field value: all missing values are one and the same
    return "missing" if v != v else v


def key(r):
    return tuple(str(norm(r[c])) for c in COLS)


def rows_equal(r1, r2):
    return all(norm(r1[c]) == norm(r2[c]) for c in COLS)


def check_against_model(tag, m, model_rows):
    df = m.df
    if sorted(df.columns) != sorted(COLS) or len(df.columns) != 20:
        fail(f"{tag}: table does not have exactly the 20 fields: {list(df.columns)}")
        return
    got = rows_of(m)
    if len(got) != len(model_rows):
        fail(f"{tag}: {len(got)} rows, model has {len(model_rows)}")
        return
    for k, (g, e) in enumerate(zip(got, model_rows)):
        if not rows_equal(g, e):
            bad = [c for c in COLS if norm(g[c]) != norm(e[c])]
            fail(f"{tag}: row {k} differs from the model in {bad}: {[(g[c], e[c]) for c in bad]}")
            return


# ---------------------------------------------------------------------------------------------------------------
# the pure-Python row-set model
# ---------------------------------------------------------------------------------------------------------------
def cp(rows):
    return [dict(r) for r in rows]


def model_subset(rows, values, f):
    return [dict(r) for v in values for r in rows if r[f] == v]


def model_remove(rows, f, values):
    return [dict(r) for r in rows if not any(r[f] == v for v in values)]


def model_split(rows, f):
    seen = []
    for r in rows:
        if r[f] not in seen:
            seen.append(r[f])
    return seen, [[dict(r) for r in rows if r[f] == v] for v in seen]


def model_intersection(rows1, rows2, f):
    ids = {r[f] for r in rows2}
    return [dict(r) for r in rows1 if r[f] in ids]


def model_drop_duplicates(rows, key="subtomo_id", dec="score", asc=False):
    best = {}
    for r in rows:  # first best-scoring row per id wins (stable sort)
        k = r[key]
        if k not in best:
            best[k] = r
        else:
            b = best[k]
            if (r[dec] < b[dec]) if asc else (r[dec] > b[dec]):
                best[k] = r
    return [dict(best[k]) for k in sorted(best)]


def model_merge(list_of_rows):
    out, add = [], 0
    for rows in list_of_rows:
        if not rows:
            continue
        rows = cp(rows)
        fmin = min(r["object_id"] for r in rows)
        if fmin <= add:
            for r in rows:
                r["object_id"] = r["object_id"] + (add - fmin + 1)
        out.extend(rows)
        add = max(r["object_id"] for r in rows)
    return out


def model_fill(rows):
    """What every loader of the toolkit does with a table it takes in (EmMotl(df), Motl.load(df)): missing -> 0.0."""
    return [{c: (0.0 if v != v else v) for c, v in r.items()} for r in rows]


def model_renumber_particles(rows):
    rows = cp(rows)
    for k, r in enumerate(rows):
        r["subtomo_id"] = float(k + 1)
    return rows


def model_renumber_objects(rows, start=1):
    rows = cp(rows)
    nxt = start
    for t in sorted({r["tomo_id"] for r in rows}):
        seen = {}
        for r in rows:
            if r["tomo_id"] == t:
                if r["object_id"] not in seen:
                    seen[r["object_id"]] = nxt + len(seen)
                r["object_id"] = float(seen[r["object_id"]])
        nxt = nxt + len(seen)
    return rows


# ---------------------------------------------------------------------------------------------------------------
# random particle lists
# ---------------------------------------------------------------------------------------------------------------
UID = [0]


def random_motl(rng, n=None, kind=None):
    if n is None:
        n = rng.choice([0, 0, 1, 2, 3, 5, 8, 13, 30, 60, 120, 200])
    ntomo = rng.choice([1, 2, 3, 6])
    tomos = rng.sample(range(1, 40), ntomo)
    nobj = rng.choice([1, 2, 4, 9])
    obj_lo = rng.choice([0, 1, 1, 5, 17])
    data = {c: [0.0] * n for c in COLS}
    ids = list(range(1, n + 1))
    mode = rng.choice(["unique", "dups", "gaps"])
    if mode == "dups" and n:
        ids = [rng.randint(1, max(1, n // 2)) for _ in range(n)]
    elif mode == "gaps":
        ids = rng.sample(range(1, 3 * n + 2), n)
    rng.shuffle(ids)
    for k in range(n):
        data["subtomo_id"][k] = float(ids[k])
        data["tomo_id"][k] = float(rng.choice(tomos))
        data["object_id"][k] = float(obj_lo + rng.randrange(nobj))
        data["score"][k] = rng.choice([0.1, 0.25, 0.5, 0.5, 0.75, round(rng.random(), 3)])
        data["class"][k] = float(rng.choice([1, 1, 2, 3]))
        data["geom1"][k] = rng.choice([1.0, 2.0, 2.0, 7.0])
        data["geom2"][k] = rng.choice([float("nan"), 0.0, 1.0, 4.0])  # missing values in a feature column
        data["geom3"][k] = rng.choice([float("nan"), 0.5])  # missing values elsewhere
        UID[0] += 1
        data["geom5"][k] = float(UID[0])  # never touched by any operation: identifies the row
        for c in ("x", "y", "z"):
            data[c][k] = float(rng.randint(1, 500))
        for c in ("shift_x", "shift_y", "shift_z"):
            data[c][k] = round(rng.uniform(-1, 1), 3)
        for c in ("phi", "theta", "psi"):
            data[c][k] = round(rng.uniform(-180, 180), 2)
    cols = list(COLS)
    if rng.random() < 0.3:
        rng.shuffle(cols)  # same 20 fields, other column order
    df = pd.DataFrame({c: data[c] for c in cols}, dtype=float)
    if rng.random() < 0.3:
        for c in rng.sample(["tomo_id", "object_id", "subtomo_id", "class"], 2):
            df[c] = df[c].astype("int64")  # integer id columns (narrower types are refused by renumber_particles)
    if rng.random() < 0.25 and n:
        df.index = rng.sample(range(0, 5 * n + 5), n)  # unsorted, non-contiguous row labels
    if kind is None:
        kind = rng.choice(["Motl", "EmMotl"])
    return Motl(df) if kind == "Motl" else EmMotl(df)


def pick_values(rng, rows, f):
    present = sorted({r[f] for r in rows if r[f] == r[f]})
    pool = present + [-3.0, 999.0]  # values without any hit
    k = rng.choice([0, 1, 1, 2, 3, 5])
    vals = [rng.choice(pool) for _ in range(k)]  # with repetition, unsorted, hits after misses and vice versa
    return vals


def as_arg(rng, vals):
    """The same request in the spellings callers use."""
    if len(vals) == 1 and rng.random() < 0.5:
        return rng.choice([vals[0], int(vals[0]), np.float64(vals[0]), np.array(vals[0])])
    return rng.choice([list(vals), np.array(vals, dtype=float), [int(v) for v in vals]])


# ---------------------------------------------------------------------------------------------------------------
# one operation = tree call on the live objects + original text on deep copies + model
# ---------------------------------------------------------------------------------------------------------------
def quiet(fn, *a, **k):
    buf = io.StringIO()
    with contextlib.redirect_stdout(buf), warnings.catch_warnings():
        warnings.simplefilter("ignore")
        try:
            res = fn(*a, **k)
            err = None
        except Exception as e:  # noqa
            res, err = None, (type(e).__name__, str(e))
    return res, err, buf.getvalue()


def must(tag, r):
    if r[1]:
        fail(f"{tag}: raised {r[1]}")
    return r


def compare_results(tag, r_tree, r_orig):
    (a, ea, ta), (b, eb, tb) = r_tree, r_orig
    if ea != eb:
        fail(f"{tag}: tree raised {ea}, original text raised {eb}")
        return False
    if ta != tb:
        fail(f"{tag}: printed text differs: {ta!r} vs {tb!r}")
    if ea is not None:
        return False

    def flat(x):
        if isinstance(x, (list, tuple)):
            return [y for e in x for y in flat(e)]
        return [x]

    fa, fb = flat(a), flat(b)
    if len(fa) != len(fb):
        fail(f"{tag}: result shapes differ")
        return True
    for x, y in zip(fa, fb):
        if isinstance(x, Motl) or isinstance(y, Motl):
            if not (isinstance(x, Motl) and isinstance(y, Motl)) or not same_snapshot(snapshot(x), snapshot(y)):
                fail(f"{tag}: result differs from the original function's result")
        elif isinstance(x, pd.DataFrame):
            if not same_snapshot(snapshot(Motl(x)), snapshot(Motl(y))):
                fail(f"{tag}: returned DataFrame differs from the original function's")
        elif x is not None or y is not None:
            if x != y:
                fail(f"{tag}: {x!r} vs {y!r}")
    return True


PATCHED = ("get_motl_subset", "renumber_objects_sequentially", "merge_and_renumber", "merge_and_drop_duplicates")
COUNT = {}


def run_history(rng, hid):
    pool = [random_motl(rng) for _ in range(rng.choice([2, 3, 4]))]
    models = [rows_of(m) for m in pool]
    cur = 0
    for step in range(rng.randint(1, 10)):
        op = rng.choice(
            ["subset", "subset", "remove", "split", "intersection", "drop_duplicates", "merge_and_renumber",
             "merge_and_renumber", "merge_and_drop_duplicates", "renumber_particles", "renumber_objects",
             "renumber_objects", "switch"]
        )
        tag = f"history {hid} step {step} {op}"
        COUNT[op] = COUNT.get(op, 0) + 1
        before = [snapshot(m) for m in pool]
        twins = [copy.deepcopy(m) for m in pool]  # the original text works on these
        m, rows = pool[cur], models[cur]
        inplace_target = None

        if op == "switch":
            cur = rng.randrange(len(pool))
            continue

        elif op == "subset":
            f = rng.choice(["tomo_id", "tomo_id", "object_id", "class", "geom1", "geom2", "subtomo_id"])
            vals = pick_values(rng, rows, f)
            arg = as_arg(rng, vals) if vals else rng.choice([[], np.array([])])
            reset = rng.random() < 0.7
            as_df = rng.random() < 0.3
            kw = dict(feature_id=f, return_df=as_df, reset_index=reset)
            rt = quiet(tree_call, "get_motl_subset", m, copy.deepcopy(arg), **kw)
            ro = quiet(orig_call, "get_motl_subset", twins[cur], copy.deepcopy(arg), **kw)
            if compare_results(tag, rt, ro):
                res = rt[0]
                sub = Motl(res) if as_df else res
                if type(sub) is not Motl:
                    fail(f"{tag}: result type {type(sub)}")
                exp = model_subset(rows, vals, f)
                check_against_model(tag, sub, exp)
                if list(sub.df.columns) != COLS:
                    fail(f"{tag}: column order of a subset is not the canonical one")
                if reset and list(sub.df.index) != list(range(len(exp))):
                    fail(f"{tag}: index not reset")
                # repeated call on the same object gives the same answer
                rt2 = quiet(tree_call, "get_motl_subset", m, copy.deepcopy(arg), **kw)
                compare_results(tag + " (repeated)", rt2, rt)
                # complementarity of selection and removal
                comp = copy.deepcopy(m)
                quiet(comp.remove_feature, f, list(vals))
                uniq = [v for k, v in enumerate(vals) if v not in vals[:k]]
                both = [key(r) for r in rows_of(comp)] + [key(r) for r in model_subset(rows, uniq, f)]
                if sorted(both) != sorted(key(r) for r in rows):
                    fail(f"{tag}: removal and selection are not complementary")
                if not as_df and rng.random() < 0.5:
                    pool.append(sub)
                    models.append(exp)
                    cur = len(pool) - 1
                elif len(sub.df):
                    # the result is the caller's own table: writing into it must not reach the source list
                    # (checked by the snapshot comparison at the end of the step)
                    sub.df.loc[:, "x"] = -5.0
                    sub.df.iloc[0, :] = 77.0
                    sub.df["score"] = 9.0

        elif op == "remove":
            f = rng.choice(["tomo_id", "object_id", "class", "geom1", "geom2"])
            vals = pick_values(rng, rows, f)
            arg = as_arg(rng, vals) if vals else []
            if isinstance(arg, np.ndarray) and arg.ndim == 0:
                arg = float(arg)
            must(tag, quiet(m.remove_feature, f, arg))
            inplace_target = cur
            models[cur] = model_remove(rows, f, vals)
            check_against_model(tag, m, models[cur])

        elif op == "split":
            f = rng.choice(["tomo_id", "object_id", "class", "geom1"])
            (parts, err, _) = quiet(m.split_by_feature, f)
            if err:
                fail(f"{tag}: raised {err}")
                continue
            vals, exp_parts = model_split(rows, f)
            if len(parts) != len(exp_parts):
                fail(f"{tag}: {len(parts)} parts, model {len(exp_parts)}")
                continue
            for p, e in zip(parts, exp_parts):
                check_against_model(tag, p, e)
            allu = sorted(key(r) for p in parts for r in rows_of(p))
            if allu != sorted(key(r) for r in rows):
                fail(f"{tag}: split is not a partition")
            if parts and rng.random() < 0.6:
                k = rng.randrange(len(parts))
                pool.append(parts[k])
                models.append(exp_parts[k])
                cur = len(pool) - 1

        elif op == "intersection":
            j = rng.randrange(len(pool))
            f = rng.choice(["subtomo_id", "subtomo_id", "tomo_id", "object_id"])
            cls = rng.choice([Motl, EmMotl])
            (res, err, _) = quiet(cls.get_motl_intersection, m, pool[j], f)
            if err:
                fail(f"{tag}: raised {err}")
                continue
            exp = model_intersection(model_fill(rows), models[j], f)  # the first list goes through the loader
            check_against_model(tag, res, exp)
            pool.append(res)
            models.append(exp)
            cur = len(pool) - 1

        elif op == "drop_duplicates":
            must(tag, quiet(m.drop_duplicates))
            inplace_target = cur
            models[cur] = model_drop_duplicates(rows)
            check_against_model(tag, m, models[cur])
            ids = [r["subtomo_id"] for r in rows_of(m)]
            if len(ids) != len(set(ids)) or set(ids) != {r["subtomo_id"] for r in rows}:
                fail(f"{tag}: not exactly one row per id")
            for r in rows_of(m):
                if r["score"] != max(q["score"] for q in rows if q["subtomo_id"] == r["subtomo_id"]):
                    fail(f"{tag}: kept row is not best scoring")
                    break

        elif op in ("merge_and_renumber", "merge_and_drop_duplicates"):
            k = rng.choice([1, 2, 2, 3, 4])
            idx = [cur] + [rng.randrange(len(pool)) for _ in range(k - 1)]  # the same list may occur twice
            rng.shuffle(idx)
            if rng.random() < 0.25:
                pool.append(random_motl(rng, n=0))  # an empty list in between
                models.append([])
                before.append(snapshot(pool[-1]))
                twins.append(copy.deepcopy(pool[-1]))
                idx.insert(rng.randrange(len(idx) + 1), len(pool) - 1)
            cls = rng.choice([Motl, EmMotl])
            rt = quiet(tree_call, op, cls, [pool[i] for i in idx])
            ro = quiet(orig_call, op, cls, [twins[i] for i in idx])
            if not compare_results(tag, rt, ro):
                if rt[1]:
                    fail(f"{tag}: raised {rt[1]}")
                continue
            res = rt[0]
            if type(res) is not cls:
                fail(f"{tag}: result is a {type(res).__name__}, asked for {cls.__name__}")
            merged = model_merge([models[i] for i in idx])
            if cls is EmMotl:
                merged = model_fill(merged)  # EmMotl(table) is a loader
            if op == "merge_and_renumber":
                exp = model_renumber_particles(merged)
                check_against_model(tag, res, exp)
                got = rows_of(res)
                if [r["subtomo_id"] for r in got] != [float(q) for q in range(1, len(got) + 1)]:
                    fail(f"{tag}: subtomogram numbers are not 1..N")
                if list(res.df.index) != list(range(len(got))):
                    fail(f"{tag}: index is not 0..N-1")
                # object numbers never collide across inputs, grouping inside each input is kept
                pos, seen_before = 0, set()
                for i in idx:
                    src = models[i]
                    part = got[pos : pos + len(src)]
                    pos += len(src)
                    new = {r["object_id"] for r in part}
                    if new & seen_before:
                        fail(f"{tag}: object numbers collide across inputs")
                    seen_before |= new
                    fwd = {}
                    for s, r in zip(src, part):
                        if fwd.setdefault(s["object_id"], r["object_id"]) != r["object_id"]:
                            fail(f"{tag}: an input's object was torn apart")
                    if len(set(fwd.values())) != len(fwd):
                        fail(f"{tag}: two objects of one input were fused")
            else:
                exp = model_drop_duplicates(merged)
                check_against_model(tag, res, exp)
            pool.append(res)
            models.append(exp)
            cur = len(pool) - 1

        elif op == "renumber_particles":
            must(tag, quiet(m.renumber_particles))
            inplace_target = cur
            models[cur] = model_renumber_particles(rows)
            check_against_model(tag, m, models[cur])

        elif op == "renumber_objects":
            start = rng.choice([1, 1, 1, 0, 5, 100])
            args = () if start == 1 and rng.random() < 0.5 else (start,)
            rt = quiet(tree_call, "renumber_objects_sequentially", m, *args)
            ro = quiet(orig_call, "renumber_objects_sequentially", twins[cur], *args)
            inplace_target = cur
            if rt[1] != ro[1] or rt[2] != ro[2]:
                fail(f"{tag}: tree {rt[1:]} vs original text {ro[1:]}")
            if rt[1]:
                fail(f"{tag}: raised {rt[1]}")
                continue
            if not same_snapshot(snapshot(m), snapshot(twins[cur])):
                fail(f"{tag}: table differs from what the original function leaves behind")
            models[cur] = model_renumber_objects(rows, start)
            check_against_model(tag, m, models[cur])
            got = rows_of(m)
            # (tomogram, object) grouping kept, numbers consecutive from `start`
            fwd, back = {}, {}
            for s, r in zip(rows, got):
                a, b = (s["tomo_id"], s["object_id"]), r["object_id"]
                if fwd.setdefault(a, b) != b or back.setdefault(b, a) != a:
                    fail(f"{tag}: (tomogram, object) grouping not kept")
                    break
            if got and sorted(back) != [float(q) for q in range(start, start + len(back))]:
                fail(f"{tag}: object numbers not consecutive")
            # repeated call: already sequential numbers stay as they are
            again = copy.deepcopy(m)
            quiet(again.renumber_objects_sequentially, *args)
            if not same_snapshot(snapshot(again), snapshot(m)):
                fail(f"{tag}: second renumbering changed the table")

        # caller's inputs: everything except the target of an in-place operation is as before
        for i, s in enumerate(before):
            if i == inplace_target:
                continue
            if not same_snapshot(s, snapshot(pool[i])):
                fail(f"{tag}: particle list {i} was changed by the call")
        if len(FAILS) > 40:
            return


def fixed_cases():
    """Edge cases spelled out: empty groups, a group without hits after one with hits, repeated calls."""
    rng = random.Random(5)
    m = random_motl(rng, n=40, kind="Motl")
    rows = rows_of(m)
    tomos = sorted({r["tomo_id"] for r in rows})
    for vals in ([], [tomos[0]], [tomos[0], 999.0], [999.0, tomos[0]], [999.0], [tomos[-1], tomos[0], tomos[-1]],
                 [999.0, -1.0]):
        for reset in (True, False):
            tag = f"fixed subset {vals} reset={reset}"
            snap = snapshot(m)
            rt = quiet(tree_call, "get_motl_subset", m, list(vals), reset_index=reset)
            ro = quiet(orig_call, "get_motl_subset", copy.deepcopy(m), list(vals), reset_index=reset)
            if compare_results(tag, rt, ro):
                check_against_model(tag, rt[0], model_subset(rows, vals, "tomo_id"))
            if not same_snapshot(snap, snapshot(m)):
                fail(f"{tag}: input changed")
    # empty list, list with one tomogram, one object, start numbers
    for n in (0, 1, 2, 7):
        for kind in ("Motl", "EmMotl"):
            for start in (1, 0, 12):
                mm = random_motl(rng, n=n, kind=kind)
                tw = copy.deepcopy(mm)
                rr = rows_of(mm)
                rt = quiet(tree_call, "renumber_objects_sequentially", mm, start)
                ro = quiet(orig_call, "renumber_objects_sequentially", tw, start)
                tag = f"fixed renumber objects n={n} {kind} start={start}"
                if rt[1:] != ro[1:] or not same_snapshot(snapshot(mm), snapshot(tw)):
                    fail(f"{tag}: differs from the original function")
                check_against_model(tag, mm, model_renumber_objects(rr, start))
    # merges: only empty lists, empty first / last / in the middle, the same object twice, bad arguments
    e1, e2 = random_motl(rng, n=0, kind="Motl"), random_motl(rng, n=0, kind="EmMotl")
    a, b = random_motl(rng, n=9, kind="Motl"), random_motl(rng, n=4, kind="EmMotl")
    for name in ("merge_and_renumber", "merge_and_drop_duplicates"):
        for cls in (Motl, EmMotl):
            for lst in ([e1], [e1, e2], [e1, a], [a, e1], [a, e2, b], [a, a], [b, a, b], [a], [a.df, b.df]):
                tag = f"fixed {name} {cls.__name__} sizes {[len(getattr(x, 'df', x)) for x in lst]}"
                snaps = [snapshot(x) if isinstance(x, Motl) else snapshot(Motl(x)) for x in lst]
                rt = quiet(tree_call, name, cls, list(lst))
                ro = quiet(orig_call, name, cls, copy.deepcopy(lst))
                if compare_results(tag, rt, ro):
                    merged = model_merge(
                        [rows_of(x) if isinstance(x, Motl) else model_fill(rows_of(Motl(x))) for x in lst]
                    )
                    if cls is EmMotl:
                        merged = model_fill(merged)
                    exp = model_renumber_particles(merged) if name == "merge_and_renumber" else model_drop_duplicates(merged)
                    check_against_model(tag, rt[0], exp)
                elif rt[1]:
                    fail(f"{tag}: raised {rt[1]}")
                for x, s in zip(lst, snaps):
                    if not same_snapshot(s, snapshot(x if isinstance(x, Motl) else Motl(x))):
                        fail(f"{tag}: input changed")
        # the other list flavours build on the same classmethods: same outcome (or same error) as the original text
        for cls in (cryomotl.RelionMotl, cryomotl.StopgapMotl, cryomotl.DynamoMotl):
            for lst in ([a, b], [e1, a, a], [e1]):
                tag = f"fixed {name} {cls.__name__} sizes {[len(x.df) for x in lst]}"
                rt = quiet(tree_call, name, cls, list(lst))
                ro = quiet(orig_call, name, cls, copy.deepcopy(lst))
                if compare_results(tag, rt, ro) and type(rt[0]) is not cls:
                    fail(f"{tag}: result type")
        for cls in (Motl, EmMotl):
            for bad in ([], None, "x.em", (a, b), [a, None], [None]):  # the last two: only "same as before" is asked
                tag = f"fixed {name} {cls.__name__} bad argument {bad!r:.30}"
                rt = quiet(tree_call, name, cls, bad)
                ro = quiet(orig_call, name, cls, copy.deepcopy(bad))
                if rt[1] != ro[1] or rt[2] != ro[2]:
                    fail(f"{tag}: tree {rt[1:]} vs original {ro[1:]}")
                if rt[1] is None and not isinstance(bad, list):
                    fail(f"{tag}: accepted")


def main():
    fixed_cases()
    n_hist = 400
    for hid in range(n_hist):
        run_history(random.Random(1000 + hid), hid)
        if len(FAILS) > 40:
            break
    print("operations exercised:", dict(sorted(COUNT.items())))
    if FAILS:
        print(f"{len(FAILS)} failures")
        print("FAIL")
        sys.exit(1)
    print(f"{n_hist} histories, fixed edge cases: model, original function text and untouched inputs all agree")
    print("PASS")


if __name__ == "__main__":
    main()
