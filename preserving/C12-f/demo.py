import sys, os

sys.path.insert(0, os.getcwd())

import io
import contextlib
import tempfile
import itertools
import numpy as np
from numpy import fft
from scipy import ndimage

from cryocat import cryomap, cryomask

assert os.path.abspath(cryomap.__file__).startswith(os.getcwd()), cryomap.__file__

# bandpass writes "band.em" into the current directory -> work in a scratch directory
_tmp = tempfile.TemporaryDirectory()
os.chdir(_tmp.name)

CHANGE = "c"  # which change this demo accompanies (a: helpers extracted, b: signature, c: memoised distance grid)

# ----------------------------------------------------------------------------------------------------------------
# copies of the ORIGINAL function texts (unmodified tree), bound to the package's read/write and helpers
# ----------------------------------------------------------------------------------------------------------------
read = cryomap.read
write = cryomap.write


def orig_pixels2resolution(fourier_pixels, edge_size, pixel_size, print_out=True):
    res = edge_size * pixel_size / fourier_pixels

    if print_out:
        print(f"The target resolution is {res} Angstroms.")

    return res


def orig_resolution2pixels(resolution, edge_size, pixel_size, print_out=True):
    pixels = round(edge_size * pixel_size / resolution)

    if print_out:
        print(f"The target resolution corresponds to {pixels} pixels.")

    return pixels


def orig_get_filter_radius(edge_size, fourier_pixels, target_resolution, pixel_size):
    if fourier_pixels is not None:
        radius = fourier_pixels
        if pixel_size is not None:
            _ = orig_pixels2resolution(fourier_pixels=fourier_pixels, edge_size=edge_size, pixel_size=pixel_size)
    elif target_resolution is not None and pixel_size is not None:
        radius = orig_resolution2pixels(target_resolution, edge_size=edge_size, pixel_size=pixel_size)
    else:
        raise ValueError(
            "Either target_voxels or target_resolution in combination with pixel_size have to be specified!"
        )

    return radius


def orig_spherical_mask(mask_size, radius=None, center=None, gaussian=0.0, gaussian_outwards=True, output_name=None):
    mask_size = cryomask.get_correct_format(mask_size)
    center = cryomask.get_correct_format(center, reference_size=mask_size)

    if radius is None:
        radius = np.amin(mask_size) // 2

    radius = cryomask.preprocess_params(radius, gaussian, gaussian_outwards)

    x, y, z = np.mgrid[0 : mask_size[0] : 1, 0 : mask_size[1] : 1, 0 : mask_size[2] : 1]
    mask = np.sqrt((x - center[0]) ** 2 + (y - center[1]) ** 2 + (z - center[2]) ** 2)
    mask[mask > radius] = 0
    mask[mask > 0] = 1
    if radius >= 0:
        mask[center[0], center[1], center[2]] = 1

    mask = cryomask.postprocess(mask, gaussian, np.asarray([0, 0, 0]), output_name)

    return mask


def orig_bandpass(
    input_map,
    lp_fourier_pixels=None,
    lp_target_resolution=None,
    hp_fourier_pixels=None,
    hp_target_resolution=None,
    pixel_size=None,
    lp_gaussian=3,
    hp_gaussian=2,
    output_name=None,
):
    input_map = read(input_map)
    lp_radius = orig_get_filter_radius(
        input_map.shape[0],
        fourier_pixels=lp_fourier_pixels,
        target_resolution=lp_target_resolution,
        pixel_size=pixel_size,
    )

    hp_radius = orig_get_filter_radius(
        input_map.shape[0],
        fourier_pixels=hp_fourier_pixels,
        target_resolution=hp_target_resolution,
        pixel_size=pixel_size,
    )
    outer_mask = orig_spherical_mask(input_map.shape, lp_radius, gaussian=lp_gaussian, gaussian_outwards=False)
    inner_mask = orig_spherical_mask(input_map.shape, hp_radius, gaussian=hp_gaussian, gaussian_outwards=False)
    band_mask = fft.ifftshift(outer_mask - inner_mask)
    write(outer_mask - inner_mask, "band.em", data_type=np.single)
    bandpass_filtered = np.real(fft.ifftn(fft.fftn(input_map) * band_mask))

    if output_name is not None:
        write(bandpass_filtered, output_name, data_type=np.single)

    return bandpass_filtered


def orig_lowpass(input_map, fourier_pixels=None, target_resolution=None, pixel_size=None, gaussian=3, output_name=None):
    input_map = read(input_map)
    radius = orig_get_filter_radius(
        input_map.shape[0], fourier_pixels=fourier_pixels, target_resolution=target_resolution, pixel_size=pixel_size
    )

    lowpass_filter = fft.ifftshift(
        orig_spherical_mask(input_map.shape, radius, gaussian=gaussian, gaussian_outwards=False)
    )
    filtered_map = np.real(fft.ifftn(fft.fftn(input_map) * lowpass_filter))

    if output_name is not None:
        write(filtered_map, output_name, data_type=np.single)

    return filtered_map


def orig_highpass(input_map, fourier_pixels=None, target_resolution=None, pixel_size=None, gaussian=2, output_name=None):
    input_map = read(input_map)
    radius = orig_get_filter_radius(
        input_map.shape[0], fourier_pixels=fourier_pixels, target_resolution=target_resolution, pixel_size=pixel_size
    )

    highpass_filter = fft.ifftshift(
        np.ones(input_map.shape)
        - orig_spherical_mask(input_map.shape, radius, gaussian=gaussian, gaussian_outwards=False)
    )

    filtered_map = np.real(fft.ifftn(fft.fftn(input_map) * highpass_filter))

    if output_name is not None:
        write(filtered_map, output_name, data_type=np.single)

    return filtered_map


# ----------------------------------------------------------------------------------------------------------------
# INDEPENDENT model of the documented gains (no cryocat code)
# ----------------------------------------------------------------------------------------------------------------
def freq_radius(shape):
    """Integer-frequency radius of every DFT component, in fft (unshifted) index order."""
    axes = [np.rint(fft.fftfreq(n) * n) for n in shape]
    g = np.meshgrid(*axes, indexing="ij")
    return np.sqrt(sum(a**2 for a in g))


def model_lowpass_gain(shape, cutoff, sigma):
    """Gain in fft index order: hard ball in the centered frequency box, blurred with a Gaussian (edge replicated)."""
    cen = [np.arange(n) - n // 2 for n in shape]
    g = np.meshgrid(*cen, indexing="ij")
    hard = (np.sqrt(sum(a.astype(float) ** 2 for a in g)) <= cutoff).astype(float)
    if sigma != 0:
        hard = ndimage.gaussian_filter(hard, sigma=sigma, mode="nearest", truncate=4.0)
    return fft.ifftshift(hard)


def model_filter(x, gain):
    return np.real(fft.ifftn(fft.fftn(x) * gain))


failures = []
n_checks = 0


def check(cond, msg):
    global n_checks
    n_checks += 1
    if not cond:
        failures.append(msg)
        if len(failures) <= 20:
            print("FAIL:", msg)


def quiet(fn, *args, **kwargs):
    """Call with stdout captured; returns (result, printed text)."""
    buf = io.StringIO()
    with contextlib.redirect_stdout(buf):
        res = fn(*args, **kwargs)
    return res, buf.getvalue()


def same(a, b):
    return a.shape == b.shape and a.dtype == b.dtype and np.array_equal(a, b)


rng = np.random.default_rng(20260928)

SHAPES = [(8, 8, 8), (9, 9, 9), (12, 12, 12), (16, 16, 16), (21, 21, 21), (32, 32, 32), (48, 48, 48),
          (8, 12, 10), (16, 9, 13), (24, 16, 20), (10, 30, 48), (33, 17, 8)]
SIGMAS = [0, 1, 2, 3, 4, 0.5, 2.5]


def cutoffs_for(shape):
    half = shape[0] // 2
    c = sorted({1, 2, max(1, half // 2), max(1, half - 1), half})
    return c


# ----------------------------------------------------------------------------------------------------------------
# 1. gains measured with an impulse, compared with the independent model; structural properties of the gain
# ----------------------------------------------------------------------------------------------------------------
def measured_gain(fn, shape, **kw):
    delta = np.zeros(shape)
    delta[0, 0, 0] = 1.0
    out, _ = quiet(fn, delta, **kw)
    check(np.isrealobj(out) and out.shape == tuple(shape), f"real output of input shape {shape} {kw}")
    return fft.fftn(out)


for shape in SHAPES:
    R = freq_radius(shape)
    for cutoff in cutoffs_for(shape):
        for sigma in SIGMAS:
            tag = f"shape={shape} cutoff={cutoff} sigma={sigma}"
            G = measured_gain(cryomap.lowpass, shape, fourier_pixels=cutoff, gaussian=sigma)
            H = measured_gain(cryomap.highpass, shape, fourier_pixels=cutoff, gaussian=sigma)
            M = model_lowpass_gain(shape, cutoff, sigma)
            # effective gain on real maps: hermitian part of the (real) gain
            Mneg = np.roll(M[::-1, ::-1, ::-1], 1, axis=(0, 1, 2))
            Meff = 0.5 * (M + Mneg)
            check(np.allclose(G, Meff, atol=1e-10), "lowpass gain equals model " + tag)
            check(np.allclose(H, 1.0 - Meff, atol=1e-10), "highpass is complement " + tag)
            check(np.allclose(G + H, 1.0, atol=1e-10), "lowpass + highpass = identity " + tag)
            check(np.abs(G.imag).max() < 1e-10, "gain is real " + tag)
            Gr = G.real
            check(Gr.min() > -1e-10 and Gr.max() < 1 + 1e-10, "gain in [0,1] " + tag)
            if sigma == 0:
                check(np.array_equal(np.round(Gr, 9), (R <= cutoff).astype(float)), "hard cutoff exactly at radius " + tag)
            else:
                inside = R < cutoff - 4 * sigma - 1
                outside = R > cutoff + 4 * sigma + 1
                # the separable Gaussian is truncated at 4 sigma per axis -> the tails are < 2e-4, not exactly 0
                check(np.allclose(Gr[inside], 1.0, atol=2e-4), "gain 1 inside soft edge " + tag)
                check(np.allclose(Gr[outside], 0.0, atol=2e-5), "gain 0 outside soft edge " + tag)
                cheb = np.max(np.abs(np.stack(np.meshgrid(*[np.rint(fft.fftfreq(n) * n) for n in shape], indexing="ij"))), axis=0)
                check(np.allclose(Gr[cheb > cutoff + int(4 * sigma + 0.5) + 1], 0.0, atol=1e-12), "gain exactly 0 beyond the kernel support " + tag)
                # non-increasing along every frequency axis from the origin outwards
                for ax in range(3):
                    idx = [0, 0, 0]
                    line = []
                    for k in range(0, (shape[ax] - 1) // 2 + 1):
                        idx[ax] = k
                        line.append(Gr[tuple(idx)])
                    check(np.all(np.diff(line) <= 1e-10), f"gain non-increasing along axis {ax} " + tag)

# ----------------------------------------------------------------------------------------------------------------
# 2. random fields: package vs. independent model vs. original function text; linearity; shift commutation;
#    band-pass = difference of its low-passes; second and third call after the input was edited in place
# ----------------------------------------------------------------------------------------------------------------
for shape in SHAPES:
    x = rng.normal(size=shape)
    y = rng.normal(size=shape)
    for cutoff in cutoffs_for(shape)[::2]:
        for sigma in [0, 1, 3, 4]:
            tag = f"shape={shape} cutoff={cutoff} sigma={sigma}"
            kw = dict(fourier_pixels=cutoff, gaussian=sigma)
            M = model_lowpass_gain(shape, cutoff, sigma)
            x_before = x.copy()
            lp, _ = quiet(cryomap.lowpass, x, **kw)
            hp, _ = quiet(cryomap.highpass, x, **kw)
            check(np.array_equal(x, x_before), "input not modified " + tag)
            check(np.allclose(lp, model_filter(x, M), atol=1e-9), "lowpass equals model on random field " + tag)
            check(np.allclose(hp, model_filter(x, 1 - M), atol=1e-9), "highpass equals model on random field " + tag)
            check(np.allclose(lp + hp, x, atol=1e-9), "lowpass + highpass = input " + tag)
            check(same(lp, orig_lowpass(x, **kw)), "lowpass identical to original text " + tag)
            check(same(hp, orig_highpass(x, **kw)), "highpass identical to original text " + tag)
            # linearity
            a, b = rng.normal(size=2)
            lpy, _ = quiet(cryomap.lowpass, y, **kw)
            lpc, _ = quiet(cryomap.lowpass, a * x + b * y, **kw)
            check(np.allclose(lpc, a * lp + b * lpy, atol=1e-9), "lowpass linear " + tag)
            hpy, _ = quiet(cryomap.highpass, y, **kw)
            hpc, _ = quiet(cryomap.highpass, a * x + b * y, **kw)
            check(np.allclose(hpc, a * hp + b * hpy, atol=1e-9), "highpass linear " + tag)
            # circular shifts
            sh = tuple(int(rng.integers(0, n)) for n in shape)
            lps, _ = quiet(cryomap.lowpass, np.roll(x, sh, axis=(0, 1, 2)), **kw)
            check(np.allclose(lps, np.roll(lp, sh, axis=(0, 1, 2)), atol=1e-9), "lowpass commutes with shift " + tag)
            hps, _ = quiet(cryomap.highpass, np.roll(x, sh, axis=(0, 1, 2)), **kw)
            check(np.allclose(hps, np.roll(hp, sh, axis=(0, 1, 2)), atol=1e-9), "highpass commutes with shift " + tag)
            # repeated calls, then in-place edit of the input and of a previous OUTPUT, then again
            lp2, _ = quiet(cryomap.lowpass, x, **kw)
            check(same(lp, lp2), "second call identical " + tag)
            lp2[...] = -7.0  # editing a returned array must not influence later calls
            x[0, 0, 0] += 1.5
            x[-1, 1, 2] -= 0.25
            lp3, _ = quiet(cryomap.lowpass, x, **kw)
            check(same(lp3, orig_lowpass(x, **kw)), "third call after in-place edit identical to original " + tag)
            check(np.allclose(lp3, model_filter(x, M), atol=1e-9), "third call after in-place edit equals model " + tag)
            hp3, _ = quiet(cryomap.highpass, x, **kw)
            check(same(hp3, orig_highpass(x, **kw)), "highpass after in-place edit identical to original " + tag)

    # band-pass
    half = shape[0] // 2
    for (lpc_, hpc_, lg, hg) in [(half, 1, 0, 0), (half, max(1, half // 2), 3, 2), (max(2, half - 1), 2, 1, 4),
                                 (max(1, half // 2), 1, 2, 0), (half, half, 2, 2)]:
        tag = f"shape={shape} lp={lpc_} hp={hpc_} lg={lg} hg={hg}"
        kw = dict(lp_fourier_pixels=lpc_, hp_fourier_pixels=hpc_, lp_gaussian=lg, hp_gaussian=hg)
        bp, _ = quiet(cryomap.bandpass, x, **kw)
        l_out, _ = quiet(cryomap.lowpass, x, fourier_pixels=lpc_, gaussian=lg)
        l_in, _ = quiet(cryomap.lowpass, x, fourier_pixels=hpc_, gaussian=hg)
        check(np.allclose(bp, l_out - l_in, atol=1e-9), "bandpass = difference of its lowpasses " + tag)
        Mb = model_lowpass_gain(shape, lpc_, lg) - model_lowpass_gain(shape, hpc_, hg)
        check(np.allclose(bp, model_filter(x, Mb), atol=1e-9), "bandpass equals model " + tag)
        check(same(bp, orig_bandpass(x, **kw)), "bandpass identical to original text " + tag)
        if bp is not None:
            band_written = cryomap.read("band.em")
            check(band_written.shape == tuple(shape), "band.em side file still written " + tag)
        bps, _ = quiet(cryomap.bandpass, np.roll(x, 3, axis=1), **kw)
        check(np.allclose(bps, np.roll(bp, 3, axis=1), atol=1e-9), "bandpass commutes with shift " + tag)
        bp2, _ = quiet(cryomap.bandpass, 2.0 * x - y, **kw)
        bpy, _ = quiet(cryomap.bandpass, y, **kw)
        check(np.allclose(bp2, 2.0 * bp - bpy, atol=1e-9), "bandpass linear " + tag)

# ----------------------------------------------------------------------------------------------------------------
# 3. pure plane waves at every integer frequency (small boxes: all of them; larger: a random sample), hard edge
# ----------------------------------------------------------------------------------------------------------------
def plane_wave(shape, k, phase):
    g = np.meshgrid(*[np.arange(n) for n in shape], indexing="ij")
    arg = 2 * np.pi * sum(ki * gi / n for ki, gi, n in zip(k, g, shape)) + phase
    return np.cos(arg)


for shape in [(8, 8, 8), (9, 8, 10), (16, 16, 16), (24, 16, 20)]:
    allk = list(itertools.product(*[range(-(n // 2), (n - 1) // 2 + 1) for n in shape]))
    if len(allk) > 600:
        pick = rng.choice(len(allk), size=200, replace=False)
        allk = [allk[i] for i in pick]
    for cutoff in sorted({1, shape[0] // 4, shape[0] // 2}):
        for k in allk:
            w = plane_wave(shape, k, 0.3)
            r = np.sqrt(sum(ki**2 for ki in k))
            g = 1.0 if r <= cutoff else 0.0
            lp, _ = quiet(cryomap.lowpass, w, fourier_pixels=cutoff, gaussian=0)
            check(np.allclose(lp, g * w, atol=1e-9), f"plane wave k={k} lowpass gain {g} shape={shape} cutoff={cutoff}")
            hp, _ = quiet(cryomap.highpass, w, fourier_pixels=cutoff, gaussian=0)
            check(np.allclose(hp, (1 - g) * w, atol=1e-9), f"plane wave k={k} highpass gain {1-g} shape={shape} cutoff={cutoff}")

# soft edge: plane waves along the axes keep their shape and are scaled by the model gain
for shape in [(16, 16, 16), (32, 20, 24)]:
    for cutoff, sigma in [(4, 1), (6, 2), (8, 3)]:
        M = model_lowpass_gain(shape, cutoff, sigma)
        for ax in range(3):
            for kk in range(0, (shape[ax] - 1) // 2 + 1):
                k = [0, 0, 0]
                k[ax] = kk
                w = plane_wave(shape, k, 0.7)
                kn = [0, 0, 0]
                kn[ax] = -kk
                g = 0.5 * (M[tuple(k)] + M[tuple(kn)])
                lp, _ = quiet(cryomap.lowpass, w, fourier_pixels=cutoff, gaussian=sigma)
                check(np.allclose(lp, g * w, atol=1e-9), f"soft plane wave k={k} shape={shape} cutoff={cutoff} sigma={sigma}")

# ----------------------------------------------------------------------------------------------------------------
# 4. cutoff given as resolution + pixel size: round(box * pixel_size / resolution) Fourier pixels
# ----------------------------------------------------------------------------------------------------------------
for shape in [(16, 16, 16), (24, 16, 20), (48, 48, 48), (21, 21, 21)]:
    x = rng.normal(size=shape)
    box = shape[0]
    for _ in range(12):
        px = float(rng.uniform(0.5, 8.0))
        target_pixels = int(rng.integers(1, box // 2 + 1))
        # resolutions spread around the one that maps to target_pixels, staying inside 1..box/2 after rounding
        res = box * px / (target_pixels + float(rng.uniform(-0.45, 0.45)))
        expect = round(box * px / res)
        if not (1 <= expect <= box // 2):
            continue
        check(expect == target_pixels, "test construction")
        v, out = quiet(cryomap.resolution2pixels, res, box, px)
        check(v == expect and out == f"The target resolution corresponds to {expect} pixels.\n", "resolution2pixels value+print")
        v, out = quiet(cryomap.resolution2pixels, res, edge_size=box, pixel_size=px, print_out=False)
        check(v == expect and out == "", "resolution2pixels silent")
        v, out = quiet(cryomap.get_filter_radius, box, None, res, px)
        vo, outo = quiet(orig_get_filter_radius, box, None, res, px)
        check(v == expect and v == vo and out == outo, "get_filter_radius from resolution")
        v, out = quiet(cryomap.get_filter_radius, box, target_pixels, None, px)
        vo, outo = quiet(orig_get_filter_radius, box, target_pixels, None, px)
        check(v == target_pixels and out == outo and out != "", "get_filter_radius from pixels (+ printed resolution)")
        v, out = quiet(cryomap.get_filter_radius, box, target_pixels, res, None)
        check(v == target_pixels and out == "", "get_filter_radius pixels win, nothing printed without pixel size")
        r, out = quiet(cryomap.pixels2resolution, target_pixels, box, px)
        check(r == box * px / target_pixels and out == f"The target resolution is {r} Angstroms.\n", "pixels2resolution")
        for sigma in [0, 2]:
            a1, o1 = quiet(cryomap.lowpass, x, target_resolution=res, pixel_size=px, gaussian=sigma)
            a2, o2 = quiet(cryomap.lowpass, x, fourier_pixels=expect, gaussian=sigma)
            a3, o3 = quiet(orig_lowpass, x, target_resolution=res, pixel_size=px, gaussian=sigma)
            check(same(a1, a2), "lowpass by resolution == lowpass by pixels")
            check(same(a1, a3) and o1 == o3, "lowpass by resolution identical to original (values and printed text)")
            check(np.allclose(a1, model_filter(x, model_lowpass_gain(shape, expect, sigma)), atol=1e-9), "lowpass by resolution equals model")
            h1, o1 = quiet(cryomap.highpass, x, target_resolution=res, pixel_size=px, gaussian=sigma)
            h3, o3 = quiet(orig_highpass, x, target_resolution=res, pixel_size=px, gaussian=sigma)
            check(same(h1, h3) and o1 == o3, "highpass by resolution identical to original")
            check(np.allclose(a1 + h1, x, atol=1e-9), "complement by resolution")
        res_hp = box * px / 1.0
        b1, o1 = quiet(cryomap.bandpass, x, lp_target_resolution=res, hp_target_resolution=res_hp, pixel_size=px)
        b3, o3 = quiet(orig_bandpass, x, lp_target_resolution=res, hp_target_resolution=res_hp, pixel_size=px)
        check(same(b1, b3) and o1 == o3, "bandpass by resolution identical to original")
        Mb = model_lowpass_gain(shape, expect, 3) - model_lowpass_gain(shape, 1, 2)
        check(np.allclose(b1, model_filter(x, Mb), atol=1e-9), "bandpass by resolution equals model (default widths 3 and 2)")
    # mixed: pixels for one side, resolution for the other; pixels take precedence when both are given
    b1, o1 = quiet(cryomap.bandpass, x, lp_fourier_pixels=box // 2, hp_target_resolution=box * 2.0 / 2, pixel_size=2.0)
    b3, o3 = quiet(orig_bandpass, x, lp_fourier_pixels=box // 2, hp_target_resolution=box * 2.0 / 2, pixel_size=2.0)
    check(same(b1, b3) and o1 == o3, "bandpass mixed specification identical to original")
    try:
        quiet(cryomap.lowpass, x)
        check(False, "lowpass without cutoff must raise")
    except ValueError:
        check(True, "")
    try:
        quiet(cryomap.lowpass, x, target_resolution=10.0)
        check(False, "lowpass with resolution but without pixel size must raise")
    except ValueError:
        check(True, "")

# defaults of the soft edge: lowpass 3, highpass 2
x = rng.normal(size=(20, 20, 20))
check(same(quiet(cryomap.lowpass, x, fourier_pixels=5)[0], quiet(cryomap.lowpass, x, fourier_pixels=5, gaussian=3)[0]), "lowpass default width 3")
check(same(quiet(cryomap.highpass, x, fourier_pixels=5)[0], quiet(cryomap.highpass, x, fourier_pixels=5, gaussian=2)[0]), "highpass default width 2")
check(same(quiet(cryomap.lowpass, x, 5, None, None, 1)[0], quiet(orig_lowpass, x, 5, None, None, 1)[0]), "lowpass positional arguments")
check(same(quiet(cryomap.highpass, x, 5, None, None, 1)[0], quiet(orig_highpass, x, 5, None, None, 1)[0]), "highpass positional arguments")
check(same(quiet(cryomap.bandpass, x, 8, None, 2, None, None, 1, 1)[0], quiet(orig_bandpass, x, 8, None, 2, None, None, 1, 1)[0]), "bandpass positional arguments")

# the transfer function itself (mask with the edge centred on the surface) against the original text, in mixed
# order and repeatedly; returned masks are edited in place between the calls
specs = [((16, 16, 16), 4, 0), ((16, 16, 16), 4, 2), ((16, 16, 16), 6, 0), ((12, 20, 16), 5, 1), ((16, 16, 16), 4, 0),
         ((12, 20, 16), 5, 1), ((16, 16, 16), 4.5, 0), ((16, 16, 16), 4, 0.0), ((9, 9, 9), 4, 3), ((16, 16, 16), 4, 2)]
for rep in range(3):
    for (shape, rad, sig) in (specs if rep != 1 else specs[::-1]):
        m = cryomask.spherical_mask(shape, rad, gaussian=sig, gaussian_outwards=False)
        mo = orig_spherical_mask(shape, rad, gaussian=sig, gaussian_outwards=False)
        check(same(m, mo), f"spherical_mask identical to original text {shape} {rad} {sig} rep {rep}")
        check(m.flags.writeable, "returned mask is writeable")
        m[...] = 123.0  # must not leak into later results
        m2 = cryomask.spherical_mask(shape, rad, gaussian=sig, gaussian_outwards=True)
        mo2 = orig_spherical_mask(shape, rad, gaussian=sig, gaussian_outwards=True)
        check(same(m2, mo2), f"spherical_mask (outwards) identical to original text {shape} {rad} {sig} rep {rep}")
        m2 *= 0
    for (size, rad, cen) in [(16, None, None), (16, 5, (4, 5, 6)), ((16, 12, 10), 3, (8, 6, 5)), (16, 5, (4, 5, 6)), ([14], 5, None)]:
        m = cryomask.spherical_mask(size, rad, center=cen)
        check(same(m, orig_spherical_mask(size, rad, center=cen)), f"spherical_mask center variants {size} {rad} {cen} rep {rep}")
        m += 5
    sh1 = cryomask.spherical_shell_mask(20, 4, radius=6, gaussian=rep)
    sp1 = orig_spherical_mask(np.array([20, 20, 20]), radius=8.0, center=np.array([10, 10, 10]))
    sp2 = orig_spherical_mask(np.array([20, 20, 20]), radius=4.0, center=np.array([10, 10, 10]))
    check(same(sh1, cryomask.postprocess(sp1 - sp2, rep, np.asarray([0, 0, 0]), None)), f"spherical_shell_mask unchanged rep {rep}")

# ----------------------------------------------------------------------------------------------------------------
# 5. change-specific checks
# ----------------------------------------------------------------------------------------------------------------
if hasattr(cryomap, "_centered_lowpass_gain"):
    # change (a): the extracted helpers are exactly the old inline expressions
    for shape, rad, sig in [((16, 16, 16), 4, 0), ((12, 20, 16), 5, 2), ((9, 9, 9), 4, 3)]:
        g = cryomap._centered_lowpass_gain(shape, rad, sig)
        check(same(g, orig_spherical_mask(shape, rad, gaussian=sig, gaussian_outwards=False)), "helper gain == old inline mask")
        xx = rng.normal(size=shape)
        check(same(cryomap._apply_centered_gain(xx, g), np.real(fft.ifftn(fft.fftn(xx) * fft.ifftshift(g)))), "helper apply == old inline expression")

# change (c): a long random call sequence over more boxes/centers than the cache holds (hits, misses, evictions);
# every result is compared with the original text and then overwritten in place
pool = [(8, 8, 8), (16, 16, 16), (12, 20, 16), (9, 9, 9), (24, 16, 20), (16, 16, 12), (10, 10, 10)]
maps = {sh: rng.normal(size=sh) for sh in pool}
for step in range(400):
    sh = pool[int(rng.integers(0, len(pool)))]
    half = sh[0] // 2
    what = int(rng.integers(0, 5))
    sig = [0, 0, 1, 2, 3, 4, 1.5][int(rng.integers(0, 7))]
    cut = int(rng.integers(1, half + 1))
    tag = f"step {step} {sh} cut={cut} sig={sig} what={what}"
    if what == 0:
        cen = None if rng.random() < 0.5 else tuple(int(rng.integers(0, n)) for n in sh)
        outw = bool(rng.integers(0, 2))
        m = cryomask.spherical_mask(sh, cut, center=cen, gaussian=sig, gaussian_outwards=outw)
        check(same(m, orig_spherical_mask(sh, cut, center=cen, gaussian=sig, gaussian_outwards=outw)), "mask " + tag)
        check(m.flags.writeable and m.flags.c_contiguous, "mask is a private writeable array " + tag)
        m[...] = -1.0
    elif what == 1:
        r, _ = quiet(cryomap.lowpass, maps[sh], fourier_pixels=cut, gaussian=sig)
        check(same(r, orig_lowpass(maps[sh], fourier_pixels=cut, gaussian=sig)), "lowpass " + tag)
        check(np.allclose(r, model_filter(maps[sh], model_lowpass_gain(sh, cut, sig)), atol=1e-9), "lowpass model " + tag)
        r[...] = 9.0
    elif what == 2:
        r, _ = quiet(cryomap.highpass, maps[sh], fourier_pixels=cut, gaussian=sig)
        check(same(r, orig_highpass(maps[sh], fourier_pixels=cut, gaussian=sig)), "highpass " + tag)
        check(np.allclose(r, model_filter(maps[sh], 1 - model_lowpass_gain(sh, cut, sig)), atol=1e-9), "highpass model " + tag)
        r[...] = 9.0
    elif what == 3:
        cut2 = int(rng.integers(1, half + 1))
        r, _ = quiet(cryomap.bandpass, maps[sh], lp_fourier_pixels=cut, hp_fourier_pixels=cut2, lp_gaussian=sig, hp_gaussian=1)
        check(same(r, orig_bandpass(maps[sh], lp_fourier_pixels=cut, hp_fourier_pixels=cut2, lp_gaussian=sig, hp_gaussian=1)), "bandpass " + tag)
        r[...] = 9.0
    else:
        maps[sh][tuple(int(rng.integers(0, n)) for n in sh)] += float(rng.normal())  # edit the input in place

if hasattr(cryomask, "_center_distance_map"):
    info = cryomask._center_distance_map.cache_info()
    check(info.hits > 0 and info.misses > 0 and info.currsize <= 4, f"cache exercised: {info}")
    d = cryomask._center_distance_map((6, 7, 8), (3, 3, 4))
    gx, gy, gz = np.meshgrid(np.arange(6), np.arange(7), np.arange(8), indexing="ij")
    check(np.array_equal(d, np.sqrt((gx - 3) ** 2 + (gy - 3) ** 2 + (gz - 4) ** 2)) and d.dtype == np.float64, "distance map values")
    try:
        d[0, 0, 0] = 5.0
        check(False, "cached distance map must be read-only")
    except ValueError:
        check(True, "")
    # size/center given as int, list, tuple, float or array reach the same cache entry and the same result
    ref = orig_spherical_mask(14, 4)
    for size in [14, 14.0, [14], (14, 14, 14), np.array([14, 14, 14]), np.array([14.0, 14.0, 14.0])]:
        for cen in [None, 7, (7, 7, 7), [7.0, 7.0, 7.0], np.array([7, 7, 7])]:
            check(same(cryomask.spherical_mask(size, 4, center=cen), ref), f"same mask for size={size!r} center={cen!r}")
    # same size, different center must not share an entry
    check(same(cryomask.spherical_mask(14, 4, center=(7, 7, 6)), orig_spherical_mask(14, 4, center=(7, 7, 6))), "different center")
    check(not same(cryomask.spherical_mask(14, 4, center=(7, 7, 6)), ref), "different center gives a different mask")

os.chdir("/")
_tmp.cleanup()

if failures:
    print(f"{len(failures)} of {n_checks} checks failed")
    print("FAIL")
    sys.exit(1)
print(f"{n_checks} checks")
print("PASS")
