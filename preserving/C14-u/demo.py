import sys, os

sys.path.insert(0, os.getcwd())
import copy
import itertools
import warnings

warnings.filterwarnings("ignore")
import numpy as np
import pandas as pd
from scipy.ndimage import affine_transform as _ref_affine

from cryocat import cryomap, cryomotl

FAILS = []


def check(cond, msg):
    if not cond:
        FAILS.append(msg)
        if len(FAILS) <= 20:
            print("FAIL:", msg)


# ----------------------------------------------------------------------------------------------------------------
# independent pieces: zxz matrix by hand, a motl builder, reference implementations written with explicit indices
# ----------------------------------------------------------------------------------------------------------------
def Rz(a):
    c, s = np.cos(np.deg2rad(a)), np.sin(np.deg2rad(a))
    return np.array([[c, -s, 0.0], [s, c, 0.0], [0.0, 0.0, 1.0]])


def Rx(a):
    c, s = np.cos(np.deg2rad(a)), np.sin(np.deg2rad(a))
    return np.array([[1.0, 0.0, 0.0], [0.0, c, -s], [0.0, s, c]])


def zxz_matrix(phi, theta, psi):
    # extrinsic z (phi), x (theta), z (psi):  R = Rz(psi) Rx(theta) Rz(phi)
    return Rz(psi) @ Rx(theta) @ Rz(phi)


def make_motl(pos, shifts, angles, object_id=None, klass=None):
    n = len(pos)
    df = pd.DataFrame(np.zeros((n, 20)), columns=cryomotl.Motl.motl_columns)
    df[["x", "y", "z"]] = np.asarray(pos, dtype=float)
    df[["shift_x", "shift_y", "shift_z"]] = np.asarray(shifts, dtype=float)
    ang = np.asarray(angles, dtype=float).reshape(n, 3)
    df["phi"], df["theta"], df["psi"] = ang[:, 0], ang[:, 1], ang[:, 2]
    df["subtomo_id"] = np.arange(1, n + 1, dtype=float)
    df["tomo_id"] = 1.0
    df["object_id"] = np.arange(1, n + 1, dtype=float) if object_id is None else np.asarray(object_id, dtype=float)
    df["class"] = 1.0 if klass is None else np.asarray(klass, dtype=float)
    return cryomotl.Motl(motl_df=df)


def blob_map(shape, centres, sigma, weights=None):
    g = np.indices(shape).astype(float)
    out = np.zeros(shape)
    for k, c in enumerate(centres):
        w = 1.0 if weights is None else weights[k]
        r2 = sum((g[d] - c[d]) ** 2 for d in range(3))
        out += w * np.exp(-r2 / (2.0 * sigma**2))
    return out


def centre_of_mass(m):
    g = np.indices(m.shape).astype(float)
    t = m.sum()
    return np.array([(g[d] * m).sum() / t for d in range(3)])


def ref_rotate_active(vol, R):
    """density at offset v from floor(N/2) goes to R v:  out[c + u] = in[c + R^T u]"""
    c = np.asarray(vol.shape) // 2
    M = R.T
    off = c - M @ c
    out = np.empty(vol.shape)
    _ref_affine(np.asarray(vol, dtype=float), M, offset=off, output=out, order=3)
    return out


def ref_window(volume, coord, box):
    """window of shape box whose first voxel is floor(coord - box/2); outside the volume -> mean of the volume"""
    box = np.asarray(box)
    start = np.floor(np.asarray(coord, dtype=float) - box / 2.0).astype(int)
    out = np.full(tuple(box), float(np.mean(volume)))
    for i in range(box[0]):
        for j in range(box[1]):
            for k in range(box[2]):
                p = start + (i, j, k)
                if np.all(p >= 0) and np.all(p < np.asarray(volume.shape)):
                    out[i, j, k] = volume[tuple(p)]
    return out


def ref_place(template, motl, container, feature="object_id"):
    out = np.array(container, dtype=float, copy=True)
    df = motl.df
    box = np.asarray(template.shape)
    for n in range(len(df)):
        row = df.iloc[n]
        R = zxz_matrix(row["phi"], row["theta"], row["psi"])
        stamp = ref_rotate_active(template, R) > 0.1
        pos = np.array([row["x"] + row["shift_x"], row["y"] + row["shift_y"], row["z"] + row["shift_z"]]) - 1.0
        start = np.floor(pos - box / 2.0).astype(int)
        for idx in np.argwhere(stamp):
            p = start + idx
            if np.all(p >= 0) and np.all(p < np.asarray(out.shape)):
                out[tuple(p)] = row[feature]
    return out


# ----------------------------------------------------------------------------------------------------------------
# the property
# ----------------------------------------------------------------------------------------------------------------
def property_cube_rotations(rng):
    seen = set()
    for N in (7, 8):
        vol = rng.standard_normal((N, N, N))
        keep = vol.copy()
        c = N // 2
        idx = np.indices((N, N, N)).reshape(3, -1).T
        for phi, theta, psi in itertools.product((0, 90, 180, 270), repeat=3):
            R = np.rint(zxz_matrix(phi, theta, psi)).astype(int)
            seen.add(tuple(R.ravel()))
            out_a = cryomap.rotate(vol, rotation_angles=[phi, theta, psi])
            rot = cryomotl.Motl  # noqa (only to make the link below explicit)
            m = make_motl([[1, 1, 1]], [[0, 0, 0]], [[phi, theta, psi]])
            r = m.get_rotations()[0]
            out_b = cryomap.rotate(vol, rotation=r, transpose_rotation=True)
            out_inv = cryomap.rotate(vol, rotation=r)
            q = (idx - c) @ R.T + c  # density at p moves to q = c + R (p - c)
            ok = np.all((idx >= 1) & (idx <= N - 2) & (q >= 1) & (q <= N - 2), axis=1)
            src, dst = idx[ok], q[ok]
            check(ok.sum() >= (N - 3) ** 3, "too few voxels compared")
            va = vol[src[:, 0], src[:, 1], src[:, 2]]
            for name, o in (("angles", out_a), ("rotation^T", out_b)):
                err = np.max(np.abs(o[dst[:, 0], dst[:, 1], dst[:, 2]] - va))
                check(err < 1e-10, f"cube rotation {(phi, theta, psi)} N={N} via {name}: err {err}")
            # the untransposed Rotation is the inverse: density at q goes back to p
            err = np.max(np.abs(out_inv[src[:, 0], src[:, 1], src[:, 2]] - vol[dst[:, 0], dst[:, 1], dst[:, 2]]))
            check(err < 1e-10, f"cube rotation {(phi, theta, psi)} N={N} inverse: err {err}")
            # the particle orientation carries offsets the same way
            v = np.array([1.0, 2.0, 3.0])
            check(np.allclose(r.apply(v), R @ v, atol=1e-12), "Motl.get_rotations disagrees with zxz matrix")
        check(np.array_equal(vol, keep), "rotate changed its input")
    check(len(seen) == 24, f"expected the 24 cube rotations, got {len(seen)}")


def property_random_rotations(rng, n=12):
    for it in range(n):
        N = int(rng.choice([24, 25, 28]))
        c = N // 2
        v = rng.uniform(-3.0, 3.0, 3)
        vol = blob_map((N, N, N), [c + v, c - 0.5 * v[::-1]], 2.0, [1.0, 0.35])
        keep = vol.copy()
        ang = rng.uniform(-180, 180, 3)
        ang[1] = rng.uniform(0, 180)
        R = zxz_matrix(*ang)
        out = cryomap.rotate(vol, rotation_angles=ang)
        ref = ref_rotate_active(vol, R)
        check(np.max(np.abs(out - ref)[2:-2, 2:-2, 2:-2]) < 1e-9, f"random rotation {ang}: differs from reference")
        # single blob: its centre travels to R v
        one = blob_map((N, N, N), [c + v], 2.0)
        com = centre_of_mass(cryomap.rotate(one, rotation_angles=ang)) - c
        check(np.linalg.norm(com - R @ v) < 0.05, f"blob went to {com}, expected {R @ v}")
        m = make_motl([[5, 5, 5]], [[0, 0, 0]], [ang])
        check(np.allclose(m.get_rotations()[0].apply(v), R @ v, atol=1e-10), "particle orientation differs")
        # rotating back restores the smooth map
        back = cryomap.rotate(out, rotation=m.get_rotations()[0])
        check(np.max(np.abs(back - vol)) < 0.02 * vol.max(), f"inverse does not restore: {np.max(np.abs(back - vol))}")
        back2 = cryomap.rotate(out, rotation_angles=[-ang[2], -ang[1], -ang[0]])
        check(np.max(np.abs(back2 - back)) < 1e-9, "inverse by angles differs from inverse by Rotation")
        check(np.array_equal(vol, keep), "rotate changed its input")
        check(np.array_equal(cryomap.rotate(vol, rotation_angles=ang), out), "repeated rotate differs")


def property_windows(rng, n=40):
    for it in range(n):
        shape = tuple(int(s) for s in rng.integers(6, 13, 3))
        vol = rng.standard_normal(shape) + 3.0
        keep = vol.copy()
        box = tuple(int(2 * s) for s in rng.integers(1, 5, 3))
        kind = it % 4
        if kind == 0:  # fully inside
            lo = np.asarray(box) / 2
            hi = np.asarray(shape) - np.asarray(box) / 2
            coord = np.array([rng.uniform(l, max(l, h)) for l, h in zip(lo, hi)])
        elif kind == 1:  # partly outside
            coord = rng.uniform(-1, 1, 3) + rng.choice([0, 1], 3) * np.asarray(shape)
        elif kind == 2:  # fully outside
            coord = np.asarray(shape) + np.asarray(box) + rng.uniform(0, 3, 3)
            if it % 8 == 2:
                coord = -np.asarray(box) - rng.uniform(0, 3, 3)
        else:  # integer and half-integer centres
            coord = rng.integers(-2, max(shape) + 2, 3) + rng.choice([0.0, 0.5], 3)
        ckeep = np.array(coord, copy=True)
        sub = cryomap.extract_subvolume(vol, coord, box)
        ref = ref_window(vol, coord, box)
        check(sub.shape == tuple(box), "window shape")
        check(np.array_equal(sub, ref), f"window at {coord} box {box} volume {shape} differs")
        check(np.array_equal(cryomap.extract_subvolume(vol, coord, box), sub), "repeated window differs")
        check(np.array_equal(vol, keep) and np.array_equal(coord, ckeep), "extract_subvolume changed its inputs")


def property_symmetrize(rng):
    for n in range(2, 13):
        N = int(rng.choice([24, 25, 28]))
        c = N // 2
        cs = [c + rng.uniform(-3.0, 3.0, 3) for _ in range(3)]
        vol = blob_map((N, N, N), cs, 2.0, [1.0, 0.6, 0.8])
        keep = vol.copy()
        for sym in (n, f"C{n}"):
            s = cryomap.symmetrize_volume(vol, sym)
            ref = sum(ref_rotate_active(vol, Rz(k * 360.0 / n)) for k in range(n)) / n
            # (source voxels on a face can fall outside the interpolation domain by rounding: compared two voxels inside)
            check(np.max(np.abs(s - ref)[2:-2, 2:-2, 2:-2]) < 1e-9, f"C{n}: not the mean of the n rotated copies")
            turned = cryomap.rotate(s, rotation_angles=[0, 0, 360.0 / n])
            check(np.max(np.abs(turned - s)) < 0.02 * s.max(), f"C{n}: not invariant: {np.max(np.abs(turned - s))}")
            check(abs(s.sum() - vol.sum()) < 2e-3 * vol.sum(), f"C{n}: total density {s.sum()} vs {vol.sum()}")
            check(np.array_equal(cryomap.symmetrize_volume(vol, sym), s), "repeated symmetrize differs")
        check(np.array_equal(vol, keep), "symmetrize_volume changed its input")


def property_place(rng, sizes=(1, 2, 3, 5, 8, 13, 20)):
    for npart in sizes:
        B = int(rng.choice([11, 12]))
        c = B // 2
        # templates vanish (well below the 0.1 threshold) at the faces of their box
        template = blob_map((B, B, B), [np.array([c, c, c]) + rng.uniform(-1, 1, 3), [c + 1.5, c, c - 1]], 1.2, [1.0, 0.8])
        template2 = blob_map((B, B, B), [[c - 1.5, c + 1, c], [c, c, c + 1.5]], 1.2, [0.9, 0.7])
        tkeep = template.copy()
        vshape = tuple(int(s) for s in rng.integers(18, 27, 3))
        pos = rng.integers(-1, np.asarray(vshape) + 3, (npart, 3)).astype(float)
        pos[0] = np.asarray(vshape) // 2
        shifts = np.round(rng.uniform(-2, 2, (npart, 3)), 2)
        ang = rng.uniform(-180, 180, (npart, 3))
        ang[:, 1] = rng.uniform(0, 180, npart)
        if npart > 2:
            ang[1] = [90, 90, 180]
            pos[2] = pos[0] + [2, 1, 0]  # overlapping stamps: the later particle wins
        oid = rng.integers(1, 6, npart).astype(float)
        klass = rng.integers(2, 9, npart).astype(float)
        m = make_motl(pos, shifts, ang, oid, klass)
        dfkeep = m.df.copy(deep=True)
        for feature in ("object_id", "class", "subtomo_id"):
            out = cryomap.place_object(template, m, volume_shape=vshape, feature_to_color=feature)
            ref = ref_place(template, m, np.zeros(vshape), feature)
            check(out.shape == vshape, "container shape")
            nbad = int(np.sum(out != ref))
            check(nbad == 0, f"place_object {npart} particles colour {feature}: {nbad} voxels differ")
            check(np.array_equal(cryomap.place_object(template, m, volume_shape=vshape, feature_to_color=feature), out), "repeated place differs")
        # into an existing volume, which stays the caller's
        base = rng.integers(0, 3, vshape).astype(float) * 10.0
        bkeep = base.copy()
        out = cryomap.place_object(template, m, volume=base)
        check(np.array_equal(out, ref_place(template, m, base, "object_id")), "place_object into existing volume differs")
        check(np.array_equal(base, bkeep), "place_object changed the volume passed in")
        # list of objects, one per particle
        lst = [template if k % 2 == 0 else template2 for k in range(npart)]
        out = cryomap.place_object(lst, m, volume_shape=vshape)
        r = np.zeros(vshape)
        for k in range(npart):
            r = ref_place(lst[k], cryomotl.Motl(motl_df=m.df.iloc[[k]].reset_index(drop=True)), r, "object_id")
        check(np.array_equal(out, r), "place_object with a list of objects differs")
        check(np.array_equal(template, tkeep), "place_object changed the template")
        check(m.df.equals(dfkeep) and list(m.df.index) == list(dfkeep.index), "place_object changed the motl")


def run_property(seed):
    rng = np.random.default_rng(seed)
    property_cube_rotations(rng)
    property_random_rotations(rng)
    property_windows(rng)
    property_symmetrize(rng)
    property_place(rng)


# ----------------------------------------------------------------------------------------------------------------
# change (b): rotate compared with the text of the original function; symmetrize_volume / place_object of the tree
# compared with the same code running on top of the original rotate (a copy of the cryomap namespace)
# ----------------------------------------------------------------------------------------------------------------
ORIGINAL_ROTATE = '''
def rotate(
    input_map,
    rotation=None,
    rotation_angles=None,
    coord_space="zxz",
    transpose_rotation=False,
    degrees=True,
    spline_order=3,
    output_name=None,
):
    input_map = read(input_map)
    # create translation to the center of the box
    T = np.eye(4)
    structure_center = np.asarray(input_map.shape) // 2
    T[:3, -1] = structure_center

    rot_matrix = np.eye(4)

    if rotation is not None:
        if transpose_rotation:
            rot_matrix[0:3, 0:3] = rotation.as_matrix().T
        else:
            rot_matrix[0:3, 0:3] = rotation.as_matrix()

    elif rotation_angles is not None:
        rot = srot.from_euler(coord_space, rotation_angles, degrees=degrees)
        rot_matrix[0:3, 0:3] = rot.as_matrix().T

    else:
        raise ValueError("Either rotation_angles or rotation has to be specified!!!")

    final_matrix = T @ rot_matrix @ np.linalg.inv(T)

    rot_struct = np.empty(input_map.shape)
    affine_transform(input=input_map, output=rot_struct, matrix=final_matrix, order=spline_order)

    if output_name is not None:
        write(rot_struct, output_name, data_type=np.single)

    return rot_struct
'''
import types
import tempfile
from scipy.spatial.transform import Rotation as _srot

ORIG_NS = dict(cryomap.__dict__)
exec(compile(ORIGINAL_ROTATE, "<original rotate>", "exec"), ORIG_NS)
orig_rotate = ORIG_NS["rotate"]
for _name in ("symmetrize_volume", "place_object", "_stamp_object"):
    _f = cryomap.__dict__.get(_name)
    if _f is not None:
        ORIG_NS[_name] = types.FunctionType(_f.__code__, ORIG_NS, _name, _f.__defaults__, _f.__closure__)


def same(a, b):
    return type(a) is type(b) and a.dtype == b.dtype and a.shape == b.shape and np.array_equal(a, b, equal_nan=True)


def outcome(f, *args, **kw):
    try:
        return ("ok", f(*args, **kw))
    except Exception as e:
        return ("raise", type(e).__name__)


def both(name, *args, **kw):
    a = outcome(getattr(cryomap, name), *args, **kw)
    b = outcome(ORIG_NS[name], *args, **kw)
    a2 = outcome(getattr(cryomap, name), *args, **kw)  # again, now certainly served from the cache
    check(a[0] == b[0] == a2[0], f"{name}: outcome {a[0]} / {b[0]}")
    if a[0] == b[0] == "ok":
        check(same(a[1], b[1]) and same(a2[1], b[1]), f"{name}: result differs from the original ({sorted(kw)})")
    elif a[0] == b[0]:
        check(a[1] == b[1] == a2[1], f"{name}: exceptions differ {a[1]} / {b[1]}")
    return a


def compare_with_original(seed):
    rng = np.random.default_rng(seed)
    # more distinct shapes than the cache holds, visited in an interleaved order and revisited after eviction
    shapes = [(n, n, n) for n in range(2, 14)]
    shapes += [tuple(int(s) for s in rng.integers(1, 12, 3)) for _ in range(70)]
    shapes += [(8, 10, 12), (12, 10, 8), (10, 8, 12), (1, 1, 1), (9, 1, 4)]
    order = list(rng.permutation(len(shapes))) + list(rng.permutation(len(shapes)))[:40]
    vols = {}
    for k in order:
        shp = shapes[k]
        if shp not in vols:
            v = rng.standard_normal(shp)
            vols[shp] = v.astype([float, np.float32, np.int16][k % 3])
        vol = vols[shp]
        keep = vol.copy()
        ang = rng.uniform(-360, 360, 3) if k % 4 else rng.choice([0.0, 90.0, 180.0, 270.0], 3)
        akeep = ang.copy()
        r = _srot.from_euler("zxz", ang, degrees=True)
        both("rotate", vol, rotation_angles=ang)
        both("rotate", vol, rotation_angles=list(np.deg2rad(ang)), degrees=False, coord_space="ZYZ")
        both("rotate", vol, rotation=r)
        both("rotate", vol, rotation=r, transpose_rotation=True, spline_order=int(k % 4))
        both("rotate", vol, rotation=r, rotation_angles=[1, 2, 3])  # rotation wins
        check(same(vol, keep) and np.array_equal(ang, akeep), "rotate changed its inputs")
        check(np.allclose(r.as_euler("zxz", degrees=True), _srot.from_euler("zxz", akeep, degrees=True).as_euler("zxz", degrees=True)), "Rotation changed")
    # results are the caller's own arrays: writing into one does not disturb the next call
    vol = vols[(8, 10, 12)].astype(float)
    first = cryomap.rotate(vol, rotation_angles=[10, 20, 30])
    expect = first.copy()
    first[...] = -7.0
    check(same(cryomap.rotate(vol, rotation_angles=[10, 20, 30]), expect), "a result written to by the caller leaks into later calls")
    check(same(orig_rotate(vol, rotation_angles=[10, 20, 30]), expect), "original differs")
    # failure modes: nothing specified, wrong dimensionality, wrong type, bad convention -- same exception, every time
    for args, kw in (
        ((vol,), {}),
        ((rng.standard_normal((6, 6)),), dict(rotation_angles=[1, 2, 3])),
        ((rng.standard_normal((6,)),), dict(rotation_angles=[1, 2, 3])),
        ((rng.standard_normal((3, 4, 5, 6)),), dict(rotation_angles=[1, 2, 3])),
        ((rng.standard_normal((6, 6)),), {}),
        (([[1.0, 2.0], [3.0, 4.0]],), dict(rotation_angles=[1, 2, 3])),
        ((vol,), dict(rotation_angles=[1, 2, 3], coord_space="abc")),
        ((vol,), dict(rotation_angles=[1, 2])),
        ((np.zeros((0, 3, 3)),), dict(rotation_angles=[1, 2, 3])),
    ):
        a = both("rotate", *args, **kw)
        both("rotate", *args, **kw)
    # files: read from / written to disk
    with tempfile.TemporaryDirectory() as d:
        src = os.path.join(d, "in.mrc")
        cryomap.write(vols[(8, 10, 12)].astype(np.single), src, data_type=np.single)
        a = cryomap.rotate(src, rotation_angles=[15, 25, 35], output_name=os.path.join(d, "a.mrc"))
        b = orig_rotate(src, rotation_angles=[15, 25, 35], output_name=os.path.join(d, "b.em"))
        check(same(a, b), "rotate from file differs")
        check(same(cryomap.read(os.path.join(d, "a.mrc")), cryomap.read(os.path.join(d, "b.em"))), "written files differ")
    # the callers that loop over rotate
    for n in (2, 3, 4, 7, 12):
        for shp in ((12, 12, 12), (11, 13, 9)):
            v = rng.standard_normal(shp)
            both("symmetrize_volume", v, n)
            both("symmetrize_volume", v, f"C{n}")
    both("symmetrize_volume", v, 2.5)
    both("symmetrize_volume", v, None)
    for npart in (1, 4, 20):
        t1, t2 = rng.uniform(0, 0.3, (7, 7, 7)), rng.uniform(0, 0.3, (6, 8, 10))
        m = make_motl(rng.integers(-2, 22, (npart, 3)), rng.uniform(-2, 2, (npart, 3)), rng.uniform(-180, 180, (npart, 3)))
        dfkeep = m.df.copy(deep=True)
        both("place_object", t1, m, volume_shape=(20, 18, 22))
        both("place_object", [t1, t2, t2, t1] * 5, m, volume=rng.standard_normal((20, 18, 22)), feature_to_color="subtomo_id")
        check(m.df.equals(dfkeep), "motl changed")


if __name__ == "__main__":
    for seed in (21, 22):
        run_property(seed)
    compare_with_original(6)
    run_property(23)  # once more, after the cache has been filled, evicted and refilled
    if FAILS:
        print(f"FAIL ({len(FAILS)} checks)")
        sys.exit(1)
    print("PASS")
