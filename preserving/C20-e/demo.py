import sys, os

sys.path.insert(0, os.getcwd())

import logging
import time

import numpy as np
from scipy.spatial import KDTree as ScipyKDTree
from scipy.spatial.transform import Rotation

from cryocat import memthick

QUIET = logging.getLogger("c20demo")
QUIET.addHandler(logging.NullHandler())
QUIET.propagate = False
QUIET.setLevel(logging.CRITICAL)


# ----------------------------------------------------------------------------------------------------------------
# Text of the ORIGINAL functions (copied from cryocat/memthick.py at HEAD, only renamed, numba thread part dropped)
# ----------------------------------------------------------------------------------------------------------------
def orig_process_matches_cpu2cpu(flat_matches, n_points, voxel_size):
    thickness_results = np.zeros(n_points, dtype=np.float32)
    valid_mask = np.zeros(n_points, dtype=np.bool_)
    point_pairs = np.zeros(n_points, dtype=np.int32)
    flat_matches.sort()
    source_assigned = set()
    target_assigned = set()
    for dist, source_idx, target_idx in flat_matches:
        if source_idx not in source_assigned and target_idx not in target_assigned:
            thickness_results[source_idx] = dist
            valid_mask[source_idx] = True
            point_pairs[source_idx] = target_idx
            source_assigned.add(source_idx)
            target_assigned.add(target_idx)
    thickness_results = thickness_results * voxel_size
    return thickness_results, valid_mask, point_pairs


def orig_measure_thickness_cpu(
    points,
    normals,
    surface1_mask,
    surface2_mask,
    voxel_size,
    max_thickness_nm=8.0,
    max_angle_degrees=5.0,
    direction="1to2",
    num_threads=None,
    logger=None,
    max_matches_per_point=25,
):
    if direction == "2to1":
        source_mask, target_mask = surface2_mask, surface1_mask
    else:
        source_mask, target_mask = surface1_mask, surface2_mask

    n_points = len(points)
    max_angle_cos = np.cos(np.radians(max_angle_degrees))
    max_thickness_voxels = max_thickness_nm / voxel_size
    target_indices = np.where(target_mask)[0]
    target_points = points[target_indices]
    source_indices = np.where(source_mask)[0]
    source_points = points[source_indices]
    target_tree = ScipyKDTree(target_points)
    neighbor_lists = target_tree.query_ball_point(source_points, max_thickness_voxels)

    flat_matches = []
    for i, neighbors in enumerate(neighbor_lists):
        source_idx = source_indices[i]
        source_normal = normals[source_idx]
        source_point = points[source_idx]
        valid_matches = 0
        for n in neighbors:
            target_idx = target_indices[n]
            target_point = points[target_idx]
            dx = target_point[0] - source_point[0]
            dy = target_point[1] - source_point[1]
            dz = target_point[2] - source_point[2]
            dist = np.sqrt(dx * dx + dy * dy + dz * dz)
            proj = dx * source_normal[0] + dy * source_normal[1] + dz * source_normal[2]
            if proj > 0:
                if proj > max_angle_cos * dist:
                    flat_matches.append((dist, source_idx, target_idx))
                    valid_matches += 1
                    if valid_matches >= max_matches_per_point:
                        break
    return orig_process_matches_cpu2cpu(flat_matches, n_points, voxel_size)


# ----------------------------------------------------------------------------------------------------------------
# Input generator: two roughly parallel sheets (flat / tilted / curved) with jitter, noisy unit normals
# ----------------------------------------------------------------------------------------------------------------
def make_case(rng, n_total, kind, labelling):
    n1 = n_total // 2 + int(rng.integers(-n_total // 8, n_total // 8 + 1))
    n1 = min(max(n1, 5), n_total - 5)
    n2 = n_total - n1
    spacing = rng.uniform(1.6, 2.4)
    sep = rng.uniform(3.0, 5.0)

    def sheet(n, offset):
        side = int(np.ceil(np.sqrt(n)))
        gx, gy = np.meshgrid(np.arange(side), np.arange(side), indexing="ij")
        xy = np.stack([gx.ravel(), gy.ravel()], axis=1)[:n].astype(float) * spacing
        xy += rng.normal(0, 0.25, xy.shape)
        if kind == "flat":
            z = np.zeros(n)
            nrm = np.tile([0.0, 0.0, 1.0], (n, 1))
        elif kind == "tilted":
            a, b = 0.2, -0.15
            z = a * xy[:, 0] + b * xy[:, 1]
            nrm = np.tile(np.array([-a, -b, 1.0]) / np.linalg.norm([-a, -b, 1.0]), (n, 1))
        else:  # curved (paraboloid)
            c = 0.004
            z = c * (xy[:, 0] ** 2 + xy[:, 1] ** 2)
            nrm = np.stack([-2 * c * xy[:, 0], -2 * c * xy[:, 1], np.ones(n)], axis=1)
            nrm /= np.linalg.norm(nrm, axis=1, keepdims=True)
        pts = np.column_stack([xy, z]) + offset * nrm
        pts += rng.normal(0, 0.15, pts.shape)
        return pts, nrm

    p1, nr1 = sheet(n1, 0.0)
    p2, nr2 = sheet(n2, sep)
    nr2 = -nr2  # the second surface looks back at the first one
    points = np.vstack([p1, p2])
    normals = np.vstack([nr1, nr2])
    # angular noise on the normals (a few degrees), renormalised
    normals = normals + rng.normal(0, 0.03, normals.shape)
    normals /= np.linalg.norm(normals, axis=1, keepdims=True)
    s1 = np.zeros(n_total, dtype=bool)
    s1[:n1] = True
    s2 = ~s1
    if labelling == "shuffled":
        perm = rng.permutation(n_total)
        points, normals, s1, s2 = points[perm], normals[perm], s1[perm], s2[perm]
    elif labelling == "partial":  # some points belong to neither surface
        drop = rng.random(n_total) < 0.1
        s1 = s1 & ~drop
        s2 = s2 & ~drop
        perm = rng.permutation(n_total)
        points, normals, s1, s2 = points[perm], normals[perm], s1[perm], s2[perm]
    elif labelling == "swapped":
        s1, s2 = s2, s1
    return np.ascontiguousarray(points), np.ascontiguousarray(normals), s1, s2, sep


# ----------------------------------------------------------------------------------------------------------------
# Independent computation (vectorised brute force, no KD-tree, no sorting of tuples)
# ----------------------------------------------------------------------------------------------------------------
def admissible_matrix(points, normals, src, tgt, max_vox, max_angle_deg):
    d = points[None, tgt, :] - points[src, None, :]
    dist = np.sqrt(d[..., 0] * d[..., 0] + d[..., 1] * d[..., 1] + d[..., 2] * d[..., 2])
    nr = normals[src]
    proj = d[..., 0] * nr[:, None, 0] + d[..., 1] * nr[:, None, 1] + d[..., 2] * nr[:, None, 2]
    cosm = np.cos(np.radians(max_angle_deg))
    adm = (dist <= max_vox) & (proj > 0) & (proj > cosm * dist)
    return adm, dist, proj


def independent_greedy(points, normals, s1, s2, voxel_size, max_nm, max_angle_deg, direction):
    sm, tm = (s2, s1) if direction == "2to1" else (s1, s2)
    src = np.flatnonzero(sm)
    tgt = np.flatnonzero(tm)
    n = len(points)
    thick = np.zeros(n)
    valid = np.zeros(n, dtype=bool)
    pairs = np.zeros(n, dtype=np.int64)
    if len(src) == 0 or len(tgt) == 0:
        return thick, valid, pairs, 0
    adm, dist, _ = admissible_matrix(points, normals, src, tgt, max_nm / voxel_size, max_angle_deg)
    max_cand = int(adm.sum(axis=1).max()) if adm.size else 0
    ii, jj = np.nonzero(adm)
    dd = dist[ii, jj]
    order = np.lexsort((tgt[jj], src[ii], dd))  # by distance, then source index, then target index
    used_s, used_t = np.zeros(n, bool), np.zeros(n, bool)
    for k in order:
        s, t = src[ii[k]], tgt[jj[k]]
        if not used_s[s] and not used_t[t]:
            used_s[s] = used_t[t] = True
            thick[s] = dd[k] * voxel_size
            valid[s] = True
            pairs[s] = t
    return thick, valid, pairs, max_cand


def check_property(points, normals, s1, s2, voxel_size, max_nm, max_angle_deg, direction, res):
    """Check the statement of C20 directly on a result triple."""
    thick, valid, pairs = res
    sm, tm = (s2, s1) if direction == "2to1" else (s1, s2)
    n = len(points)
    assert thick.shape == (n,) and valid.shape == (n,) and pairs.shape == (n,)
    assert not valid[~sm].any(), "a non-source point carries a measurement"
    vs = np.flatnonzero(valid)
    vt = pairs[vs]
    assert tm[vt].all(), "a pair's target is not on the target surface"
    assert len(set(vt.tolist())) == len(vt), "a target is used twice"
    d = points[vt] - points[vs]
    dist = np.linalg.norm(d, axis=1)
    assert np.allclose(thick[vs], dist * voxel_size, rtol=1e-5, atol=1e-6), "thickness is not distance * voxel size"
    assert (thick[vs] <= max_nm * (1 + 1e-5)).all(), "thickness exceeds the maximum"
    proj = np.einsum("ij,ij->i", d, normals[vs])
    assert (proj > 0).all(), "target behind the source"
    cosang = proj / (dist * np.linalg.norm(normals[vs], axis=1))
    assert (cosang > np.cos(np.radians(max_angle_deg)) - 1e-9).all(), "target outside the cone"
    assert (thick[~valid] == 0).all()
    # maximality: no admissible pair of two unmatched points, no closer admissible unmatched target
    src = np.flatnonzero(sm)
    tgt = np.flatnonzero(tm)
    if len(src) and len(tgt):
        adm, dm, _ = admissible_matrix(points, normals, src, tgt, max_nm / voxel_size, max_angle_deg)
        t_used = np.zeros(n, bool)
        t_used[vt] = True
        free_t = ~t_used[tgt]
        for a, s in enumerate(src):
            cand = adm[a] & free_t
            if not valid[s]:
                assert not cand.any(), "an admissible pair of two unmatched points is left over"
            else:
                mine = np.linalg.norm(points[pairs[s]] - points[s])
                assert not (dm[a][cand] < mine * (1 - 1e-9)).any(), "a closer admissible unmatched target exists"


def same(res_a, res_b, exact=True):
    ta, va, pa = res_a
    tb, vb, pb = res_b
    if not (np.array_equal(va, vb) and np.array_equal(pa, pb)):
        return False
    if exact:
        return np.array_equal(np.asarray(ta), np.asarray(tb)) and np.asarray(ta).dtype == np.asarray(tb).dtype
    return np.allclose(ta, tb, rtol=1e-5, atol=1e-6)


def call_new(points, normals, s1, s2, voxel_size, max_nm, max_angle, direction):
    return memthick.measure_thickness_cpu(
        points,
        normals,
        s1,
        s2,
        voxel_size=voxel_size,
        max_thickness_nm=max_nm,
        max_angle_degrees=max_angle,
        direction=direction,
        logger=QUIET,
    )


def numba_candidates(points, normals, sm, tm, max_vox, max_angle):
    n = len(points)
    md = np.zeros((n, 25), dtype=np.float64)
    mi = np.zeros((n, 25), dtype=np.int64)
    mc = np.zeros(n, dtype=np.int64)
    memthick.find_matches_parallel(
        points, normals, sm, tm, np.where(tm)[0], float(max_vox), float(np.cos(np.radians(max_angle))), md, mi, mc
    )
    out = []
    for i in range(n):
        for k in range(mc[i]):
            out.append((md[i, k], i, int(mi[i, k])))
    return out


def check_public_wrapper(rng):
    """measure_membrane_thickness (CPU path) must hand its options on to measure_thickness_cpu unchanged."""
    import tempfile, mrcfile, pandas as pd

    for direction, max_thickness, max_angle, vox_A in (
        ("1to2", 6.0, 10.0, 10.0),
        ("2to1", 4.5, 25, 7.8),
        ("1to2", None, None, 13.3),
    ):
        points, normals, s1, s2, sep = make_case(rng, 120, "curved", "shuffled")
        points = points - points.min(axis=0) + 1.0
        with tempfile.TemporaryDirectory() as tmp:
            seg_path = os.path.join(tmp, "seg.mrc")
            shape = tuple(int(v) + 3 for v in points.max(axis=0)[::-1])
            with mrcfile.new(seg_path, overwrite=True) as mrc:
                mrc.set_data(np.ones(shape, dtype=np.int8))
                mrc.voxel_size = vox_A
            csv = os.path.join(tmp, "verts.csv")
            pd.DataFrame(
                {
                    "x_voxel": points[:, 0], "y_voxel": points[:, 1], "z_voxel": points[:, 2],
                    "normal_x": normals[:, 0], "normal_y": normals[:, 1], "normal_z": normals[:, 2],
                    "surface1": s1, "surface2": s2,
                }
            ).to_csv(csv, index=False)
            kw = {}
            if max_thickness is not None:
                kw = dict(max_thickness=max_thickness, max_angle=max_angle)
            out_csv, stats = memthick.measure_membrane_thickness(
                seg_path, csv, output_dir=os.path.join(tmp, "out"), direction=direction, use_gpu=False, logger=QUIET, **kw
            )
            assert out_csv is not None and os.path.exists(stats)
            got = pd.read_csv(out_csv)
            df = pd.read_csv(csv)
            _, voxel_size, _ = memthick.read_segmentation(seg_path, logger=QUIET)
        p = df[["x_voxel", "y_voxel", "z_voxel"]].values
        nr = df[["normal_x", "normal_y", "normal_z"]].values
        a = df["surface1"].values.astype(bool)
        b = df["surface2"].values.astype(bool)
        mt = 8.0 if max_thickness is None else max_thickness  # wrapper defaults: 8.0 nm, 3.0 degrees
        ma = 3.0 if max_angle is None else max_angle
        old = orig_measure_thickness_cpu(p, nr, a, b, voxel_size, mt, ma, direction, logger=QUIET)
        assert np.array_equal(got["valid_measurement"].values.astype(bool), old[1]), "wrapper: valid mask differs"
        assert np.array_equal(got["paired_point_idx"].values, old[2]), "wrapper: pairs differ"
        assert np.allclose(got["thickness"].values, old[0], rtol=1e-6, atol=0), "wrapper: thickness differs"
        assert old[1].sum() > 5
        ref = independent_greedy(p, nr, a, b, float(voxel_size), mt, ma, direction)
        assert ref[3] < 25
        check_property(p, nr, a, b, float(voxel_size), mt, ma, direction, old)


def check_signature_defaults(rng):
    """Options by keyword in any order; None (where the signature has it as default) means the documented default."""
    import inspect

    points, normals, s1, s2, sep = make_case(rng, 90, "tilted", "partial")
    old = orig_measure_thickness_cpu(points, normals, s1, s2, 0.9)
    assert old[1].sum() > 5
    sig = inspect.signature(memthick.measure_thickness_cpu)
    r = memthick.measure_thickness_cpu(
        points, normals, s1, s2, logger=QUIET, direction="1to2", max_angle_degrees=5.0, voxel_size=0.9,
        max_thickness_nm=8.0,
    )
    assert same(r, old)
    r = memthick.measure_thickness_cpu(
        surface2_mask=s2, surface1_mask=s1, normals=normals, points=points, voxel_size=0.9, logger=QUIET,
        max_matches_per_point=25, num_threads=None,
    )
    assert same(r, old)
    defaults = {"max_thickness_nm": 8.0, "max_angle_degrees": 5.0, "max_matches_per_point": 25}
    none_kw = {k: None for k in defaults if sig.parameters[k].default is None}
    if none_kw:
        r = memthick.measure_thickness_cpu(points, normals, s1, s2, 0.9, logger=QUIET, **none_kw)
        assert same(r, old), "None does not reproduce the old default"
        # None for one option must not disturb an explicit value of another
        for k in none_kw:
            kw = dict(max_thickness_nm=5.5, max_angle_degrees=17.0, max_matches_per_point=25)
            kw[k] = None
            ref_kw = dict(kw)
            ref_kw[k] = defaults[k]
            r = memthick.measure_thickness_cpu(points, normals, s1, s2, 0.9, logger=QUIET, **kw)
            o = orig_measure_thickness_cpu(points, normals, s1, s2, 0.9, logger=QUIET, **ref_kw)
            assert same(r, o)
    else:
        for k, v in defaults.items():
            assert sig.parameters[k].default == v
    # 2to1 by keyword
    r = memthick.measure_thickness_cpu(
        points, normals, s1, s2, 0.9, direction="2to1", logger=QUIET, max_angle_degrees=20
    )
    o = orig_measure_thickness_cpu(points, normals, s1, s2, 0.9, direction="2to1", max_angle_degrees=20)
    assert same(r, o)


def main():
    rng = np.random.default_rng(20200)
    t0 = time.time()
    n_cases = 0
    n_pairs = 0
    skipped = 0
    sizes = [20, 21, 37, 60, 100, 150, 240, 400, 600]
    kinds = ["flat", "tilted", "curved"]
    labellings = ["blocks", "shuffled", "partial", "swapped"]
    angle_pool = [1, 1.0, 2.5, 5, 5.0, 10, 15.0, 22.5, 30, 30.0, np.float64(7.0), np.float32(12.0)]
    combos = [(n, k, l) for n in sizes for k in kinds for l in labellings]
    for ci, (n_total, kind, lab) in enumerate(combos):
        points, normals, s1, s2, sep = make_case(rng, n_total, kind, lab)
        voxel_size = float(rng.choice([0.5, 0.78, 1.0, 1.37, 2.1]))
        max_nm = float(rng.uniform(0.8, 1.6)) * sep * voxel_size
        max_angle = angle_pool[int(rng.integers(len(angle_pool)))]
        if ci % 7 == 0:
            max_angle = float(rng.uniform(1, 30))
        for direction in ("1to2", "2to1"):
            ref = independent_greedy(points, normals, s1, s2, voxel_size, max_nm, max_angle, direction)
            if ref[3] >= 25:  # outside the quantifier (fewer than 25 candidates per source point)
                skipped += 1
                continue
            pts0, nrm0, a0, b0 = points.copy(), normals.copy(), s1.copy(), s2.copy()
            new = call_new(points, normals, s1, s2, voxel_size, max_nm, max_angle, direction)
            # inputs untouched
            assert np.array_equal(points, pts0) and np.array_equal(normals, nrm0)
            assert np.array_equal(s1, a0) and np.array_equal(s2, b0)
            old = orig_measure_thickness_cpu(
                points, normals, s1, s2, voxel_size, max_nm, max_angle, direction, logger=QUIET
            )
            assert same(new, old), f"differs from the original function: case {ci} {direction}"
            assert new[0].dtype == np.float32 and new[1].dtype == np.bool_ and new[2].dtype == np.int32
            assert same(new, ref[:3], exact=False), f"differs from the independent greedy: case {ci} {direction}"
            check_property(points, normals, s1, s2, voxel_size, max_nm, max_angle, direction, new)
            n_cases += 1
            n_pairs += int(new[1].sum())

            # second call on the same objects: identical
            again = call_new(points, normals, s1, s2, voxel_size, max_nm, max_angle, direction)
            assert same(again, new)

            if ci % 3 == 0:
                # the numba candidate kernel + the package's one-to-one step give the same pairing
                sm, tm = (s2, s1) if direction == "2to1" else (s1, s2)
                cand = numba_candidates(points, normals, sm, tm, max_nm / voxel_size, max_angle)
                via_kernel = memthick.process_matches_cpu2cpu(list(cand), len(points), voxel_size)
                assert same(via_kernel, new), f"numba kernel candidates differ: case {ci} {direction}"
                via_kernel_o = orig_process_matches_cpu2cpu(list(cand), len(points), voxel_size)
                assert same(via_kernel, via_kernel_o)

            if ci % 4 == 0:
                # rigid motion of all points and normals: same pairing, same thickness
                R = Rotation.random(random_state=int(rng.integers(1 << 30))).as_matrix()
                shift = rng.uniform(-50, 50, 3)
                moved = call_new(points @ R.T + shift, normals @ R.T, s1, s2, voxel_size, max_nm, max_angle, direction)
                assert same(moved, new, exact=False), f"not invariant under rigid motion: case {ci} {direction}"
                # voxel size: same pairing when the limit in voxels is the same, thickness scales
                f = 1.75
                scaled = call_new(points, normals, s1, s2, voxel_size * f, max_nm * f, max_angle, direction)
                assert np.array_equal(scaled[1], new[1]) and np.array_equal(scaled[2], new[2])
                assert np.allclose(scaled[0], new[0] * f, rtol=1e-5)
                # direction swaps the roles of the surfaces
                other = "1to2" if direction == "2to1" else "2to1"
                swapped = call_new(points, normals, s2, s1, voxel_size, max_nm, max_angle, other)
                assert same(swapped, new)

            if ci % 5 == 0:
                # edit the inputs IN PLACE and call again (second and third call on the same objects)
                points += rng.normal(0, 0.2, points.shape)
                new2 = call_new(points, normals, s1, s2, voxel_size, max_nm, max_angle, direction)
                old2 = orig_measure_thickness_cpu(
                    points, normals, s1, s2, voxel_size, max_nm, max_angle, direction, logger=QUIET
                )
                assert same(new2, old2), "differs from the original after the points were edited in place"
                flip = rng.random(len(points)) < 0.05
                normals[flip] *= -1
                s1[:3] = ~s1[:3]
                s2[:3] = ~s1[:3]
                other_angle = 30.0 if max_angle != 30.0 else 3.0
                new3 = call_new(points, normals, s1, s2, voxel_size, max_nm, other_angle, direction)
                old3 = orig_measure_thickness_cpu(
                    points, normals, s1, s2, voxel_size, max_nm, other_angle, direction, logger=QUIET
                )
                assert same(new3, old3), "differs from the original after normals/masks were edited in place"
                ref3 = independent_greedy(points, normals, s1, s2, voxel_size, max_nm, other_angle, direction)
                if ref3[3] < 25:
                    check_property(points, normals, s1, s2, voxel_size, max_nm, other_angle, direction, new3)
                # and back to the first angle
                new4 = call_new(points, normals, s1, s2, voxel_size, max_nm, max_angle, direction)
                old4 = orig_measure_thickness_cpu(
                    points, normals, s1, s2, voxel_size, max_nm, max_angle, direction, logger=QUIET
                )
                assert same(new4, old4)

    # defaults (max_thickness_nm=8.0, max_angle_degrees=5.0, direction='1to2', print logging)
    points, normals, s1, s2, sep = make_case(rng, 80, "curved", "shuffled")
    import io, contextlib

    with contextlib.redirect_stdout(io.StringIO()):
        dflt = memthick.measure_thickness_cpu(points, normals, s1, s2, 1.3)
    old = orig_measure_thickness_cpu(points, normals, s1, s2, 1.3)
    assert same(dflt, old), "defaults differ"
    explicit = call_new(points, normals, s1, s2, 1.3, 8.0, 5.0, "1to2")
    assert same(dflt, explicit), "defaults are not 8.0 nm / 5.0 degrees / 1to2"
    # empty result: nothing within range
    far = call_new(points, normals, s1, s2, 1.0, 0.01, 5.0, "1to2")
    assert not far[1].any() and (far[0] == 0).all()

    # process_matches_cpu2cpu directly: ties, repeated call on the same list object, list edited in place
    lst = [(2.0, 5, 9), (1.0, 3, 9), (1.0, 3, 8), (1.5, 5, 8), (0.5, 1, 2), (0.5, 0, 2)]
    l1, l2 = list(lst), list(lst)
    r1 = memthick.process_matches_cpu2cpu(l1, 10, 2.0)
    r2 = orig_process_matches_cpu2cpu(l2, 10, 2.0)
    assert same(r1, r2) and l1 == l2
    l1.append((0.1, 5, 9)); l2.append((0.1, 5, 9))
    assert same(memthick.process_matches_cpu2cpu(l1, 10, 2.0), orig_process_matches_cpu2cpu(l2, 10, 2.0)) and l1 == l2
    assert same(memthick.process_matches_cpu2cpu([], 4, 1.0), orig_process_matches_cpu2cpu([], 4, 1.0))

    check_signature_defaults(rng)
    check_public_wrapper(rng)

    assert n_cases >= 150, f"too few cases inside the quantifier ({n_cases}, skipped {skipped})"
    print(f"cases checked: {n_cases} (skipped {skipped}), pairs: {n_pairs}, {time.time() - t0:.1f} s")
    print("PASS")


if __name__ == "__main__":
    main()
