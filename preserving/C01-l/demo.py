"""C01 -- EM particle-list files round-trip losslessly for any table column order.

Change under test (b): the two if/elif chains over the format names in Motl.load and Motl.write_out are replaced by one
table name -> class (Motl._motl_classes()) that both look up, and the literal 20 of EmMotl.read_in becomes
len(Motl.motl_columns).

The demo
 1. checks the property against an independent computation: the file is parsed here byte by byte (no emfile, no numpy
    cast: every expected value is struct.pack('<f', v) of the caller's number, NaN -> 0), for many tables, column
    permutations, row indices, NaN patterns and all writing / loading paths;
 2. runs the same inputs through a copy of the ORIGINAL functions (text kept below) and compares file bytes, loaded
    tables, object state and raised errors -- including the boundary inputs the idiom is notorious for (names in another
    spelling: load takes the name as given, write_out lower-cases it; the default argument; names that are no key / no
    string / not hashable; an error raised INSIDE the constructor of the class that was looked up must come out
    unchanged and not as "unsupported format"; files with 19 / 21 columns and the text of their message).
Run: cd /tmp/wt7/C01 && /venv/bin/python /tmp/seedsS/C01/b/demo.py
"""
import sys, os

sys.path.insert(0, os.getcwd())

import contextlib
import copy
import shutil
import struct
import tempfile
import warnings
from pathlib import Path

import numpy as np
import pandas as pd

from cryocat import cryomotl
from cryocat.cryomotl import Motl, EmMotl

CHANGE = "b"

# the field order of the property, written out here independently of Motl.motl_columns
FIELDS = ["score", "geom1", "geom2", "subtomo_id", "tomo_id", "object_id", "subtomo_mean", "x", "y", "z",
          "shift_x", "shift_y", "shift_z", "geom3", "geom4", "geom5", "phi", "psi", "theta", "class"]
assert len(FIELDS) == 20 and len(set(FIELDS)) == 20

F32_MAX = 3.4028234663852886e38

# ----------------------------------------------------------------------------------------------------------------------
# text of the ORIGINAL functions (HEAD of the worktree), docstrings removed
# ----------------------------------------------------------------------------------------------------------------------
ORIG_SRC = '''
def orig_check_df_type(self, input_motl):
    if Motl.check_df_correct_format(input_motl):
        self.df = input_motl.copy()
        self.df.reset_index(inplace=True, drop=True)
        self.df = self.df.fillna(0.0)
    else:
        self.convert_to_motl(input_motl)


def orig_load(cls, input_motl, motl_type="emmotl"):
    if isinstance(input_motl, Motl):
        return copy.deepcopy(input_motl)

    if motl_type == "emmotl":
        return EmMotl(input_motl)
    elif motl_type == "relion":
        return RelionMotl(input_motl)
    elif motl_type == "stopgap":
        return StopgapMotl(input_motl)
    elif motl_type == "dynamo":
        return DynamoMotl(input_motl)
    else:
        raise UserInputError(f"Provided motl file {input_motl} has format that is currently not supported.")


def orig_motl_write_out(self, output_path, motl_type="emmotl"):
    if motl_type.lower() == "emmotl":
        EmMotl(self.df).write_out(output_path)
    elif motl_type.lower() == "relion":
        RelionMotl(self.df).write_out(output_path)
    elif motl_type.lower() == "stopgap":
        StopgapMotl(self.df).write_out(output_path)
    elif motl_type.lower() == "dynamo":
        DynamoMotl(self.df).write_out(output_path)
    else:
        raise UserInputError(f"Provided motl file {output_path} has format that is currently not supported.")


def orig_read_in(emfile_path):
    if not os.path.isfile(emfile_path):
        raise UserInputError(f"Provided file {emfile_path} does not exist.")

    header, parsed_emfile = emfile.read(emfile_path)
    if not len(parsed_emfile[0][0]) == 20:
        raise UserInputError(
            f"Provided file contains {len(parsed_emfile[0][0])} columns, while 20 columns are expected."
        )

    motl_df = pd.DataFrame(data=parsed_emfile[0], dtype=float, columns=Motl.motl_columns)

    return motl_df, header


def orig_em_write_out(self, output_path):
    filled_df = self.df[Motl.motl_columns].fillna(0.0)
    motl_array = filled_df.to_numpy()
    motl_array = motl_array.reshape((1, motl_array.shape[0], motl_array.shape[1])).astype(np.single)
    self.header = {}  # FIXME fails on writing back the header
    emfile.write(output_path, motl_array, self.header, overwrite=True)
'''
_ns = dict(vars(cryomotl))
exec(ORIG_SRC, _ns)


@contextlib.contextmanager
def originals():
    """Install the original functions on the classes for the duration of the block."""
    saved = {
        (Motl, "check_df_type"): Motl.__dict__["check_df_type"],
        (Motl, "load"): Motl.__dict__["load"],
        (Motl, "write_out"): Motl.__dict__["write_out"],
        (EmMotl, "read_in"): EmMotl.__dict__["read_in"],
        (EmMotl, "write_out"): EmMotl.__dict__["write_out"],
    }
    try:
        Motl.check_df_type = _ns["orig_check_df_type"]
        Motl.load = classmethod(_ns["orig_load"])
        Motl.write_out = _ns["orig_motl_write_out"]
        EmMotl.read_in = staticmethod(_ns["orig_read_in"])
        EmMotl.write_out = _ns["orig_em_write_out"]
        yield
    finally:
        for (klass, name), obj in saved.items():
            setattr(klass, name, obj)


# ----------------------------------------------------------------------------------------------------------------------
# independent computation
# ----------------------------------------------------------------------------------------------------------------------
def f32_bytes(value):
    """Little-endian single-precision rounding of one number, a missing value counts as 0."""
    value = float(value)
    if value != value:
        value = 0.0
    return struct.pack("<f", value)


def expected_payload(table):
    """Bytes of the data block: particles in the table's row order (by position), fields in the canonical order."""
    cols = {name: table[name].tolist() for name in FIELDS}  # by NAME, whatever the column order
    out = []
    for i in range(len(table)):
        for name in FIELDS:
            out.append(f32_bytes(cols[name][i]))
    return b"".join(out)


def parse_em(path):
    """Independent EM parser: 512-byte header (machine, 2 unused, type code, three little-endian int32 sizes)."""
    raw = Path(path).read_bytes()
    assert len(raw) >= 512, "file shorter than an EM header"
    machine, _, _, code = struct.unpack("<4b", raw[:4])
    xdim, ydim, zdim = struct.unpack("<3i", raw[4:16])
    return machine, code, (xdim, ydim, zdim), raw[512:]


def check_file(path, table, what):
    machine, code, (xdim, ydim, zdim), payload = parse_em(path)
    n = len(table)
    assert machine == 6, (what, "machine code", machine)
    assert code == 5, (what, "not a float32 volume, type code", code)
    assert (xdim, ydim, zdim) == (20, n, 1), (what, "dims", (xdim, ydim, zdim), "expected", (20, n, 1))
    assert len(payload) == 4 * 20 * n, (what, "payload size", len(payload))
    exp = expected_payload(table)
    if payload != exp:
        got = struct.unpack("<%df" % (20 * n), payload)
        want = struct.unpack("<%df" % (20 * n), exp)
        for k, (g, w) in enumerate(zip(got, want)):
            if struct.pack("<f", g) != struct.pack("<f", w):
                raise AssertionError((what, "row", k // 20, "field", FIELDS[k % 20], "file has", g, "expected", w))
    return exp


def check_loaded(frame, exp_payload, n, what):
    assert isinstance(frame, pd.DataFrame), what
    assert list(frame.columns) == FIELDS, (what, "columns", list(frame.columns))
    assert frame.shape == (n, 20), (what, frame.shape)
    assert list(frame.index) == list(range(n)), (what, "index", list(frame.index)[:5])
    assert all(str(t) == "float64" for t in frame.dtypes), (what, frame.dtypes.unique())
    want = struct.unpack("<%df" % (20 * n), exp_payload)
    k = 0
    for i in range(n):
        row = frame.iloc[i].tolist()
        for j in range(20):
            g, w = row[j], float(want[k])
            if struct.pack("<d", g) != struct.pack("<d", w):  # exact, sign of zero included
                raise AssertionError((what, "row", i, "field", FIELDS[j], "loaded", g, "expected", w))
            k += 1


# ----------------------------------------------------------------------------------------------------------------------
# inputs
# ----------------------------------------------------------------------------------------------------------------------
SPECIAL = [0.0, -0.0, 1.0, -1.0, 0.5, 180.0, -180.0, 360.0, 90.0, 1e-3, 16777216.0, 16777217.0, 16777219.0,
           1.0 + 2.0 ** -24, 1.0 + 3 * 2.0 ** -24, 1.0 - 2.0 ** -25, F32_MAX, -F32_MAX, 1e38, -1e38, 1.17549435e-38,
           1e-40, -1e-40, 1.4e-45, 7e-46, 1e-50, 1e-300, 0.1, 1 / 3, 2 / 3, 123456.789, 99999.99999, 4095.9999, 1e10]


def random_values(rng, n):
    kind = rng.integers(0, 5, size=(n, 20))
    v = np.where(kind == 0, rng.uniform(-1000, 1000, size=(n, 20)), 0.0)
    v = np.where(kind == 1, rng.integers(-5, 2000, size=(n, 20)).astype(float), v)
    v = np.where(kind == 2, rng.uniform(-180, 180, size=(n, 20)), v)
    v = np.where(kind == 3, rng.choice(SPECIAL, size=(n, 20)), v)
    v = np.where(kind == 4, rng.uniform(-1, 1, size=(n, 20)) * 10.0 ** rng.integers(-44, 38, size=(n, 20)), v)
    return v.astype(np.float64)


def punch_holes(rng, values, mode):
    v = values.copy()
    n = v.shape[0]
    if mode == "none":
        pass
    elif mode == "random":
        v[rng.random(v.shape) < 0.15] = np.nan
    elif mode == "first_cell":
        v[0, 0] = np.nan
    elif mode == "last_cell":
        v[n - 1, 19] = np.nan
    elif mode == "row":
        v[rng.integers(0, n), :] = np.nan
    elif mode == "column":
        v[:, rng.integers(0, 20)] = np.nan
    elif mode == "all":
        v[:, :] = np.nan
    else:
        raise ValueError(mode)
    return v


def make_index(rng, n, mode):
    if mode == "default":
        return None
    if mode == "shuffled":
        return list(rng.permutation(n))
    if mode == "offset":
        return list(range(100, 100 + n))
    if mode == "duplicates":
        return [7] * n
    if mode == "labels":
        return ["p%03d" % (n - i) for i in range(n)]
    if mode == "negative_step":
        return list(range(0, -2 * n, -2))
    raise ValueError(mode)


def build_table(values, perm, index, how):
    """A table holding `values` (canonical field order, one row per particle) with its columns in the order `perm`."""
    names = [FIELDS[k] for k in perm]
    if how == "dict":
        table = pd.DataFrame({FIELDS[k]: values[:, k].copy() for k in perm})
    elif how == "array":
        table = pd.DataFrame(values[:, perm].copy(), columns=names)
    elif how == "select":
        table = pd.DataFrame(values.copy(), columns=FIELDS)[names]
    elif how == "fortran":
        table = pd.DataFrame(np.asfortranarray(values[:, perm]), columns=names)
    else:
        raise ValueError(how)
    if index is not None:
        table.index = index
    assert list(table.columns) == names
    return table


def structured_perms():
    ident = list(range(20))
    perms = [ident, ident[::-1], sorted(ident, key=lambda k: FIELDS[k]), sorted(ident, key=lambda k: FIELDS[k])[::-1]]
    perms += [ident[k:] + ident[:k] for k in range(1, 20)]
    perms += [[k ^ 1 for k in ident]]  # neighbours swapped
    perms += [ident[10:] + ident[:10][::-1], ident[1::2] + ident[0::2]]
    # phi / psi / theta and x / y / z interchanged, everything else in place
    p = ident[:]
    p[16], p[17], p[18] = 18, 16, 17
    p[7], p[8], p[9] = 9, 7, 8
    perms.append(p)
    return perms


# ----------------------------------------------------------------------------------------------------------------------
# the writing paths of the quantifier (and a few more call sequences over the same objects)
# ----------------------------------------------------------------------------------------------------------------------
def w_motl_named(table, path):
    Motl(table).write_out(path, "emmotl")


def w_motl_default(table, path):
    Motl(table).write_out(path)


def w_motl_keyword_case(table, path):
    Motl(table).write_out(output_path=path, motl_type="EmMotl")


def w_emmotl(table, path):
    EmMotl(table).write_out(path)


def w_emmotl_of_emmotl(table, path):
    EmMotl(EmMotl(table)).write_out(path)


def w_load_frame(table, path):
    Motl.load(table).write_out(path)


def w_load_frame_named(table, path):
    Motl.load(table, "emmotl").write_out(path)


def w_load_motl(table, path):
    Motl.load(Motl(table)).write_out(path, "emmotl")


def w_holes_after_construction(table, path):
    """The constructor fills the holes; the same holes are put back into the object's table before writing."""
    m = EmMotl(table)
    mask = table.isna().to_numpy()
    vals = m.df.to_numpy(dtype=float).copy()
    vals[mask] = np.nan
    m.df = pd.DataFrame(vals, columns=list(m.df.columns))
    m.write_out(path)


def w_twice_same_object(table, path):
    m = EmMotl(table)
    m.write_out(path + ".first")
    m.write_out(path)
    m.write_out(path)  # overwrite
    assert Path(path + ".first").read_bytes() == Path(path).read_bytes(), "second write differs from the first"
    m2 = Motl(table)
    m2.write_out(path + ".first", "emmotl")
    m2.write_out(path, "emmotl")
    assert Path(path + ".first").read_bytes() == Path(path).read_bytes(), "second Motl write differs from the first"
    os.remove(path + ".first")


def w_pathlib(table, path):
    EmMotl(table).write_out(Path(path))


def w_reloaded(table, path):
    """write, load, write the loaded list again: the second file must be the same list."""
    EmMotl(table).write_out(path + ".tmp")
    EmMotl(path + ".tmp").write_out(path)
    os.remove(path + ".tmp")


WRITERS = [w_motl_named, w_motl_default, w_motl_keyword_case, w_emmotl, w_emmotl_of_emmotl, w_load_frame,
           w_load_frame_named, w_load_motl, w_holes_after_construction, w_twice_same_object, w_pathlib, w_reloaded]


def loaders(path):
    yield "Motl.load(path)", Motl.load(path).df
    yield "Motl.load(path, 'emmotl')", Motl.load(path, "emmotl").df
    yield "EmMotl(path)", EmMotl(path).df
    yield "EmMotl(Path)", EmMotl(Path(path)).df
    yield "EmMotl.read_in", EmMotl.read_in(path)[0]


def frame_state(frame):
    cols = []
    for name in frame.columns:
        col = frame[name]
        if col.dtype == object:
            cols.append((str(name), "object", repr(col.tolist())))
        else:
            cols.append((str(name), str(col.dtype), col.to_numpy().tobytes()))
    return (repr(list(frame.index)), cols)


def property_case(table, tmp, tag):
    """Property for one table over all writing and loading paths; returns everything observable for the comparison."""
    before = frame_state(table)
    n = len(table)
    seen = []
    for writer in WRITERS:
        path = os.path.join(tmp, "out.em")
        if os.path.exists(path):
            os.remove(path)
        what = (tag, writer.__name__)
        writer(table, path)
        exp = check_file(path, table, what)
        assert frame_state(table) == before, (what, "the caller's table was modified")
        for lname, frame in loaders(path):
            check_loaded(frame, exp, n, what + (lname,))
        seen.append((writer.__name__, Path(path).read_bytes()))
    return seen


def outcome(fn):
    try:
        with warnings.catch_warnings():
            warnings.simplefilter("ignore")
            return ("ok", fn())
    except Exception as err:  # noqa: BLE001 -- the comparison is about which error comes out
        return ("error", type(err).__name__, str(err))


def both(fn):
    """fn() with the functions of the tree and with the original functions; the outcomes must be identical."""
    now = outcome(fn)
    with originals():
        ref = outcome(fn)
    assert now == ref, ("tree and original differ", getattr(fn, "__name__", fn), str(now)[:300], str(ref)[:300])
    if os.environ.get("DEMO_VERBOSE"):
        print("   ", now[0], *(str(x)[:110] for x in now[1:3]) if now[0] == "error" else "")
    return now


# ----------------------------------------------------------------------------------------------------------------------
def main():
    rng = np.random.default_rng(20240901)
    tmp = tempfile.mkdtemp(prefix="c01_demo_")
    n_prop = 0
    n_cmp = 0
    try:
        # ---- 1. property, structured permutations on a table whose every cell is distinct ----------------------------
        for n in (1, 3):
            values = np.array([[100.0 * k + i + 0.25 for k in range(20)] for i in range(n)])
            for pi, perm in enumerate(structured_perms()):
                table = build_table(values, perm, None, ("dict", "array", "select")[pi % 3])
                now = property_case(table, tmp, ("structured", n, pi))
                with originals():
                    ref = property_case(table, tmp, ("structured/original", n, pi))
                assert now == ref, ("tree and original write different files", n, pi)
                n_prop += 1

        # ---- 2. property, random tables ---------------------------------------------------------------------------
        hole_modes = ["none", "random", "first_cell", "last_cell", "row", "column", "all"]
        index_modes = ["default", "shuffled", "offset", "duplicates", "labels", "negative_step"]
        hows = ["dict", "array", "select", "fortran"]
        case = 0
        for n in (1, 2, 3, 6, 17, 40):
            for hm in hole_modes:
                for im in index_modes:
                    case += 1
                    if n > 6 and (case % 3):
                        continue  # keep the run short; the small sizes are run in full
                    values = punch_holes(rng, random_values(rng, n), hm)
                    perm = list(rng.permutation(20))
                    table = build_table(values, perm, make_index(rng, n, im), hows[case % 4])
                    now = property_case(table, tmp, ("random", n, hm, im))
                    with originals():
                        ref = property_case(table, tmp, ("random/original", n, hm, im))
                    assert now == ref, ("tree and original write different files", n, hm, im)
                    n_prop += 1

        # ---- 3. every special value in every field, once as the only particle -------------------------------------------
        for k, v in enumerate(SPECIAL):
            values = np.full((1, 20), v)
            table = build_table(values, list(rng.permutation(20)), [k], "dict")
            property_case(table, tmp, ("special", v))
            n_prop += 1

        # ---- 4. tree against original on inputs at and beyond the edge of the quantifier ----------------------------------
        path = os.path.join(tmp, "edge.em")

        def write_and_read(make_obj, write=lambda m, p: m.write_out(p)):
            def run():
                if os.path.exists(path):
                    os.remove(path)
                m = make_obj()
                res = write(m, path)
                data = Path(path).read_bytes() if os.path.exists(path) else None
                back = outcome(lambda: frame_state(Motl.load(path).df))
                return (res, data, frame_state(m.df), getattr(m, "header", "no header"), back)
            return run

        perm = list(rng.permutation(20))
        names = [FIELDS[k] for k in perm]
        base = build_table(random_values(rng, 4), perm, None, "dict")
        edge_tables = {
            "empty": base.iloc[:0],
            "empty_object_dtype": pd.DataFrame(columns=names),
            "created_empty": Motl.create_empty_motl_df(),
            "int_columns": base.astype({"subtomo_id": "int64", "tomo_id": "int32", "class": "int8"}).round(),
            "all_int": (base.clip(-1000, 1000)).astype("int64"),
            "float32": base.clip(-1e30, 1e30).astype("float32"),
            "bool_column": base.assign(geom1=[True, False, True, False])[names],
            "object_none": base.astype({"geom2": object}).assign(geom2=[None, 1.5, None, 2.0])[names],
            "object_no_holes": base.astype({"geom2": object}),
            "nullable_int": base.assign(tomo_id=pd.array([1, None, 3, None], dtype="Int64"))[names],
            "nullable_float": base.assign(score=pd.array([0.5, None, 0.25, None], dtype="Float64"))[names],
            "inf": base.assign(score=[np.inf, -np.inf, 1.0, np.nan])[names],
            "overflow": base.assign(x=[1e39, -1e39, 3.5e38, 1e300])[names],
            "extra_column": base.assign(extra=1.0),
            "missing_column": base.drop(columns=["phi"]),
            "duplicate_column": pd.concat([base, base[["x"]]], axis=1),
            "single_nan": base.iloc[:1].assign(theta=np.nan)[names],
        }
        for name, table in edge_tables.items():
            for label, make in (
                ("EmMotl", lambda t=table: EmMotl(t)),
                ("Motl", lambda t=table: Motl(t)),
                ("Motl.load", lambda t=table: Motl.load(t)),
                ("EmMotl(EmMotl)", lambda t=table: EmMotl(EmMotl(t))),
            ):
                both(write_and_read(make))
                n_cmp += 1
            both(write_and_read(lambda t=table: Motl(t), lambda m, p: m.write_out(p, "emmotl")))
            n_cmp += 1

        # holes put into an EmMotl after construction, and columns removed / added afterwards
        def edited(kind):
            def make():
                m = EmMotl(base)
                if kind == "nan_first":
                    m.df.iloc[0, 0] = np.nan
                elif kind == "nan_last":
                    m.df.iloc[-1, -1] = np.nan
                elif kind == "nan_all":
                    m.df.loc[:, :] = np.nan
                elif kind == "extra":
                    m.df["extra"] = np.nan  # a hole in a column that is not written
                elif kind == "dropped":
                    m.df = m.df.drop(columns=["class"])
                elif kind == "none_in_object":
                    m.df["geom4"] = np.array([None, 1.0, None, 2.0], dtype=object)
                elif kind == "emptied":
                    m.df = m.df.iloc[:0]
                return m
            return make

        for kind in ("nan_first", "nan_last", "nan_all", "extra", "dropped", "none_in_object", "emptied"):
            both(write_and_read(edited(kind)))
            n_cmp += 1

        # dispatch: names of the formats, their spelling, defaults and things that are no names at all
        for mt in ("emmotl", "EMMOTL", "EmMotl", "emmotl ", "", "em", "relion", "stopgap", "dynamo", "Relion", "mod",
                   None, 5, ["emmotl"], ("emmotl",), b"emmotl", np.str_("emmotl")):
            both(write_and_read(lambda: Motl(base), lambda m, p, mt=mt: m.write_out(os.path.splitext(p)[0] + ".em", mt)))
            good = os.path.join(tmp, "good.em")
            EmMotl(base).write_out(good)
            both(lambda mt=mt: frame_state(Motl.load(good, mt).df))
            both(lambda mt=mt: type(Motl.load(base, mt)).__name__)
            both(lambda mt=mt: type(Motl.load(Motl(base), mt)).__name__)
            n_cmp += 4

        # reading: files that are no particle lists
        import emfile

        def em_with(array, name):
            p = os.path.join(tmp, name)
            emfile.write(p, array, {}, overwrite=True)
            return p

        odd_files = [
            os.path.join(tmp, "does_not_exist.em"),
            tmp,  # a directory
            em_with(np.zeros((1, 3, 19), dtype=np.float32), "c19.em"),
            em_with(np.zeros((1, 3, 21), dtype=np.float32), "c21.em"),
            em_with(np.arange(60, dtype=np.float64).reshape(1, 3, 20) / 7.0, "double.em"),
            em_with(np.arange(60, dtype=np.int32).reshape(1, 3, 20), "int32.em"),
            em_with(np.arange(60, dtype=np.int16).reshape(1, 3, 20), "int16.em"),
            em_with(np.arange(60, dtype=np.int8).reshape(1, 3, 20), "int8.em"),
            em_with(np.arange(120, dtype=np.float32).reshape(2, 3, 20), "two_slabs.em"),
            em_with(np.zeros((1, 0, 20), dtype=np.float32), "no_rows.em"),
            em_with(np.zeros((0, 3, 20), dtype=np.float32), "no_slab.em"),
        ]
        short = os.path.join(tmp, "short.em")
        Path(short).write_bytes(b"\x06\x00\x00\x05" + b"\x00" * 100)
        odd_files.append(short)
        truncated = os.path.join(tmp, "truncated.em")
        Path(truncated).write_bytes(Path(good).read_bytes()[:-8])
        odd_files.append(truncated)
        for p in odd_files:
            for fn in (lambda p=p: frame_state(EmMotl(p).df), lambda p=p: frame_state(Motl.load(Path(p)).df),
                       lambda p=p: (frame_state(EmMotl.read_in(p)[0]), sorted(EmMotl.read_in(p)[1]))):
                both(fn)
                n_cmp += 1

        # the table (when the tree has one) holds exactly the four names of the original chains and their classes
        if hasattr(Motl, "_motl_classes"):
            table_now = Motl._motl_classes()
            assert table_now == {"emmotl": cryomotl.EmMotl, "relion": cryomotl.RelionMotl,
                                 "stopgap": cryomotl.StopgapMotl, "dynamo": cryomotl.DynamoMotl}, table_now
            table_now["emmotl"] = None  # a caller playing with the returned dict must not reach later calls
            assert Motl._motl_classes()["emmotl"] is cryomotl.EmMotl
        # an error from inside the constructor keeps its type: a table with a wrong column set through every name
        bad = base.drop(columns=["phi"])
        for mt in ("emmotl", "relion", "stopgap", "dynamo", "nothing"):
            both(lambda mt=mt: type(Motl.load(bad, mt)).__name__)
            both(lambda mt=mt: type(Motl.load(os.path.join(tmp, "does_not_exist.em"), mt)).__name__)
            both(lambda mt=mt: type(Motl.load(12345, mt)).__name__)
            n_cmp += 3
        # subclasses inherit load / write_out: called on them, the same classes come out
        for klass in (cryomotl.EmMotl, cryomotl.StopgapMotl, cryomotl.DynamoMotl):
            both(lambda klass=klass: type(klass.load(good)).__name__)
            both(lambda klass=klass: type(klass.load(base, "stopgap")).__name__)
            both(write_and_read(lambda klass=klass: klass(base), lambda m, p: Motl.write_out(m, p, "emmotl")))
            n_cmp += 3

        # constructor state: table, header argument, no input
        for hdr in (None, {}, {"comment": "x"}, {"xdim": 1}):
            both(lambda hdr=hdr: (frame_state(EmMotl(base, header=hdr).df), EmMotl(base, header=hdr).header))
            both(lambda hdr=hdr: (frame_state(EmMotl(good, header=hdr).df), EmMotl(good, header=hdr).header))
            both(lambda hdr=hdr: (frame_state(EmMotl(header=hdr).df), EmMotl(header=hdr).header))
            n_cmp += 3

        # check_df_type through another subclass that shares it (the fill must behave the same there)
        holes = build_table(punch_holes(rng, random_values(rng, 5), "random"), perm, None, "dict")
        for klass in (cryomotl.StopgapMotl, cryomotl.DynamoMotl, cryomotl.RelionMotl, cryomotl.EmMotl):
            for t in (holes, base, base.iloc[:0], edge_tables["object_none"], edge_tables["nullable_int"]):
                both(lambda klass=klass, t=t: frame_state(klass(t).df))
                n_cmp += 1
    finally:
        shutil.rmtree(tmp, ignore_errors=True)

    print(f"change {CHANGE}: property held for {n_prop} tables x {len(WRITERS)} writing paths x 5 loading paths; "
          f"{n_cmp} edge comparisons tree == original")
    print("PASS")


if __name__ == "__main__":
    main()
