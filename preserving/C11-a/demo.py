"""C11 demo: map files round-trip voxels and axis order across MRC, REC and EM.

Run as:  cd /tmp/wt6/C11 && /venv/bin/python /tmp/seedsP/C11/<x>/demo.py

Checks the property against independent header/byte parsers and against verbatim copies of the original
functions (read, write, invert_contrast, em2mrc, mrc2em) executed in the namespace of the module.
"""
import os
import sys

sys.path.insert(0, os.getcwd())

import itertools
import shutil
import struct
import tempfile
import warnings

import numpy as np

from cryocat import cryomap

warnings.filterwarnings("ignore")

FOCUS = "read"  # which function this change touches (informational)

# --------------------------------------------------------------------------------------------------------------------
# verbatim copies of the original functions (docstrings removed)
# --------------------------------------------------------------------------------------------------------------------
ORIGINAL_SOURCE = '''
def read(input_map, transpose=True, data_type=None):
    if isinstance(input_map, str):

        def valid_mrc(filename):
            pattern = r"\\.(mrc|ali|rec|st)(\\.\\d+)?$"
            return bool(re.search(pattern, filename))

        if valid_mrc(input_map):
            data = mrcfile.open(input_map).data
        elif input_map.endswith(".em"):
            data = emfile.read(input_map)[1]
        else:
            raise ValueError("The input map file name", input_map, "is neither em or mrc file!")

        if transpose:
            data = data.transpose(2, 1, 0)
    elif isinstance(input_map, np.ndarray):
        data = np.array(input_map)
    else:
        raise ValueError(f"Input map must be path to valid file or nparray")

    data = np.array(data, copy=True)
    if data_type is not None:
        data = data.astype(data_type)

    return data


def write(data_to_write, file_name, transpose=True, data_type=None, overwrite=True):
    if data_type is not None:
        data_to_write = data_to_write.astype(data_type)

    if transpose and data_to_write.ndim == 3:
        data_to_write = data_to_write.transpose(2, 1, 0)

    if data_to_write.dtype == np.float64:
        data_to_write = data_to_write.astype(np.float32)

    if file_name.endswith(".mrc") or file_name.endswith(".rec"):
        mrcfile.write(name=file_name, data=data_to_write, overwrite=overwrite)
    elif file_name.endswith(".em"):
        emfile.write(file_name, data=data_to_write, overwrite=overwrite)
    else:
        raise ValueError("The output file name", file_name, "has to end with .mrc, .rec or .em!")


def invert_contrast(input_map, output_name=None):
    input_map = read(input_map)
    inverted_map = input_map * (-1)

    if output_name is not None:
        if inverted_map.dtype == np.float64:
            data_type = np.single
        else:
            data_type = inverted_map.dtype

        write(inverted_map, output_name, data_type=data_type)

    return inverted_map


def em2mrc(map_name, invert=False, overwrite=True, output_name=None):
    if not isinstance(map_name, str):
        raise ValueError(f"Input file must be a string, valid path")
    elif not map_name.endswith(".em"):
        raise ValueError(f"Provided path must be .em file")
    data_to_write = read(map_name)

    if invert:
        data_to_write = data_to_write * (-1)

    if output_name is None:
        output_name = map_name[:-2] + "mrc"
    elif not output_name.endswith(".mrc"):
        raise ValueError(f"Specified output file name must end with .mrc")
    write(data_to_write, output_name, overwrite=overwrite)


def mrc2em(map_name, invert=False, overwrite=True, output_name=None):
    if not isinstance(map_name, str):
        raise ValueError(f"Input is not a string")
    else:
        if not map_name.endswith(".mrc"):
            raise ValueError(f"Input file is not .mrc file")
    data_to_write = read(map_name)

    if invert:
        data_to_write = data_to_write * (-1)

    if output_name is None:
        output_name = map_name[:-3] + "em"
    elif not output_name.endswith(".em"):
        raise ValueError(f"Specified output_name is not .em file")

    write(data_to_write, output_name, overwrite=overwrite)
'''

_orig_ns = dict(vars(cryomap))
exec(compile(ORIGINAL_SOURCE, "<original cryomap functions>", "exec"), _orig_ns)


class Orig:
    read = staticmethod(_orig_ns["read"])
    write = staticmethod(_orig_ns["write"])
    invert_contrast = staticmethod(_orig_ns["invert_contrast"])
    em2mrc = staticmethod(_orig_ns["em2mrc"])
    mrc2em = staticmethod(_orig_ns["mrc2em"])


# --------------------------------------------------------------------------------------------------------------------
# independent parsers of the on-disk formats
# --------------------------------------------------------------------------------------------------------------------
MRC_MODES = {0: np.int8, 1: np.int16, 2: np.float32, 6: np.uint16, 12: np.float16}
EM_CODES = {1: np.int8, 2: np.int16, 4: np.int32, 5: np.float32, 9: np.float64}


def parse_mrc(path):
    """Return (nx, ny, nz), array indexed [z, y, x] (x fastest on disk)."""
    raw = open(path, "rb").read()
    nx, ny, nz, mode = struct.unpack("<4i", raw[:16])
    nsymbt = struct.unpack("<i", raw[92:96])[0]
    assert raw[208:212] == b"MAP ", "MRC magic missing"
    assert raw[212:214] == b"\x44\x44", "little-endian machine stamp expected"
    dt = np.dtype(MRC_MODES[mode]).newbyteorder("<")
    body = raw[1024 + nsymbt :]
    assert len(body) == nx * ny * nz * dt.itemsize, "MRC data block length does not match the header"
    return (nx, ny, nz), np.frombuffer(body, dtype=dt).reshape(nz, ny, nx)


def parse_em(path):
    raw = open(path, "rb").read()
    code = raw[3]
    nx, ny, nz = struct.unpack("<3i", raw[4:16])
    dt = np.dtype(EM_CODES[code]).newbyteorder("<")
    body = raw[512:]
    assert len(body) == nx * ny * nz * dt.itemsize, "EM data block length does not match the header"
    return (nx, ny, nz), np.frombuffer(body, dtype=dt).reshape(nz, ny, nx)


def parse_any(path):
    return parse_em(path) if path.endswith(".em") else parse_mrc(path)


def file_bytes(path):
    """Bytes of a file with the MRC label block (contains a time stamp) blanked."""
    raw = bytearray(open(path, "rb").read())
    if not path.endswith(".em"):
        raw[224:1024] = b"\0" * 800
    return bytes(raw)


def same_array(a, b):
    return (
        isinstance(a, np.ndarray)
        and isinstance(b, np.ndarray)
        and a.shape == b.shape
        and a.dtype == b.dtype
        and a.tobytes() == b.tobytes()
    )


def same_layout(a, b):
    return (
        a.flags.c_contiguous == b.flags.c_contiguous
        and a.flags.f_contiguous == b.flags.f_contiguous
        and a.flags.writeable == b.flags.writeable
        and a.flags.owndata == b.flags.owndata
        and a.strides == b.strides
    )


def outcome(fn, *args, **kwargs):
    """('ok', result) or ('err', type, args) for comparing patched and original behaviour."""
    try:
        return ("ok", fn(*args, **kwargs))
    except Exception as e:  # noqa: BLE001
        return ("err", type(e), e.args)


FAILURES = []
CHECKS = [0]


def check(cond, msg):
    CHECKS[0] += 1
    if not cond:
        FAILURES.append(msg)
        if len(FAILURES) <= 25:
            print("FAIL:", msg)


# --------------------------------------------------------------------------------------------------------------------
# input generation
# --------------------------------------------------------------------------------------------------------------------
rng = np.random.default_rng(20260928)
DTYPES = [np.float32, np.float64, np.int16, np.int8]
EXTS = [".mrc", ".rec", ".em"]


def make_array(shape, dtype, special=False):
    if np.issubdtype(dtype, np.floating):
        a = rng.normal(0.0, 50.0, size=shape).astype(dtype)
        if dtype == np.float64:
            a = a + rng.normal(0, 1e-9, size=shape)  # not representable in float32
        if special and a.size >= 4:
            flat = a.reshape(-1)
            flat[0] = -0.0
            flat[1] = 0.0
            flat[-1] = np.finfo(np.float32).max
            flat[-2] = -1e-40  # float32 subnormal
    else:
        info = np.iinfo(dtype)
        a = rng.integers(info.min, info.max, size=shape, endpoint=True).astype(dtype)
        if special and a.size >= 2:
            flat = a.reshape(-1)
            flat[0] = info.min
            flat[-1] = info.max
    return a


def shapes():
    fixed = [(1, 1, 1), (1, 2, 3), (3, 2, 1), (48, 1, 1), (1, 48, 1), (1, 1, 48), (48, 47, 46), (2, 2, 2), (5, 5, 7),
             (7, 5, 5), (4, 9, 4), (16, 16, 16)]
    for s in fixed:
        yield s
    for _ in range(28):
        yield tuple(int(v) for v in rng.integers(1, 49, size=3))


def expected_on_disk(arr, data_type):
    """Independent statement of the narrowing rule: optional cast, then float64 -> float32."""
    e = arr if data_type is None else arr.astype(data_type)
    if e.dtype == np.float64:
        e = e.astype(np.float32)
    return e


# --------------------------------------------------------------------------------------------------------------------
# 1. write -> bytes -> read, all shapes / dtypes / extensions / options
# --------------------------------------------------------------------------------------------------------------------
def test_write_read(tmp):
    data_types = [None, np.float32, np.float64, np.int16, np.single, "float32", np.dtype("int8")]
    n = 0
    for shape in shapes():
        for dtype in DTYPES:
            arr = make_array(shape, dtype, special=(n % 3 == 0))
            keep = arr.copy()
            ext = EXTS[n % 3]
            transpose = (n % 5) != 0
            data_type = data_types[n % len(data_types)]
            if data_type is not None and np.dtype(data_type) == np.int8 and dtype != np.int8:
                data_type = None
            n += 1
            tag = f"shape={shape} dtype={np.dtype(dtype).name} ext={ext} transpose={transpose} data_type={data_type}"
            p_new = os.path.join(tmp, f"w{n}{ext}")
            p_old = os.path.join(tmp, f"o{n}{ext}")

            r = cryomap.write(arr, p_new, transpose=transpose, data_type=data_type)
            Orig.write(arr, p_old, transpose=transpose, data_type=data_type)
            check(r is None, f"write returns None [{tag}]")
            check(same_array(arr, keep), f"write must not modify its input [{tag}]")
            check(file_bytes(p_new) == file_bytes(p_old), f"file differs from the original writer [{tag}]")

            exp = expected_on_disk(arr, data_type)
            dims, disk = parse_any(p_new)
            if transpose:
                check(dims == arr.shape, f"header nx,ny,nz {dims} != array shape {arr.shape} [{tag}]")
                check(disk.dtype == exp.dtype, f"disk dtype {disk.dtype} != {exp.dtype} [{tag}]")
                # x fastest: disk[z, y, x] == arr[x, y, z]
                ok = disk.shape == exp.shape[::-1] and all(
                    disk[z, y, x].tobytes() == exp[x, y, z].tobytes()
                    for x, y, z in itertools.islice(np.ndindex(*exp.shape), 0, None, max(1, exp.size // 200))
                )
                check(ok, f"voxel (x,y,z) not at disk position [z,y,x] [{tag}]")
                check(disk.tobytes() == np.ascontiguousarray(exp.transpose(2, 1, 0)).tobytes(),
                      f"disk block is not the x-fastest image of the array [{tag}]")
            else:
                check(dims == arr.shape[::-1], f"header dims {dims} for transpose=False [{tag}]")
                check(disk.tobytes() == np.ascontiguousarray(exp).tobytes(), f"raw block for transpose=False [{tag}]")

            # read back
            back = cryomap.read(p_new, transpose=transpose)
            back_o = Orig.read(p_new, transpose=transpose)
            check(back.shape == arr.shape, f"read shape {back.shape} != {arr.shape} [{tag}]")
            check(same_array(back, exp), f"read values/dtype differ from what was written [{tag}]")
            check(same_array(back, back_o) and same_layout(back, back_o), f"read differs from original read [{tag}]")
            check(back.flags.writeable and back.flags.owndata, f"read result must be an own writeable array [{tag}]")
            # repeated read gives an independent equal array
            back2 = cryomap.read(p_new, transpose=transpose)
            check(same_array(back, back2) and not np.shares_memory(back, back2), f"repeated read [{tag}]")
            # opposite transpose flag gives the reversed axes
            other = cryomap.read(p_new, transpose=not transpose)
            check(same_array(np.ascontiguousarray(other), np.ascontiguousarray(exp.transpose(2, 1, 0))),
                  f"read with the other transpose flag [{tag}]")
            check(same_array(other, Orig.read(p_new, transpose=not transpose)), f"read(other flag) vs original [{tag}]")
            # data_type option of read
            for rdt in (np.float64, np.float32, np.int16, "int32"):
                got = cryomap.read(p_new, transpose=transpose, data_type=rdt)
                ref = Orig.read(p_new, transpose=transpose, data_type=rdt)
                check(same_array(got, exp.astype(rdt)), f"read data_type={rdt} [{tag}]")
                check(same_array(got, ref) and same_layout(got, ref), f"read data_type={rdt} vs original [{tag}]")

            # repeated write on the same object / same path gives the same file; overwrite=False refuses
            before = file_bytes(p_new)
            cryomap.write(arr, p_new, transpose=transpose, data_type=data_type)
            check(file_bytes(p_new) == before, f"second write of the same array changed the file [{tag}]")
            raw_before = open(p_new, "rb").read()
            res = outcome(cryomap.write, keep * 0, p_new, transpose=transpose, data_type=data_type, overwrite=False)
            res_o = outcome(Orig.write, keep * 0, p_new, transpose=transpose, data_type=data_type, overwrite=False)
            check(res[0] == "err" and res[1] is ValueError, f"overwrite=False must raise ValueError [{tag}]")
            check(res[:2] == res_o[:2], f"overwrite=False error differs from original [{tag}]")
            check(open(p_new, "rb").read() == raw_before, f"overwrite=False touched the file [{tag}]")
            os.remove(p_new)
            os.remove(p_old)


# --------------------------------------------------------------------------------------------------------------------
# 2. read: array input, other MRC-like names, errors
# --------------------------------------------------------------------------------------------------------------------
def test_read_misc(tmp):
    for dtype in DTYPES:
        arr = make_array((3, 5, 4), dtype)
        for src in (arr, arr[::2, :, ::-1], arr.transpose(1, 0, 2), np.asfortranarray(arr)):
            for tr in (True, False):
                for dt in (None, np.float32, np.int16):
                    got = cryomap.read(src, transpose=tr, data_type=dt)
                    ref = Orig.read(src, transpose=tr, data_type=dt)
                    exp = np.array(src) if dt is None else np.array(src).astype(dt)
                    check(same_array(got, exp), "read(ndarray) returns the values unchanged (no transposition)")
                    check(same_array(got, ref) and same_layout(got, ref), "read(ndarray) vs original")
                    check(not np.shares_memory(got, src), "read(ndarray) must return a copy")
        # 2-D and 4-D arrays pass through untouched
        for a in (np.arange(6, dtype=dtype).reshape(2, 3), np.arange(24, dtype=dtype).reshape(1, 2, 3, 4)):
            check(same_array(cryomap.read(a), a), "read(ndarray) of other dimensionality")

    arr = make_array((6, 3, 4), np.float32)
    base = os.path.join(tmp, "vol.mrc")
    cryomap.write(arr, base)
    for name in ("t.st", "t.ali", "t.rec", "t.mrc.1", "t.rec.023", "t.st.7", "t.ali.10", "a.em.mrc", "x.y.z.rec",
                 "weird.em.st"):
        p = os.path.join(tmp, name)
        shutil.copy(base, p)
        got = outcome(cryomap.read, p)
        ref = outcome(Orig.read, p)
        check(got[0] == "ok" and same_array(got[1], arr), f"read of MRC-like name {name}")
        check(ref[0] == "ok" and same_array(got[1], ref[1]) and same_layout(got[1], ref[1]), f"{name} vs original")
    em = os.path.join(tmp, "vol.em")
    cryomap.write(arr, em)
    for name in ("a.mrc.em", "b.rec.1.em", "c.em"):
        p = os.path.join(tmp, name)
        shutil.copy(em, p)
        got = cryomap.read(p)
        check(same_array(got, arr) and same_array(got, Orig.read(p)), f"read of EM name {name}")
    bad_inputs = [os.path.join(tmp, "vol.mrcs"), os.path.join(tmp, "vol.mrc.x"), os.path.join(tmp, "vol.em.1"),
                  os.path.join(tmp, "vol.map"), "vol", "", "mrc", ".mrcx", None, 3, [1, 2, 3], b"vol.mrc",
                  os.path.join(tmp, "missing.mrc"), os.path.join(tmp, "missing.em"), os.path.join(tmp, "vol.MRC")]
    for b in bad_inputs:
        got = outcome(cryomap.read, b)
        ref = outcome(Orig.read, b)
        check(got[0] == "err" and got[:2] == ref[:2] and (got[1] is not ValueError or got[2] == ref[2]),
              f"read({b!r}) error behaviour {got} vs original {ref}")
    for b in bad_inputs[:9]:
        got = outcome(cryomap.read, b)
        check(got[0] == "err" and got[1] is ValueError, f"read({b!r}) must raise ValueError")
    # write name errors
    for b in ("out.map", "out.mrc.1", "out.st", "out", "out.em.gz", "out.MRC"):
        got = outcome(cryomap.write, arr, os.path.join(tmp, b))
        ref = outcome(Orig.write, arr, os.path.join(tmp, b))
        check(got[0] == "err" and got[1] is ValueError and got[1:] == ref[1:], f"write to {b} must raise ValueError")
        check(not os.path.exists(os.path.join(tmp, b)), f"write to {b} must not create a file")
    # non 3-D data is written as is (no transposition) -- compare with original only
    img = make_array((5, 9), np.float32)
    for ext in (".mrc", ".rec"):
        p1, p2 = os.path.join(tmp, "img_new" + ext), os.path.join(tmp, "img_old" + ext)
        cryomap.write(img, p1)
        Orig.write(img, p2)
        check(file_bytes(p1) == file_bytes(p2), f"2-D write {ext} vs original")


# --------------------------------------------------------------------------------------------------------------------
# 3. em2mrc / mrc2em / invert_contrast
# --------------------------------------------------------------------------------------------------------------------
def negated(a):
    if np.issubdtype(a.dtype, np.integer):
        return (-(a.astype(np.int64))).astype(a.dtype)  # wraps like two's complement negation
    return -a


def test_convert(tmp):
    n = 0
    stems = ["vol", "a.b", "x.em", "y.mrc", "name with space", "em", "mrc", "v.em.mrc.rec"]
    for shape in itertools.islice(shapes(), 0, 22):
        for dtype in DTYPES:
            n += 1
            arr = make_array(shape, dtype, special=(n % 2 == 0))
            on_disk = expected_on_disk(arr, None)
            stem = stems[n % len(stems)]
            invert = bool(n % 2)
            explicit = (n % 3) == 0
            for direction in ("em2mrc", "mrc2em"):
                src_ext, dst_ext = (".em", ".mrc") if direction == "em2mrc" else (".mrc", ".em")
                d_new = os.path.join(tmp, f"c{n}{direction}")
                d_old = os.path.join(tmp, f"c{n}{direction}_orig")
                outs = []
                for d, mod in ((d_new, cryomap), (d_old, Orig)):
                    os.makedirs(d)
                    src = os.path.join(d, stem + src_ext)
                    Orig.write(arr, src)
                    src_raw = open(src, "rb").read()
                    out = os.path.join(d, "explicit.out" + dst_ext) if explicit else os.path.join(d, stem + dst_ext)
                    fn = getattr(mod, direction)
                    kwargs = {"invert": invert}
                    if explicit:
                        kwargs["output_name"] = out
                    r = fn(src, **kwargs)
                    check(r is None, f"{direction} returns None")
                    check(open(src, "rb").read() == src_raw, f"{direction} must not touch the source file")
                    check(sorted(os.listdir(d)) == sorted({os.path.basename(src), os.path.basename(out)}),
                          f"{direction} created unexpected files: {os.listdir(d)} (stem={stem!r} explicit={explicit})")
                    outs.append(out)
                tag = f"{direction} shape={shape} dtype={np.dtype(dtype).name} invert={invert} explicit={explicit} stem={stem!r}"
                out = outs[0]
                check(os.path.exists(out), f"output file missing [{tag}]")
                if not os.path.exists(out):
                    continue
                check(file_bytes(outs[0]) == file_bytes(outs[1]), f"converted file differs from original [{tag}]")
                exp = negated(on_disk) if invert else on_disk
                dims, disk = parse_any(out)
                check(dims == arr.shape, f"converted header dims {dims} != {arr.shape} [{tag}]")
                check(disk.dtype == exp.dtype and disk.tobytes() == np.ascontiguousarray(exp.transpose(2, 1, 0)).tobytes(),
                      f"converted voxels differ [{tag}]")
                check(same_array(cryomap.read(out), exp), f"read of converted file [{tag}]")

                # overwrite=False refuses and leaves the target alone; overwrite=True (default) replaces it
                raw = open(out, "rb").read()
                src = os.path.join(d_new, stem + src_ext)
                kw = {"output_name": out} if explicit else {}
                got = outcome(getattr(cryomap, direction), src, invert=not invert, overwrite=False, **kw)
                ref = outcome(getattr(Orig, direction), src, invert=not invert, overwrite=False, **kw)
                check(got[0] == "err" and got[1] is ValueError, f"overwrite=False must raise ValueError [{tag}]")
                check(got[:2] == ref[:2], f"overwrite=False error differs from original [{tag}]")
                check(open(out, "rb").read() == raw, f"overwrite=False modified the target [{tag}]")
                getattr(cryomap, direction)(src, invert=not invert, **kw)
                exp2 = on_disk if invert else negated(on_disk)
                check(same_array(cryomap.read(out), exp2), f"overwrite=True second conversion [{tag}]")
                # overwrite=False on a fresh name works
                fresh = os.path.join(d_new, "fresh" + dst_ext)
                getattr(cryomap, direction)(src, invert=invert, overwrite=False, output_name=fresh)
                check(same_array(cryomap.read(fresh), exp), f"overwrite=False on a new name [{tag}]")
                shutil.rmtree(d_new)
                shutil.rmtree(d_old)

    # argument errors
    arr = make_array((3, 4, 5), np.float32)
    em, mrc = os.path.join(tmp, "e.em"), os.path.join(tmp, "m.mrc")
    cryomap.write(arr, em)
    cryomap.write(arr, mrc)
    listing = sorted(os.listdir(tmp))
    cases = [
        ("em2mrc", (mrc,), {}), ("em2mrc", (None,), {}), ("em2mrc", (3,), {}), ("em2mrc", (arr,), {}),
        ("em2mrc", (em,), {"output_name": os.path.join(tmp, "o.em")}),
        ("em2mrc", (em,), {"output_name": os.path.join(tmp, "o.rec")}),
        ("em2mrc", (em,), {"output_name": os.path.join(tmp, "o")}),
        ("em2mrc", (os.path.join(tmp, "missing.em"),), {}),
        ("em2mrc", (os.path.join(tmp, "missing.em"),), {"output_name": "bad.name"}),
        ("em2mrc", (os.path.join(tmp, "e.EM"),), {}),
        ("mrc2em", (em,), {}), ("mrc2em", (None,), {}), ("mrc2em", (3.5,), {}), ("mrc2em", (arr,), {}),
        ("mrc2em", (os.path.join(tmp, "m.rec"),), {}),
        ("mrc2em", (mrc,), {"output_name": os.path.join(tmp, "o.mrc")}),
        ("mrc2em", (mrc,), {"output_name": os.path.join(tmp, "o.emx")}),
        ("mrc2em", (os.path.join(tmp, "missing.mrc"),), {}),
        ("mrc2em", (os.path.join(tmp, "missing.mrc"),), {"output_name": "bad.name"}),
    ]
    for name, args, kwargs in cases:
        got = outcome(getattr(cryomap, name), *args, **kwargs)
        ref = outcome(getattr(Orig, name), *args, **kwargs)
        check(got[0] == "err", f"{name}{args}{kwargs} must raise")
        check(got[:2] == ref[:2] and (got[1] is not ValueError or got[2] == ref[2]),
              f"{name} error {got} differs from original {ref}")
        check(sorted(os.listdir(tmp)) == listing, f"{name} with bad arguments created a file")
    os.remove(em)
    os.remove(mrc)


def test_invert_contrast(tmp):
    n = 0
    for shape in itertools.islice(shapes(), 0, 16):
        for dtype in DTYPES:
            n += 1
            arr = make_array(shape, dtype, special=True)
            keep = arr.copy()
            ext = EXTS[n % 3]
            src = os.path.join(tmp, f"ic_src{n}{EXTS[(n + 1) % 3]}")
            Orig.write(arr, src)
            for inp, stored in ((arr, arr), (src, expected_on_disk(arr, None))):
                out_new = os.path.join(tmp, f"ic_new{n}{ext}")
                out_old = os.path.join(tmp, f"ic_old{n}{ext}")
                got = cryomap.invert_contrast(inp, output_name=out_new)
                ref = Orig.invert_contrast(inp, output_name=out_old)
                tag = f"invert_contrast shape={shape} dtype={np.dtype(dtype).name} ext={ext} input={'array' if inp is arr else 'file'}"
                check(same_array(got, negated(stored)), f"returned map is not the negation [{tag}]")
                check(same_array(got, ref) and same_layout(got, ref), f"returned map differs from original [{tag}]")
                check(file_bytes(out_new) == file_bytes(out_old), f"written file differs from original [{tag}]")
                dims, disk = parse_any(out_new)
                exp = expected_on_disk(negated(stored), None)
                check(dims == arr.shape and disk.dtype == exp.dtype
                      and disk.tobytes() == np.ascontiguousarray(exp.transpose(2, 1, 0)).tobytes(), f"file content [{tag}]")
                got2 = cryomap.invert_contrast(inp)
                check(same_array(got2, got), f"no output_name gives the same map [{tag}]")
                check(same_array(arr, keep), f"input array modified [{tag}]")
                os.remove(out_new)
                os.remove(out_old)
            os.remove(src)


def main():
    tmp = tempfile.mkdtemp(prefix="c11demo_")
    try:
        test_write_read(tmp)
        test_read_misc(tmp)
        test_convert(tmp)
        test_invert_contrast(tmp)
    finally:
        shutil.rmtree(tmp, ignore_errors=True)
    print(f"focus: {FOCUS}; checks: {CHECKS[0]}; failures: {len(FAILURES)}")
    if FAILURES:
        print("FAIL")
        sys.exit(1)
    print("PASS")


if __name__ == "__main__":
    main()
