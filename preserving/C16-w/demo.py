"""C16 demo: dose filtering applies the Grant-Grigorieff exposure attenuation.

Run as:  cd /tmp/wt13/C16 && /venv/bin/python /tmp/seedsW/C16/b/demo.py

1. property against an independent computation (np.fft.fftfreq based, unshifted DFT),
2. consequences (zero dose identity, mean kept, linearity, power, monotonicity, composition),
3. patched functions against a verbatim copy of the original functions (bit for bit),
4. the caller's stack / dose objects are left untouched, repeated calls give the same answer.
"""
import os
import sys

sys.path.insert(0, os.getcwd())

import contextlib
import io
import tempfile
import warnings

import numpy as np

warnings.simplefilter("ignore")

from cryocat import tiltstack, ioutils, cryomap  # noqa: E402

# --------------------------------------------------------------------------------------
# verbatim copy of the original functions (HEAD b1093bd), docstrings dropped
# --------------------------------------------------------------------------------------
ORIGINAL = '''
def dose_filter(tilt_stack, pixel_size, total_dose, output_file=None, input_order="xyz", output_order="xyz"):

    print(f"Dose-filtering started...")

    ts = TiltStack(tilt_stack=tilt_stack, input_order=input_order, output_order=output_order)
    pixel_size = float(pixel_size)
    total_dose = ioutils.total_dose_load(total_dose)

    # Precalculate frequency array
    frequency_array = np.zeros((ts.height, ts.width))
    cen_x = ts.width // 2  # Center for array is half the image size
    cen_y = ts.height // 2  # Center for array is half the image size

    rstep_x = 1 / (ts.width * pixel_size)  # reciprocal pixel size
    rstep_y = 1 / (ts.height * pixel_size)

    # Loop to fill array with frequency values
    for x in range(ts.width):
        for y in range(ts.height):
            d = np.sqrt(((x - cen_x) ** 2 * rstep_x**2) + ((y - cen_y) ** 2 * rstep_y**2))
            frequency_array[y, x] = d

    # Generate filtered stack
    ts.data = np.array(ts.data, copy=True)  # Make ts.data writeable
    for z in range(ts.n_tilts):
        image = ts.data[z, :, :]
        ts.data[z, :, :] = dose_filter_single_image(image, total_dose[z], frequency_array)

    ts.write_out(output_file)

    print(f"...dose-filtering finished.")

    return ts.correct_order()


def dose_filter_single_image(image, dose, freq_array):

    # Hard-coded resolution-dependent critical exposures
    # These parameters come from the fitted numbers in the Grant and Grigorieff paper.
    a = 0.245
    b = -1.665
    c = 2.81

    # Calculate Fourier transform
    ft = np.fft.fftshift(np.fft.fft2(image))

    # Calculate exposure-dependent amplitude attenuator
    q = np.exp((-dose) / (2 * ((a * (freq_array**b)) + c)))

    # Attenuate and inverse transform
    filtered_image = np.fft.ifft2(np.fft.ifftshift(ft * q))

    return filtered_image.real
'''
_ns = {"np": np, "ioutils": ioutils, "TiltStack": tiltstack.TiltStack}
exec(ORIGINAL, _ns)
orig_dose_filter = _ns["dose_filter"]
orig_single = _ns["dose_filter_single_image"]

FAILS = []


def check(cond, msg):
    if not cond:
        FAILS.append(msg)
        if len(FAILS) <= 20:
            print("FAIL:", msg)


def quiet(fn, *args, **kwargs):
    with contextlib.redirect_stdout(io.StringIO()):
        return fn(*args, **kwargs)


# --------------------------------------------------------------------------------------
# independent model: unshifted DFT, np.fft.fftfreq frequencies in cycles per Angstrom
# --------------------------------------------------------------------------------------
def attenuation(height, width, pixel_size, dose):
    fy = np.fft.fftfreq(height, d=pixel_size)[:, None]
    fx = np.fft.fftfreq(width, d=pixel_size)[None, :]
    f = np.sqrt(fx * fx + fy * fy)
    q = np.ones((height, width))
    nz = f > 0
    q[nz] = np.exp(-dose / (2.0 * (0.245 * f[nz] ** (-1.665) + 2.81)))
    return q


def model(stack_zyx, pixel_size, doses):
    out = np.empty(stack_zyx.shape, dtype=float)
    for i in range(stack_zyx.shape[0]):
        h, w = stack_zyx.shape[1:]
        q = attenuation(h, w, pixel_size, float(doses[i]))
        out[i] = np.fft.ifft2(np.fft.fft2(stack_zyx[i].astype(float)) * q).real
    return out


def same(a, b):
    return a.shape == b.shape and a.dtype == b.dtype and np.array_equal(a, b, equal_nan=True)


rng = np.random.default_rng(16016)
SIZES = [4, 5, 6, 7, 8, 9, 15, 16, 31, 32, 33, 63, 64]


def random_case(k):
    n = int(rng.integers(1, 11))
    if k % 7 == 0:
        h, w = int(rng.choice([4, 5, 63, 64])), int(rng.choice([4, 5, 63, 64]))
    else:
        h, w = int(rng.integers(4, 65)), int(rng.integers(4, 65))
    px = float(rng.uniform(0.5, 10.0)) if k % 5 else float(rng.choice([0.5, 1.0, 10.0]))
    doses = rng.uniform(0, 300, size=n)
    mode = k % 6
    if mode == 0:
        doses = np.sort(doses)
    elif mode == 1:
        doses = np.sort(doses)[::-1].copy()
    elif mode == 2:
        doses[rng.integers(0, n)] = 0.0
    elif mode == 3:
        doses[:] = rng.choice([0.0, 300.0, 37.5])
    stack = rng.normal(rng.uniform(-5, 5), rng.uniform(0.1, 20), size=(n, h, w))
    return n, h, w, px, doses, stack


# --------------------------------------------------------------------------------------
# 1 + 3 + 4: formula, original vs current, inputs untouched, repeated calls
# --------------------------------------------------------------------------------------
for k in range(120):
    n, h, w, px, doses, stack = random_case(k)
    order_in = "zyx" if k % 2 else "xyz"
    order_out = "zyx" if (k // 2) % 2 else "xyz"
    arg = stack if order_in == "zyx" else np.ascontiguousarray(stack.transpose(2, 1, 0))
    if k % 3 == 0:
        arg = arg.astype(np.float32)
    arg_before = arg.copy()
    dose_arg = doses if k % 4 else [float(v) for v in doses]
    if k % 11 == 0:
        dose_arg = np.round(doses).astype(int)  # integer doses
    dose_before = np.array(dose_arg, copy=True)
    px_arg = px if k % 9 else str(px)  # float(pixel_size) accepts a string

    got = quiet(tiltstack.dose_filter, arg, px_arg, dose_arg, input_order=order_in, output_order=order_out)
    ref = quiet(orig_dose_filter, arg, px_arg, dose_arg, input_order=order_in, output_order=order_out)
    again = quiet(tiltstack.dose_filter, arg, px_arg, dose_arg, input_order=order_in, output_order=order_out)

    check(same(got, ref), f"case {k}: current dose_filter differs from the original")
    check(same(got, again), f"case {k}: second call on the same objects differs")
    check(got.dtype == arg.dtype, f"case {k}: dtype {got.dtype} != {arg.dtype}")
    check(got.strides == ref.strides and type(got) is type(ref), f"case {k}: memory layout / array type differs")
    check(got.flags.writeable, f"case {k}: result is not writeable")
    check(same(arg, arg_before), f"case {k}: the caller's stack was modified")
    check(np.array_equal(np.asarray(dose_arg), dose_before), f"case {k}: the caller's doses were modified")
    check(not np.shares_memory(got, arg), f"case {k}: result shares memory with the input")

    got_zyx = got if order_out == "zyx" else got.transpose(2, 1, 0)
    in_zyx = arg if order_in == "zyx" else arg.transpose(2, 1, 0)
    check(got_zyx.shape == (n, h, w), f"case {k}: shape {got_zyx.shape}")
    expect = model(in_zyx, px, np.asarray(dose_arg, dtype=float))
    scale = np.abs(in_zyx).max() + 1.0
    tol = 1e-9 if arg.dtype == np.float64 else 5e-6
    check(np.abs(got_zyx - expect).max() <= tol * scale, f"case {k}: output is not the attenuated image")
    if arg.dtype == np.float64:
        # frequency by frequency: DFT(out) = q * DFT(in); DC untouched
        for i in range(n):
            q = attenuation(h, w, px, float(np.asarray(dose_arg)[i]))
            fin = np.fft.fft2(in_zyx[i])
            fout = np.fft.fft2(got_zyx[i])
            check(np.abs(fout - q * fin).max() <= 1e-9 * (np.abs(fin).max() + 1), f"case {k}/{i}: DFT ratio")
            check(abs(fout[0, 0] - fin[0, 0]) <= 1e-9 * (abs(fin[0, 0]) + h * w), f"case {k}/{i}: DC changed")
            check(np.all(np.abs(fout) <= np.abs(fin) * (1 + 1e-9) + 1e-9), f"case {k}/{i}: power increased")
            check(abs(got_zyx[i].mean() - in_zyx[i].mean()) <= 1e-10 * scale, f"case {k}/{i}: mean changed")

# --------------------------------------------------------------------------------------
# 2: consequences on float64 stacks
# --------------------------------------------------------------------------------------
for k in range(40):
    n, h, w, px, doses, stack = random_case(k + 1000)
    scale = np.abs(stack).max() + 1.0
    f = lambda s, d: quiet(tiltstack.dose_filter, s, px, d, input_order="zyx", output_order="zyx")  # noqa: E731
    # zero dose is the identity
    z = f(stack, np.zeros(n))
    check(np.abs(z - stack).max() <= 1e-12 * scale, f"cons {k}: zero dose is not the identity")
    # linear
    other = rng.normal(size=stack.shape)
    al, be = rng.uniform(-3, 3, size=2)
    lhs = f(al * stack + be * other, doses)
    rhs = al * f(stack, doses) + be * f(other, doses)
    check(np.abs(lhs - rhs).max() <= 1e-10 * scale, f"cons {k}: not linear")
    # composition d1 then d2 == d1 + d2 (doses limited to the 0..300 range)
    d1 = doses * rng.uniform(0, 1, size=n)
    d2 = doses - d1
    two = f(f(stack, d1), d2)
    one = f(stack, doses)
    check(np.abs(two - one).max() <= 1e-10 * scale, f"cons {k}: d1 then d2 != d1 + d2")
    # more dose attenuates more, at every frequency
    more = f(stack, np.minimum(doses + rng.uniform(0, 50, size=n), 300.0))
    for i in range(n):
        check(
            np.all(np.abs(np.fft.fft2(more[i])) <= np.abs(np.fft.fft2(one[i])) * (1 + 1e-9) + 1e-9),
            f"cons {k}/{i}: more dose attenuates less",
        )
    # permuting (image, dose) pairs permutes the output: per-image pairing
    perm = rng.permutation(n)
    check(np.abs(f(stack[perm], doses[perm]) - one[perm]).max() <= 1e-12 * scale, f"cons {k}: pairing")

# --------------------------------------------------------------------------------------
# pure plane waves: scaled by q(f) and nothing else
# --------------------------------------------------------------------------------------
for k in range(40):
    n = int(rng.integers(1, 11))
    h, w = int(rng.choice(SIZES)), int(rng.choice(SIZES))
    px = float(rng.uniform(0.5, 10.0))
    doses = rng.uniform(0, 300, size=n)
    yy, xx = np.mgrid[0:h, 0:w]
    waves = np.empty((n, h, w))
    expect = np.empty((n, h, w))
    for i in range(n):
        ky = int(rng.integers(-(h // 2), (h - 1) // 2 + 1))
        kx = int(rng.integers(-(w // 2), (w - 1) // 2 + 1))
        if i == 0 and k % 4 == 0:
            ky = kx = 0  # constant image
        ph = rng.uniform(0, 2 * np.pi)
        amp = rng.uniform(0.5, 4)
        offs = rng.uniform(-2, 2)
        wave = amp * np.cos(2 * np.pi * (kx * xx / w + ky * yy / h) + ph)
        fr = np.sqrt((kx / (w * px)) ** 2 + (ky / (h * px)) ** 2)
        q = 1.0 if fr == 0 else np.exp(-doses[i] / (2 * (0.245 * fr**-1.665 + 2.81)))
        waves[i] = wave + offs
        expect[i] = q * wave + offs
    arg = np.ascontiguousarray(waves.transpose(2, 1, 0))
    got = quiet(tiltstack.dose_filter, arg, px, doses)  # default orders xyz -> xyz
    ref = quiet(orig_dose_filter, arg, px, doses)
    check(same(got, ref), f"wave {k}: current differs from the original")
    check(np.abs(got.transpose(2, 1, 0) - expect).max() <= 1e-10, f"wave {k}: plane wave not scaled by q(f)")

# --------------------------------------------------------------------------------------
# dose_filter_single_image on its own (also with a frequency array that is not the stack's)
# --------------------------------------------------------------------------------------
for k in range(60):
    h, w = int(rng.integers(4, 65)), int(rng.integers(4, 65))
    img = rng.normal(size=(h, w))
    if k % 3 == 0:
        img = img.astype(np.float32)
    freq = rng.uniform(0, 1, size=(h, w))
    if k % 2:
        freq[h // 2, w // 2] = 0.0
    dose = [0.0, 300.0, float(rng.uniform(0, 300)), np.float32(12.5), 7][k % 5]
    img0, freq0 = img.copy(), freq.copy()
    got = tiltstack.dose_filter_single_image(img, dose, freq)
    ref = orig_single(img, dose, freq)
    check(same(got, ref), f"single {k}: differs from the original")
    check(same(img, img0) and same(freq, freq0), f"single {k}: inputs modified")
    check(same(got, tiltstack.dose_filter_single_image(img, dose, freq)), f"single {k}: repeated call differs")

# --------------------------------------------------------------------------------------
# doses and stacks from files, output file written
# --------------------------------------------------------------------------------------
with tempfile.TemporaryDirectory() as tmp:
    for k in range(6):
        n, h, w, px, doses, stack = random_case(k + 2000)
        stack = stack.astype(np.float32)
        st_path = os.path.join(tmp, f"ts_{k}.mrc")
        cryomap.write(stack, st_path, transpose=False)
        txt = os.path.join(tmp, f"dose_{k}.txt")
        np.savetxt(txt, doses, fmt="%.6f")
        doses_txt = ioutils.total_dose_load(txt)
        check(np.allclose(doses_txt, doses, atol=1e-6), f"file {k}: txt doses")
        csv = os.path.join(tmp, f"dose_{k}.csv")
        removed = np.zeros(n + 2, dtype=bool)
        removed[[1, n + 1]] = True  # two removed rows; the kept ones pair with the images in order
        full = np.zeros(n + 2)
        full[~removed] = doses
        full[removed] = 999.0
        import pandas as pd

        pd.DataFrame({"CorrectedDose": full, "Removed": removed}).to_csv(csv)
        out_a = os.path.join(tmp, f"out_a_{k}.mrc")
        out_b = os.path.join(tmp, f"out_b_{k}.mrc")
        for dose_arg, tol_d in ((txt, 0), (csv, 0)):
            got = quiet(tiltstack.dose_filter, st_path, px, dose_arg, output_file=out_a, output_order="zyx")
            ref = quiet(orig_dose_filter, st_path, px, dose_arg, output_file=out_b, output_order="zyx")
            check(same(got, ref), f"file {k}: current differs from the original ({dose_arg[-3:]})")
            wa = cryomap.read(out_a, transpose=False)
            wb = cryomap.read(out_b, transpose=False)
            check(same(wa, wb) and same(wa, got), f"file {k}: written stack differs ({dose_arg[-3:]})")
            expect = model(stack, px, ioutils.total_dose_load(dose_arg).astype(float))
            check(np.abs(got - expect).max() <= 5e-6 * (np.abs(stack).max() + 1), f"file {k}: formula")
        check(same(cryomap.read(st_path, transpose=False), stack), f"file {k}: input file changed")

# --------------------------------------------------------------------------------------
# same failures as the original outside the quantifier (too few doses)
# --------------------------------------------------------------------------------------
for fn in (tiltstack.dose_filter, orig_dose_filter):
    st = rng.normal(size=(3, 6, 8))
    try:
        quiet(fn, st, 2.0, np.array([1.0, 2.0]), input_order="zyx")
        check(False, "too few doses did not raise")
    except IndexError:
        pass
    extra = quiet(fn, st, 2.0, np.array([1.0, 2.0, 3.0, 4.0]), input_order="zyx", output_order="zyx")
    check(np.abs(extra - model(st, 2.0, [1.0, 2.0, 3.0])).max() <= 1e-9, "surplus doses")

if FAILS:
    print(f"{len(FAILS)} check(s) failed")
    sys.exit(1)
print("PASS")
