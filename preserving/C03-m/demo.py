import os
import sys

sys.path.insert(0, os.getcwd())

import inspect
import re
import tempfile
import textwrap
import warnings

import numpy as np
import pandas as pd

warnings.simplefilter("ignore")

from cryocat import cryomotl, starfileio  # noqa: E402
from cryocat.cryomotl import Motl, RelionMotl  # noqa: E402

SEED = int(os.environ.get("DEMO_SEED", "20260928"))
TMP = tempfile.mkdtemp(prefix="c03_demo_")
VERSIONS = (3.0, 3.1, 4.0)
FAILS = []


def check(cond, msg):
    if not cond:
        FAILS.append(msg)
        if len(FAILS) <= 25:
            print("FAIL:", msg)
    return bool(cond)


# ----------------------------------------------------------------------------------------------------------------
# independent statement of the conventions (numpy only, no scipy, no cryocat)
# ----------------------------------------------------------------------------------------------------------------
def _rz(a):
    a = np.deg2rad(np.asarray(a, dtype=float))
    c, s, o, z = np.cos(a), np.sin(a), np.ones_like(a), np.zeros_like(a)
    return np.stack([np.stack([c, -s, z], -1), np.stack([s, c, z], -1), np.stack([z, z, o], -1)], -2)


def _rx(a):
    a = np.deg2rad(np.asarray(a, dtype=float))
    c, s, o, z = np.cos(a), np.sin(a), np.ones_like(a), np.zeros_like(a)
    return np.stack([np.stack([o, z, z], -1), np.stack([z, c, -s], -1), np.stack([z, s, c], -1)], -2)


def _ry(a):
    a = np.deg2rad(np.asarray(a, dtype=float))
    c, s, o, z = np.cos(a), np.sin(a), np.ones_like(a), np.zeros_like(a)
    return np.stack([np.stack([c, z, s], -1), np.stack([z, o, z], -1), np.stack([-s, z, c], -1)], -2)


def particle_rotation(phi, theta, psi):
    """cryoCAT: extrinsic zxz (phi, theta, psi) -> R = Rz(psi) Rx(theta) Rz(phi)"""
    return _rz(psi) @ _rx(theta) @ _rz(phi)


def relion_rotation(rot, tilt, psi):
    """RELION: ZYZ (rot, tilt, psi) -> A = Rz(rot) Ry(tilt) Rz(psi)"""
    return _rz(rot) @ _ry(tilt) @ _rz(psi)


def inverse_defect(motl_angles, relion_angles):
    """max | R_particle @ A_relion - I | per list (0 when the one is the inverse of the other)"""
    motl_angles = np.asarray(motl_angles, dtype=float).reshape(-1, 3)
    relion_angles = np.asarray(relion_angles, dtype=float).reshape(-1, 3)
    if motl_angles.shape[0] == 0:
        return 0.0
    r = particle_rotation(motl_angles[:, 0], motl_angles[:, 1], motl_angles[:, 2])
    a = relion_rotation(relion_angles[:, 0], relion_angles[:, 1], relion_angles[:, 2])
    return float(np.abs(r @ a - np.eye(3)).max())


def rotation_distance(angles1, angles2):
    a1 = np.asarray(angles1, dtype=float).reshape(-1, 3)
    a2 = np.asarray(angles2, dtype=float).reshape(-1, 3)
    if a1.shape[0] == 0:
        return 0.0
    r1 = particle_rotation(a1[:, 0], a1[:, 1], a1[:, 2])
    r2 = particle_rotation(a2[:, 0], a2[:, 1], a2[:, 2])
    return float(np.abs(r1 - r2).max())


# ----------------------------------------------------------------------------------------------------------------
# generators
# ----------------------------------------------------------------------------------------------------------------
def random_angles(rng, n, mode):
    ang = np.column_stack([rng.uniform(-180, 180, n), rng.uniform(0, 180, n), rng.uniform(-180, 180, n)])
    if mode == "wide":  # outside the canonical ranges
        ang = np.column_stack([rng.uniform(-720, 720, n), rng.uniform(-540, 540, n), rng.uniform(-720, 720, n)])
    elif mode == "poles":  # gimbal lock
        ang[:, 1] = rng.choice([0.0, 180.0, -180.0, 360.0], n)
    elif mode == "mixed":
        k = rng.integers(0, 5, n)
        ang[k == 0, 1] = 0.0
        ang[k == 1, 1] = 180.0
        ang[k == 2, 0] = 0.0
        ang[k == 3] = 0.0
    elif mode == "grid":
        vals = np.array([-360.0, -270.0, -180.0, -90.0, 0.0, 90.0, 180.0, 270.0, 360.0])
        ang = vals[rng.integers(0, len(vals), (n, 3))]
    return ang


def random_motl_df(rng, n, mode="canonical", ids="random", index="default", integer_pos=False):
    df = pd.DataFrame(np.zeros((n, len(Motl.motl_columns))), columns=Motl.motl_columns)
    df["score"] = rng.uniform(-1, 1, n)
    df["tomo_id"] = np.sort(rng.integers(0, 400, n)).astype(float)
    if ids == "random":
        df["subtomo_id"] = np.sort(rng.choice(np.arange(1, 5000), n, replace=False)).astype(float)
    elif ids == "sequential":
        df["subtomo_id"] = np.arange(1, n + 1, dtype=float)
    elif ids == "odd":
        df["subtomo_id"] = (2 * np.arange(n) + 1).astype(float)
    elif ids == "even":
        df["subtomo_id"] = (2 * np.arange(n) + 2).astype(float)
    elif ids == "unsorted":
        df["subtomo_id"] = rng.permutation(np.arange(1, n + 1) * 3).astype(float)
    df["object_id"] = rng.integers(0, 30, n).astype(float)
    df["geom2"] = rng.integers(0, 7, n).astype(float)
    pos = rng.uniform(-2000, 4000, (n, 3))
    if integer_pos:
        pos = np.round(pos)
    df[["x", "y", "z"]] = pos
    sh = rng.uniform(-12, 12, (n, 3))
    sh[rng.random((n, 3)) < 0.15] = 0.0
    df[["shift_x", "shift_y", "shift_z"]] = sh
    ang = random_angles(rng, n, mode)
    df["phi"], df["theta"], df["psi"] = ang[:, 0], ang[:, 1], ang[:, 2]
    df["class"] = rng.integers(0, 9, n).astype(float)
    if index == "shuffled":
        df.index = rng.permutation(n) + 17
    elif index == "offset":
        df.index = np.arange(n) * 3 + 100
    return df


def independent_relion_df(rng, n, version, pixel_size, mode="canonical", halfsets="both", with_pixel_column=False,
                          numeric_names=False, unique_ids=True):
    """RELION particle table written the way RELION documents it (not by cryoCAT code)."""
    d = {}
    tomo = np.sort(rng.integers(1, 300, n))
    if unique_ids:
        sub = np.sort(rng.choice(np.arange(1, 9000), n, replace=False))
    else:
        sub = rng.integers(1, max(2, n // 2 + 1), n)
    coord = rng.uniform(-500, 5000, (n, 3))
    origin_px = rng.uniform(-9, 9, (n, 3))
    origin_px[rng.random((n, 3)) < 0.15] = 0.0
    ang = random_angles(rng, n, mode)
    ang_rln = np.column_stack([ang[:, 0], ang[:, 1], ang[:, 2]])
    d["rlnCoordinateX"], d["rlnCoordinateY"], d["rlnCoordinateZ"] = coord[:, 0], coord[:, 1], coord[:, 2]
    d["rlnAngleRot"], d["rlnAngleTilt"], d["rlnAnglePsi"] = ang_rln[:, 0], ang_rln[:, 1], ang_rln[:, 2]
    if version >= 4.0:
        if numeric_names:
            d["rlnTomoName"] = tomo.astype(float)
            d["rlnTomoParticleName"] = sub.astype(float)
        else:
            d["rlnTomoName"] = ["TS_%03d" % t for t in tomo]
            d["rlnTomoParticleName"] = ["TS_%03d/%d" % (t, s) for t, s in zip(tomo, sub)]
    else:
        if numeric_names:
            d["rlnMicrographName"] = tomo.astype(float)
            d["rlnImageName"] = sub.astype(float)
        else:
            d["rlnMicrographName"] = ["/data/tomos/%04d_7.8A.rec" % t for t in tomo]
            d["rlnImageName"] = ["/data/run5/subtomo/%04d/%04d_%07d_2.6A.mrc" % (t, t, s) for t, s in zip(tomo, sub)]
    if version >= 3.1:
        origin = origin_px * pixel_size  # Angstrom
        names = ["rlnOriginXAngst", "rlnOriginYAngst", "rlnOriginZAngst"]
        d["rlnOpticsGroup"] = np.ones(n, dtype=int)
    else:
        origin = origin_px
        names = ["rlnOriginX", "rlnOriginY", "rlnOriginZ"]
    for i, nm in enumerate(names):
        d[nm] = origin[:, i]
    d["rlnClassNumber"] = rng.integers(0, 6, n)
    if halfsets == "both":
        hs = rng.integers(1, 3, n)
        if n >= 2 and len(set(hs)) < 2:
            hs[0], hs[-1] = 1, 2
        d["rlnRandomSubset"] = hs
    elif halfsets == "one":
        d["rlnRandomSubset"] = np.ones(n, dtype=int)
    elif halfsets == "two":
        d["rlnRandomSubset"] = np.full(n, 2, dtype=int)
    elif halfsets == "alternating":
        d["rlnRandomSubset"] = (np.arange(n) % 2) + 1
    elif halfsets == "alternating2":
        d["rlnRandomSubset"] = ((np.arange(n) + 1) % 2) + 1
    if with_pixel_column and version < 4.0:
        d["rlnPixelSize"] = np.full(n, float(pixel_size))
    d["rlnMaxValueProbDistribution"] = rng.uniform(0, 1, n)
    rdf = pd.DataFrame(d)
    truth = {
        "tomo": tomo.astype(float),
        "sub": sub.astype(float),
        "coord": coord,
        "shift": -origin_px,
        "angles": ang_rln,
        "class": np.asarray(d["rlnClassNumber"], dtype=float),
        "halfset": None if halfsets == "none" else np.asarray(d["rlnRandomSubset"]),
    }
    return rdf, truth


def expected_halfset_ids(hs):
    """smallest strictly increasing numbers whose parity follows the half-set (1 -> odd, 2 -> even)"""
    out = []
    c = 0
    for h in hs:
        want = 1 if h % 2 == 1 else 0
        c += 1
        if c % 2 != want:
            c += 1
        out.append(c)
    return np.asarray(out, dtype=float)


def independent_star_text(rdf, version, pixel_size, optics):
    """minimal STAR writer (independent of cryocat.starfileio)"""
    lines = ["", "# version 30001", ""]
    if optics and version >= 3.1:
        lines += ["data_optics", "", "loop_"]
        cols = ["rlnOpticsGroup", "rlnOpticsGroupName", "rlnSphericalAberration", "rlnVoltage", "rlnImagePixelSize",
                "rlnImageSize", "rlnImageDimensionality"]
        lines += ["_%s #%d" % (c, i + 1) for i, c in enumerate(cols)]
        lines += ["1 opticsGroup1 2.700000 300.000000 %.6f 64 3" % pixel_size, "", ""]
    lines += ["data_" if version < 3.1 else "data_particles", "", "loop_"]
    lines += ["_%s #%d" % (c, i + 1) for i, c in enumerate(rdf.columns)]
    for row in rdf.itertuples(index=False):
        items = []
        for v in row:
            if isinstance(v, (float, np.floating)):
                items.append("%.6f" % v)
            else:
                items.append(str(v))
        lines.append(" ".join(items))
    lines += ["", ""]
    return "\n".join(lines)


def independent_star_parse(path):
    """minimal STAR reader (independent of cryocat.starfileio): {specifier: DataFrame of strings}"""
    blocks = {}
    cur, cols, rows, in_loop = None, [], [], False
    with open(path) as f:
        text = f.read()
    for raw in text.split("\n"):
        line = raw.split("#")[0].strip() if not raw.strip().startswith("_") else raw.strip()
        if line == "":
            continue
        if line.startswith("data_"):
            if cur is not None:
                blocks[cur] = pd.DataFrame(rows, columns=cols)
            cur, cols, rows, in_loop = line, [], [], False
        elif line == "loop_":
            in_loop = True
        elif line.startswith("_"):
            cols.append(line.split()[0][1:])
        else:
            rows.append(line.split())
    if cur is not None:
        blocks[cur] = pd.DataFrame(rows, columns=cols)
    return blocks


# ----------------------------------------------------------------------------------------------------------------
# the property
# ----------------------------------------------------------------------------------------------------------------
FORMATS = [
    ("", ""),
    ("/tomos/$xxxx.rec", "/sub/$xxxx/$xxxx_$yyyyyyy_2.6A.mrc"),
    ("TS_$xxx", "TS_$xxx/$yyyyy"),
    ("/t/$xx_$xxxx.rec", "/s/$yy_$yyyyyy_1.0A.mrc"),
]


def names_to_ids(rdf, version, tomo_format, subtomo_format):
    """independent reading of the generated names"""
    tname = "rlnTomoName" if version >= 4.0 else "rlnMicrographName"
    sname = "rlnTomoParticleName" if version >= 4.0 else "rlnImageName"
    tomo, sub = [], []
    for t, s in zip(rdf[tname].tolist(), rdf[sname].tolist()):
        if tomo_format == "":
            tomo.append(float(t))
        else:
            pre, post = longest_split(tomo_format, "x")
            tomo.append(float(str(t)[len(pre): len(str(t)) - len(post)]))
        if subtomo_format == "":
            sub.append(float(s))
        else:
            pre, post = longest_split(subtomo_format, "y")
            # the tomo sequence in the prefix may have been replaced; cut from the right and take trailing digits
            core = str(s)[: len(str(s)) - len(post)]
            sub.append(float(re.search(r"(\d+)$", core).group(1)))
    return np.asarray(tomo), np.asarray(sub)


def longest_split(fmt, letter):
    seqs = re.findall(r"\$" + letter + "+", fmt)
    longest = max(seqs, key=len)
    # python's sorted(key=len)[-1] takes the LAST of the longest; all longest are replaced anyway; take the last one
    pos = fmt.rfind(longest)
    return fmt[:pos], fmt[pos + len(longest):]


def check_export(motl_df, version, pixel_size, fmt, tag):
    src = motl_df.reset_index(drop=True)
    m = RelionMotl(motl_df.copy(), version=version, pixel_size=pixel_size, binning=1.0)
    rdf = m.create_relion_df(tomo_format=fmt[0], subtomo_format=fmt[1])
    n = src.shape[0]
    ok = check(rdf.shape[0] == n, f"{tag}: number of rows")
    if not ok:
        return None, None
    pos = src[["x", "y", "z"]].to_numpy() + src[["shift_x", "shift_y", "shift_z"]].to_numpy()
    check(np.array_equal(rdf[["rlnCoordinateX", "rlnCoordinateY", "rlnCoordinateZ"]].to_numpy(dtype=float), pos),
          f"{tag}: rlnCoordinate = x + shift")
    onames = ["rlnOriginX", "rlnOriginY", "rlnOriginZ"] if version < 3.1 else \
        ["rlnOriginXAngst", "rlnOriginYAngst", "rlnOriginZAngst"]
    other = ["rlnOriginXAngst", "rlnOriginYAngst", "rlnOriginZAngst"] if version < 3.1 else \
        ["rlnOriginX", "rlnOriginY", "rlnOriginZ"]
    check(all(c in rdf.columns for c in onames) and not any(c in rdf.columns for c in other),
          f"{tag}: origin columns of the version")
    check(np.all(rdf[onames].to_numpy(dtype=float) == 0.0), f"{tag}: zero origin shifts")
    d = inverse_defect(src[["phi", "theta", "psi"]].to_numpy(),
                       rdf[["rlnAngleRot", "rlnAngleTilt", "rlnAnglePsi"]].to_numpy(dtype=float))
    check(d < 1e-9, f"{tag}: ZYZ rotation is the inverse of the zxz rotation (defect {d:.2e})")
    tilt = rdf["rlnAngleTilt"].to_numpy(dtype=float)
    check(np.all((tilt >= -1e-9) & (tilt <= 180 + 1e-9)), f"{tag}: tilt in [0,180]")
    check(np.array_equal(rdf["rlnClassNumber"].to_numpy(dtype=float), src["class"].to_numpy()), f"{tag}: class")
    tomo, sub = names_to_ids(rdf, version, fmt[0], fmt[1])
    check(np.array_equal(tomo, src["tomo_id"].to_numpy()), f"{tag}: tomogram number in the names")
    check(np.array_equal(sub, src["subtomo_id"].to_numpy()), f"{tag}: subtomogram number in the names")
    hs = rdf["rlnRandomSubset"].to_numpy(dtype=float)
    want = np.where(src["subtomo_id"].to_numpy() % 2 == 1, 1.0, 2.0)
    check(np.array_equal(hs, want), f"{tag}: half-set 1/2 = odd/even subtomogram number")
    if version < 4.0:
        check(np.all(rdf["rlnPixelSize"].to_numpy(dtype=float) == float(pixel_size)), f"{tag}: rlnPixelSize")
    else:
        check("rlnPixelSize" not in rdf.columns, f"{tag}: no rlnPixelSize in 4.0")
    expected_cols = {3.0: RelionMotl.columns_v3_0, 3.1: RelionMotl.columns_v3_1, 4.0: RelionMotl.columns_v4}[version]
    check(set(expected_cols) <= set(rdf.columns), f"{tag}: columns of the version present")
    return m, rdf


def check_import_values(m, truth, version, tag, tol=0.0, renumbered=None):
    df = m.df
    n = len(truth["tomo"])
    if not check(df.shape[0] == n, f"{tag}: number of rows"):
        return
    check(np.allclose(df[["x", "y", "z"]].to_numpy(), truth["coord"], rtol=0, atol=tol), f"{tag}: x,y,z = rlnCoordinate")
    check(np.allclose(df[["shift_x", "shift_y", "shift_z"]].to_numpy(), truth["shift"], rtol=0, atol=max(tol, 1e-9) * 10),
          f"{tag}: shift = -origin (/ pixel size for >= 3.1)")
    d = inverse_defect(df[["phi", "theta", "psi"]].to_numpy(), truth["angles"])
    check(d < max(1e-9, tol * 1), f"{tag}: zxz rotation is the inverse of the ZYZ rotation (defect {d:.2e})")
    check(np.array_equal(df["tomo_id"].to_numpy(dtype=float), truth["tomo"]), f"{tag}: tomo_id")
    check(np.array_equal(df["class"].to_numpy(dtype=float), truth["class"]), f"{tag}: class")
    check(np.array_equal(df["geom3"].to_numpy(dtype=float), truth["sub"]), f"{tag}: subtomogram number in geom3")
    hs = truth["halfset"]
    unique = len(np.unique(truth["sub"])) == n
    if hs is not None and len(np.unique(hs)) == 2:
        check(np.array_equal(df["subtomo_id"].to_numpy(dtype=float), expected_halfset_ids(hs)),
              f"{tag}: half-set renumbering (1 -> odd, 2 -> even, increasing)")
        check(np.array_equal(df["subtomo_id"].to_numpy(dtype=float) % 2 == 1, hs % 2 == 1), f"{tag}: parity")
    elif unique:
        check(np.array_equal(df["subtomo_id"].to_numpy(dtype=float), truth["sub"]), f"{tag}: subtomo_id")
    else:
        check(np.array_equal(df["subtomo_id"].to_numpy(dtype=float), np.arange(1, n + 1)), f"{tag}: renumbered ids")
    check(np.array_equal(m.relion_df["ccSubtomoID"].to_numpy(dtype=float), df["subtomo_id"].to_numpy(dtype=float)),
          f"{tag}: ccSubtomoID")


def check_roundtrip_memory(motl_df, m, rdf, version, pixel_size, tag):
    src = motl_df.reset_index(drop=True)
    back = RelionMotl(rdf.copy(), version=version, pixel_size=pixel_size)
    pos0 = src[["x", "y", "z"]].to_numpy() + src[["shift_x", "shift_y", "shift_z"]].to_numpy()
    pos1 = back.df[["x", "y", "z"]].to_numpy() + back.df[["shift_x", "shift_y", "shift_z"]].to_numpy()
    check(np.allclose(pos0, pos1, rtol=0, atol=1e-9), f"{tag}: position after export+import")
    d = rotation_distance(src[["phi", "theta", "psi"]].to_numpy(), back.df[["phi", "theta", "psi"]].to_numpy())
    check(d < 1e-9, f"{tag}: orientation after export+import (distance {d:.2e})")
    check(np.array_equal(back.df["tomo_id"].to_numpy(dtype=float), src["tomo_id"].to_numpy()), f"{tag}: tomo_id back")
    check(np.array_equal(back.df["class"].to_numpy(dtype=float), src["class"].to_numpy()), f"{tag}: class back")
    check(np.array_equal(back.df["geom3"].to_numpy(dtype=float), src["subtomo_id"].to_numpy()), f"{tag}: geom3 back")
    check(np.array_equal(back.df["subtomo_id"].to_numpy(dtype=float) % 2, src["subtomo_id"].to_numpy() % 2),
          f"{tag}: parity of the subtomogram number back")
    return back


def check_roundtrip_file(motl_df, version, pixel_size, fmt, optics, tag):
    src = motl_df.reset_index(drop=True)
    m = RelionMotl(motl_df.copy(), version=version, pixel_size=pixel_size, binning=1.0)
    path = os.path.join(TMP, "rt_%s.star" % re.sub(r"[^0-9a-zA-Z]+", "_", tag))
    m.write_out(path, write_optics=optics, tomo_format=fmt[0], subtomo_format=fmt[1])
    blocks = independent_star_parse(path)
    spec = "data_" if version < 3.1 else "data_particles"
    if not check(spec in blocks, f"{tag}: particle block {spec} in the file ({list(blocks)})"):
        return
    if optics:
        check("data_optics" in blocks and blocks["data_optics"].shape[0] == 1, f"{tag}: optics block written")
        check(abs(float(blocks["data_optics"]["rlnImagePixelSize"][0]) - pixel_size) < 1e-6, f"{tag}: optics pixel size")
    else:
        check("data_optics" not in blocks, f"{tag}: no optics block")
    fdf = blocks[spec]
    pos = src[["x", "y", "z"]].to_numpy() + src[["shift_x", "shift_y", "shift_z"]].to_numpy()
    fpos = fdf[["rlnCoordinateX", "rlnCoordinateY", "rlnCoordinateZ"]].to_numpy(dtype=float)
    check(fpos.shape == pos.shape and np.allclose(fpos, pos, rtol=0, atol=6e-7), f"{tag}: coordinates in the file")
    d = inverse_defect(src[["phi", "theta", "psi"]].to_numpy(),
                       fdf[["rlnAngleRot", "rlnAngleTilt", "rlnAnglePsi"]].to_numpy(dtype=float))
    check(d < 1e-6, f"{tag}: angles in the file (defect {d:.2e})")
    onames = ["rlnOriginX", "rlnOriginY", "rlnOriginZ"] if version < 3.1 else \
        ["rlnOriginXAngst", "rlnOriginYAngst", "rlnOriginZAngst"]
    check(np.all(fdf[onames].to_numpy(dtype=float) == 0), f"{tag}: zero origins in the file")
    check(np.array_equal(fdf["rlnClassNumber"].to_numpy(dtype=float), src["class"].to_numpy()), f"{tag}: class in file")
    want = np.where(src["subtomo_id"].to_numpy() % 2 == 1, 1.0, 2.0)
    check(np.array_equal(fdf["rlnRandomSubset"].to_numpy(dtype=float), want), f"{tag}: half-sets in the file")
    tomo, sub = names_to_ids(fdf, version, fmt[0], fmt[1])
    check(np.array_equal(tomo, src["tomo_id"].to_numpy()) and np.array_equal(sub, src["subtomo_id"].to_numpy()),
          f"{tag}: names in the file")
    # and back through cryoCAT's reader; version and pixel size found in the file
    back = RelionMotl(path)
    check(back.version == version, f"{tag}: version detected from the file ({back.version})")
    pos1 = back.df[["x", "y", "z"]].to_numpy() + back.df[["shift_x", "shift_y", "shift_z"]].to_numpy()
    check(np.allclose(pos, pos1, rtol=0, atol=6e-7), f"{tag}: position after file round trip")
    d = rotation_distance(src[["phi", "theta", "psi"]].to_numpy(), back.df[["phi", "theta", "psi"]].to_numpy())
    check(d < 1e-6, f"{tag}: orientation after file round trip (distance {d:.2e})")
    check(np.array_equal(back.df["tomo_id"].to_numpy(dtype=float), src["tomo_id"].to_numpy()), f"{tag}: tomo_id (file)")
    check(np.array_equal(back.df["class"].to_numpy(dtype=float), src["class"].to_numpy()), f"{tag}: class (file)")
    check(np.array_equal(back.df["geom3"].to_numpy(dtype=float), src["subtomo_id"].to_numpy()), f"{tag}: geom3 (file)")
    return back


def check_import(rng, n, version, pixel_size, tag, through_file=False, optics=False, **kw):
    rdf, truth = independent_relion_df(rng, n, version, pixel_size, **kw)
    if through_file:
        path = os.path.join(TMP, "in_%s.star" % re.sub(r"[^0-9a-zA-Z]+", "_", tag))
        with open(path, "w") as f:
            f.write(independent_star_text(rdf, version, pixel_size, optics))
        if (version >= 3.1 and optics) or (version == 3.1 and kw.get("with_pixel_column")):
            m = RelionMotl(path)  # version and pixel size from the file
        else:
            m = RelionMotl(path, pixel_size=pixel_size)
        check(m.version == version, f"{tag}: detected version {m.version}")
        truth = dict(truth)
        tol = 2e-6
        check_import_values(m, truth, version, tag, tol=tol)
    else:
        m = RelionMotl(rdf.copy(), version=version, pixel_size=pixel_size)
        check_import_values(m, truth, version, tag)
        # version detection from the columns alone
        m2 = RelionMotl(rdf.copy(), pixel_size=pixel_size)
        check(m2.version == version, f"{tag}: version from the columns ({m2.version})")
        check(m2.df.equals(m.df), f"{tag}: same result with detected version")
    return m, rdf, truth


def run_property(rng, rounds=1):
    counter = 0
    sizes = [1, 2, 3, 7, 50, 300]
    modes = ["canonical", "wide", "poles", "mixed", "grid"]
    for r in range(rounds):
        for version in VERSIONS:
            for n in sizes:
                for mode in modes:
                    counter += 1
                    ps = float(rng.choice([0.5, 1.0, 1.35, 2.176, 7.8, 13.33]))
                    fmt = FORMATS[counter % len(FORMATS)]
                    readable = fmt in (FORMATS[0], FORMATS[2] if version >= 4.0 else FORMATS[1])
                    ids = ["random", "sequential", "odd", "even", "unsorted"][counter % 5]
                    index = ["default", "shuffled", "offset"][counter % 3]
                    mdf = random_motl_df(rng, n, mode=mode, ids=ids, index=index)
                    tag = f"export v{version} n={n} {mode} ids={ids} idx={index} fmt={counter % len(FORMATS)}"
                    m, rdf = check_export(mdf, version, ps, fmt, tag)
                    if m is None:
                        continue
                    # repeated call on the same object gives the same table
                    rdf2 = m.create_relion_df(tomo_format=fmt[0], subtomo_format=fmt[1])
                    check(rdf.equals(rdf2), f"{tag}: repeated export identical")
                    if not readable:  # names that cryoCAT's own reader does not understand: take the usual ones
                        fmt = FORMATS[2] if version >= 4.0 else FORMATS[1]
                        rdf = m.create_relion_df(tomo_format=fmt[0], subtomo_format=fmt[1])
                    check_roundtrip_memory(mdf, m, rdf, version, ps, "mem " + tag)
                    if n in (1, 3, 50) or (n == 300 and mode == "wide"):
                        optics = bool((counter // 2) % 2) and version >= 3.1
                        check_roundtrip_file(mdf, version, ps, fmt, optics, f"file v{version} n={n} {mode} {counter}")
                    # import of independently written RELION data
                    hs = ["both", "one", "two", "alternating", "alternating2", "none"][counter % 6]
                    itag = f"import v{version} n={n} {mode} hs={hs} ps={ps}"
                    check_import(rng, n, version, ps, itag, mode=mode, halfsets=hs,
                                 with_pixel_column=bool(counter % 2), unique_ids=(counter % 7 != 0),
                                 numeric_names=(counter % 11 == 0))
                    if n in (1, 2, 50):
                        check_import(rng, n, version, ps, "file-" + itag + f" {counter}", through_file=True,
                                     optics=bool(counter % 2), mode=mode, halfsets=hs,
                                     with_pixel_column=(counter % 4 == 0))
    return counter


def outcome(fn, *a, **k):
    """result or the exception type -- to compare two implementations also where they raise"""
    try:
        return ("ok", fn(*a, **k))
    except BaseException as e:  # noqa: BLE001
        return ("raise", type(e).__name__)


def same(a, b):
    if type(a) is not type(b):
        return False
    if isinstance(a, pd.DataFrame):
        return a.equals(b) and list(a.columns) == list(b.columns) and a.index.equals(b.index) and \
            [str(t) for t in a.dtypes] == [str(t) for t in b.dtypes]
    if isinstance(a, np.ndarray):
        return a.shape == b.shape and a.dtype == b.dtype and np.array_equal(a, b, equal_nan=a.dtype.kind == "f")
    if isinstance(a, (tuple, list)):
        return len(a) == len(b) and all(same(x, y) for x, y in zip(a, b))
    if isinstance(a, float) and a != a:
        return b != b
    return a == b


def original_function(src, name, extra_globals=None):
    """compile the stored text of the original function in the namespace of cryocat.cryomotl"""
    ns = dict(vars(cryomotl))
    if extra_globals:
        ns.update(extra_globals)
    exec(textwrap.dedent(src), ns)
    return ns[name]


# ----------------------------------------------------------------------------------------------------------------
# change (c): half-sets <-> parity of the subtomogram number, shortcuts -- patched against the original text
# ----------------------------------------------------------------------------------------------------------------
ORIG_PARSE_SUBTOMO_ID = '''
def parse_subtomo_id(self, relion_df):
    # parsing out subtomo number
    if self.subtomo_id_name in relion_df.columns:
        image_names = relion_df[self.subtomo_id_name].tolist()

        # Note: following will fail if the subtomos are named differently for each row - once with string, once with
        # number
        if all(isinstance(i, (int, float)) for i in image_names):
            subtomo_idx = image_names
        else:
            subtomo_names = [i.rsplit("/", 1)[-1] for i in image_names]
            subtomo_idx = []

            for j in subtomo_names:
                if self.version >= 4.0:
                    subtomo_idx.append(float(j))
                else:
                    subtomo_idx.append(float(re.findall(r"\\d+", j)[1]))

    # Check if the subtomo_idx are unique and if not store them at geom3 and renumber particles
    self.df["geom3"] = subtomo_idx
    self.df["subtomo_id"] = subtomo_idx

    if len(np.unique(subtomo_idx)) != len(subtomo_idx):
        self.df["subtomo_id"] = np.arange(1, relion_df.shape[0] + 1, 1)

    # If there is information about half-sets renumber the subtomo_idx accordintly
    if "rlnRandomSubset" in relion_df.columns and relion_df["rlnRandomSubset"].nunique() == 2:
        halfset_num = relion_df["rlnRandomSubset"].values % 2
        c = 1 if halfset_num[0] == 1 else 2
        subtomo_id_num = [c]
        for i in range(1, self.df.shape[0]):
            if (c % 2 == 1 and halfset_num[i] == 1) or (c % 2 == 0 and halfset_num[i] == 0):
                c += 2
            else:
                c += 1
            # c = np.ceil(c / 2) * 2 + halfset_num[i]
            subtomo_id_num.append(c)

        self.df["subtomo_id"] = subtomo_id_num
'''

ORIG_CREATE_RELION_DF = '''
def create_relion_df(
    self,
    tomo_format="",
    subtomo_format="",
    use_original_entries=False,
    keep_all_entries=False,
    version=None,
    add_object_id=False,
    add_subunit_id=False,
    binning=None,
    pixel_size=None,
    adapt_object_attr=False,
):
    if version is None:
        if self.version is None:
            self.version = 3.1

        version = self.version

    if binning is None:
        binning = self.binning

    if pixel_size is None:
        pixel_size = self.pixel_size

    if use_original_entries:
        relion_df = self.adapt_original_entries()
        if keep_all_entries:
            if adapt_object_attr:
                self.relion_df = relion_df

            relion_df = relion_df.drop(columns=["subtomo_id"])
            return relion_df
    else:
        relion_df = self.prepare_particles_data(
            tomo_format=tomo_format, subtomo_format=subtomo_format, version=version, pixel_size=pixel_size
        )
        if "rlnRandomSubset" in relion_df.columns:
            relion_df.loc[self.df["subtomo_id"].mod(2).eq(0).to_numpy(), "rlnRandomSubset"] = 2
            relion_df.loc[self.df["subtomo_id"].mod(2).eq(1).to_numpy(), "rlnRandomSubset"] = 1

    # set coordinates, assumes that subtomograms will be extracted before at exact coordinate with subpixel precision
    relion_df.loc[:, ["rlnCoordinateX", "rlnCoordinateY", "rlnCoordinateZ"]] = self.get_coordinates()

    relion_df = self.convert_angles_to_relion(relion_df)

    relion_df["rlnClassNumber"] = self.df["class"].to_numpy()

    if add_object_id:
        relion_df["ccObjectName"] = self.df["object_id"].to_numpy()

    if add_subunit_id:
        relion_df["ccSubunitName"] = self.df["geom2"].to_numpy()

    if binning != 1.0 and version >= 4.0:
        for coord in ("X", "Y", "Z"):
            relion_df["rlnCoordinate" + coord] = relion_df["rlnCoordinate" + coord] * binning

    if adapt_object_attr:
        self.relion_df = relion_df

    if "subtomo_id" in relion_df.columns:
        relion_df = relion_df.drop(columns=["subtomo_id"])

    return relion_df
'''


def halfset_columns(rng, n):
    """half-set columns the renumbering is notorious for: first / last element, runs, one value only, other codes,
    floats, non-integers, NaN holes, negative values"""
    cols = {
        "alt12": (np.arange(n) % 2) + 1,
        "alt21": ((np.arange(n) + 1) % 2) + 1,
        "all1": np.ones(n, dtype=int),
        "all2": np.full(n, 2),
        "first2_rest1": np.where(np.arange(n) == 0, 2, 1),
        "first1_rest2": np.where(np.arange(n) == 0, 1, 2),
        "last_differs": np.where(np.arange(n) == n - 1, 2, 1),
        "random": rng.integers(1, 3, n),
        "runs": np.repeat(rng.integers(1, 3, n), 3)[:n],
        "float": rng.integers(1, 3, n).astype(float),
        "codes01": rng.integers(0, 2, n),
        "codes34": rng.integers(3, 5, n),
        "codes13": rng.choice([1, 3], n),  # two values, one parity
        "codes24": rng.choice([2, 4], n),
        "negative": rng.choice([-1, 2], n),
        "negative2": rng.choice([-2, -1], n),
        "three": rng.integers(1, 4, n),  # three values: no renumbering
        "halves": rng.choice([1.5, 2.0], n),
        "halves2": rng.choice([0.5, 1.0], n),
        "nan_holes": np.where(rng.random(n) < 0.3, np.nan, rng.integers(1, 3, n).astype(float)),
        "nan_one": np.where(rng.random(n) < 0.5, np.nan, 1.0),
        "big": rng.choice([10 ** 9 + 1, 10 ** 9 + 2], n),
    }
    return cols


def compare_with_original(rng):
    orig_parse = original_function(ORIG_PARSE_SUBTOMO_ID, "parse_subtomo_id")
    orig_create = original_function(ORIG_CREATE_RELION_DF, "create_relion_df")
    patched_parse, patched_create = RelionMotl.parse_subtomo_id, RelionMotl.create_relion_df

    # ---- import side: parse_subtomo_id on its own, then the whole import ----
    count = 0
    for version in VERSIONS:
        for n in (1, 2, 3, 4, 5, 33, 300):
            for unique_ids in ((True, False) if n < 300 else (True,)):
                base, _ = independent_relion_df(rng, n, version, 1.9, mode="mixed", halfsets="none", unique_ids=unique_ids)
                for name, col in halfset_columns(rng, n).items():
                    if n == 300 and name not in ("random", "runs", "nan_holes", "alt21", "codes13", "halves"):
                        continue
                    for index in ("default", "holes"):
                        rdf = base.copy()
                        rdf["rlnRandomSubset"] = col
                        if index == "holes":
                            rdf.index = np.arange(n) * 2 + 5
                        res = []
                        for fn in (orig_parse, patched_parse):
                            m = RelionMotl(version=version, pixel_size=1.9)
                            o = outcome(fn, m, rdf.copy())
                            res.append((o[0], o[1] if o[0] == "raise" else None, m.df.copy()))
                        count += 1
                        check(same(res[0], res[1]), f"parse_subtomo_id v{version} n={n} {name} {index}: original != patched")
                        if index == "holes" and n > 3:
                            continue
                        # whole import, twice on the same table
                        whole = []
                        for fn in (orig_parse, patched_parse):
                            RelionMotl.parse_subtomo_id = fn
                            try:
                                o1 = outcome(lambda: RelionMotl(rdf, version=version, pixel_size=1.9))
                                o2 = outcome(lambda: RelionMotl(rdf, version=version, pixel_size=1.9))
                            finally:
                                RelionMotl.parse_subtomo_id = patched_parse
                            whole.append([(o[0], o[1].df, o[1].relion_df) if o[0] == "ok" else o for o in (o1, o2)])
                        check(same(whole[0], whole[1]), f"import v{version} n={n} {name} {index}: original != patched")
                        o = whole[1][0]
                        if o[0] == "ok" and name in ("alt12", "alt21", "random", "runs", "float", "first2_rest1",
                                                     "first1_rest2", "last_differs") and len(set(col)) == 2:
                            ids = o[1]["subtomo_id"].to_numpy()
                            check(np.array_equal(ids, expected_halfset_ids(np.asarray(col))),
                                  f"import v{version} n={n} {name}: ids follow the half-sets")
    check(count > 1000, "enough import cases")

    # ---- export side: create_relion_df with all kinds of subtomogram numbers ----
    def id_columns(n):
        return {
            "sequential": np.arange(1, n + 1, dtype=float),
            "from0": np.arange(0, n, dtype=float),
            "odd": 2.0 * np.arange(n) + 1,
            "even": 2.0 * np.arange(n) + 2,
            "zeros": np.zeros(n),
            "negative": -np.arange(1, n + 1, dtype=float),
            "mixed_sign": rng.integers(-50, 50, n).astype(float),
            "halves": rng.integers(0, 50, n) + rng.choice([0.0, 0.5], n),
            "tiny_fraction": rng.integers(0, 50, n) + rng.choice([0.0, 1e-9], n),
            "big": 2.0 ** 40 + np.arange(n),
            "duplicates": rng.integers(1, 4, n).astype(float),
            "int_dtype": np.arange(7, n + 7),
        }

    for version in VERSIONS:
        fmt = FORMATS[2] if version >= 4.0 else FORMATS[1]
        for n in (1, 2, 3, 10, 300):
            for name, ids in id_columns(n).items():
                mdf = random_motl_df(rng, n, mode="mixed", ids="sequential", index="shuffled")
                mdf["subtomo_id"] = ids
                for kwargs in ({}, {"tomo_format": fmt[0], "subtomo_format": fmt[1]}, {"add_object_id": True},
                               {"version": 4.0, "binning": 2.0}, {"version": 3.0}, {"adapt_object_attr": True},
                               {"pixel_size": 3.3, "add_subunit_id": True}):
                    if n >= 10 and len(kwargs) != 2:  # the long lists with the name formats only
                        continue
                    res = []
                    for fn in (orig_create, patched_create):
                        m = RelionMotl(mdf.copy(), version=version, pixel_size=1.9, binning=1.0)
                        o1 = outcome(fn, m, **kwargs)
                        o2 = outcome(fn, m, **kwargs)  # again on the same object
                        res.append([o1, o2, m.df.copy(), m.relion_df.copy()])
                    check(same(res[0], res[1]), f"create_relion_df v{version} n={n} ids={name} {kwargs}: original != patched")
                    o = res[1][0]
                    if o[0] == "ok" and name in ("sequential", "from0", "odd", "even", "zeros", "negative", "big"):
                        want = np.where(np.asarray(ids) % 2 == 1, 1.0, 2.0)
                        check(np.array_equal(o[1]["rlnRandomSubset"].to_numpy(dtype=float), want),
                              f"create_relion_df v{version} n={n} ids={name}: half-set from the parity")
    # original entries kept (the branch without half-set assignment) and the empty list (outside the quantifier)
    for version in VERSIONS:
        rin, _ = independent_relion_df(rng, 20, version, 1.9, mode="wide", halfsets="both")
        for kwargs in ({"use_original_entries": True}, {"use_original_entries": True, "keep_all_entries": True}, {}):
            res = []
            for fn in (orig_create, patched_create):
                m = RelionMotl(rin.copy(), version=version, pixel_size=1.9, binning=1.0)
                m.df = m.df.iloc[::2].reset_index(drop=True)  # a selection of the particles
                res.append([outcome(fn, m, **kwargs), m.df.copy(), m.relion_df.copy()])
            check(same(res[0], res[1]), f"create_relion_df v{version} {kwargs}: original != patched")
        res = []
        for fn in (orig_create, patched_create):
            m = RelionMotl(version=version, pixel_size=1.9, binning=1.0)
            res.append(outcome(fn, m))
        check(same(res[0], res[1]), f"create_relion_df v{version} empty list: original {res[0]} != patched {res[1]}")

    # ---- files written with both implementations are the same text ----
    texts = []
    for fn_c, fn_p in ((orig_create, orig_parse), (patched_create, patched_parse)):
        RelionMotl.create_relion_df, RelionMotl.parse_subtomo_id = fn_c, fn_p
        r = np.random.default_rng(SEED + 11)
        out = []
        try:
            for version in VERSIONS:
                fmt = FORMATS[2] if version >= 4.0 else FORMATS[1]
                for n in (1, 2, 77):
                    mdf = random_motl_df(r, n, mode="poles", ids="random")
                    m = RelionMotl(mdf, version=version, pixel_size=1.9, binning=1.0)
                    path = os.path.join(TMP, "cmpc.star")
                    m.write_out(path, write_optics=version >= 3.1, tomo_format=fmt[0], subtomo_format=fmt[1])
                    with open(path) as f:
                        out.append(f.read())
                    back = RelionMotl(path)
                    out += [back.df, back.relion_df]
        finally:
            RelionMotl.create_relion_df, RelionMotl.parse_subtomo_id = patched_create, patched_parse
        texts.append(out)
    check(same(texts[0], texts[1]), "files and re-imported lists: original != patched")


if __name__ == "__main__":
    rng = np.random.default_rng(SEED)
    cases = run_property(rng)
    compare_with_original(rng)
    import shutil

    shutil.rmtree(TMP, ignore_errors=True)
    if FAILS:
        print(f"FAIL ({len(FAILS)} checks failed, {cases} property cases)")
        sys.exit(1)
    print(f"PASS ({cases} property cases, patched and original functions agree)")
