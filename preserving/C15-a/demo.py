import os, sys

sys.path.insert(0, os.getcwd())

import contextlib, io, itertools, tempfile, types
import numpy as np
import mrcfile

import cryocat
from cryocat import tiltstack, ioutils, cryomap

assert os.path.abspath(cryocat.__file__).startswith(os.getcwd()), cryocat.__file__

TMP = tempfile.mkdtemp(prefix="c15demo_")
RNG = np.random.default_rng(1501)
FAILS = []
N_CHECKS = [0]
_counter = itertools.count()


def check(cond, msg):
    N_CHECKS[0] += 1
    if not cond:
        FAILS.append(msg)
        if len(FAILS) <= 15:
            print("FAIL:", msg)


def quiet(f, *a, **k):
    with contextlib.redirect_stdout(io.StringIO()):
        return f(*a, **k)


def tmpname(tag, ext=".mrc"):
    return os.path.join(TMP, f"{tag}_{next(_counter)}{ext}")


def raw_write(arr_zyx, path):
    """Independent writer: stores the (n, y, x) array as is."""
    with mrcfile.new(path, overwrite=True) as m:
        m.set_data(np.ascontiguousarray(arr_zyx))


def raw_read(path):
    with mrcfile.open(path, permissive=True) as m:
        return np.array(m.data)


def make_stack(n=None, h=None, w=None, dtype=None):
    n = int(RNG.integers(2, 26)) if n is None else n
    h = int(RNG.integers(4, 41)) if h is None else h
    w = int(RNG.integers(4, 41)) if w is None else w
    if h == w:
        w = w + 1 if w < 40 else w - 1
    dtype = [np.float32, np.int16][int(RNG.integers(0, 2))] if dtype is None else dtype
    if dtype == np.int16:
        ref = RNG.integers(-3000, 3000, size=(n, h, w)).astype(np.int16)
    else:
        ref = (RNG.normal(size=(n, h, w)) * 50).astype(np.float32)
    return ref


def same(a, b):
    return a.shape == b.shape and a.dtype == b.dtype and np.array_equal(a, b)


class Case:
    """One configuration: reference stack in (n, y, x) plus the way it is handed to the library."""

    def __init__(self, ref, in_order, out_order, as_file, write_file):
        self.ref, self.in_order, self.out_order = ref, in_order, out_order
        self.as_file, self.write_file = as_file, write_file
        if as_file:
            self.inp = tmpname("in")
            raw_write(ref, self.inp)
        else:
            self.inp = ref.transpose(2, 1, 0).copy() if in_order == "xyz" else ref.copy()
            if RNG.integers(0, 3) == 0:  # sometimes a non-contiguous view as input
                self.inp = ref.transpose(2, 1, 0) if in_order == "xyz" else ref[:, :, :]
        self.inp_backup = None if as_file else np.array(self.inp, copy=True)

    def label(self):
        return f"n,h,w={self.ref.shape} {self.ref.dtype} in={self.in_order} out={self.out_order} file_in={self.as_file} file_out={self.write_file}"

    def orient(self, exp_zyx):
        return exp_zyx.transpose(2, 1, 0) if self.out_order == "xyz" else exp_zyx

    def untouched(self):
        if self.as_file:
            return same(raw_read(self.inp), self.ref)
        return same(self.inp, self.inp_backup)


def all_cases(ref):
    for in_order, out_order, as_file, write_file in itertools.product(
        ["xyz", "zyx"], ["xyz", "zyx"], [False, True], [False, True]
    ):
        yield Case(ref, in_order, out_order, as_file, write_file)


def block_means(ref, f):
    """Independent block mean with zero padding at the far edges (explicit loops over blocks)."""
    n, h, w = ref.shape
    H, W = -(-h // f), -(-w // f)
    pad = np.zeros((n, H * f, W * f), dtype=np.float64)
    pad[:, :h, :w] = ref
    out = np.zeros((n, H, W), dtype=np.float64)
    for i in range(H):
        for j in range(W):
            out[:, i, j] = pad[:, i * f : (i + 1) * f, j * f : (j + 1) * f].sum(axis=(1, 2)) / (f * f)
    return out


def property_checks(mod, tag, n_stacks):
    """The property C15 checked against independent computations, for module-like object `mod`."""
    for s in range(n_stacks):
        if s == 0:
            ref = make_stack(2, 4, 40, np.int16)
        elif s == 1:
            ref = make_stack(25, 40, 4, np.float32)
        elif s == 2:
            ref = make_stack(3, 5, 7, np.float32)
        else:
            ref = make_stack()
        n, h, w = ref.shape
        dt = ref.dtype
        # tilt angles without ties, any order, negative values included
        angles = RNG.permutation(np.arange(n) * 3.0 - 1.5 * n) + RNG.uniform(-1, 1, size=n)
        order = sorted(range(n), key=lambda i: angles[i])
        k = int(RNG.integers(1, n))
        rm0 = sorted(RNG.choice(n, size=k, replace=False).tolist())
        rm0_shuffled = RNG.permutation(rm0).tolist()
        keep = [i for i in range(n) if i not in rm0]
        nw, nh = int(RNG.integers(1, w + 1)), int(RNG.integers(1, h + 1))
        f = int(RNG.choice([1, 2, 3, 4]))

        for c in all_cases(ref):
            L = f"[{tag}] {c.label()}"
            kw = dict(input_order=c.in_order, output_order=c.out_order)

            def run(func, exp_zyx, name, *a, exact=True, **k2):
                of = tmpname("out") if c.write_file else None
                try:
                    got = quiet(func, c.inp, *a, output_file=of, **kw, **k2)
                except Exception as e:  # noqa
                    check(False, f"{L} {name}: raised {type(e).__name__}: {e}")
                    return None
                exp = c.orient(exp_zyx)
                if exact:
                    check(same(got, exp), f"{L} {name}: returned array differs")
                else:
                    check(
                        got.shape == exp.shape and got.dtype == exp.dtype and np.allclose(got, exp, rtol=1e-6, atol=1e-4),
                        f"{L} {name}: returned array differs",
                    )
                if of:
                    on_disk = raw_read(of)
                    check(
                        on_disk.shape == exp_zyx.shape
                        and on_disk.dtype == dt
                        and (np.array_equal(on_disk, exp_zyx) if exact else np.allclose(on_disk, exp_zyx, rtol=1e-6, atol=1e-4)),
                        f"{L} {name}: written file differs",
                    )
                    # file holds the returned result
                    check(np.array_equal(c.orient(on_disk), got), f"{L} {name}: file != returned")
                check(c.untouched(), f"{L} {name}: input modified")
                return got

            # sorting
            exp_sorted = np.stack([ref[i] for i in order], axis=0)
            run(mod.sort_tilts_by_angle, exp_sorted, "sort(array angles)", angles.copy())
            run(mod.sort_tilts_by_angle, exp_sorted, "sort(list angles)", angles.tolist())
            # removing: 0-based / 1-based, list / array / shuffled
            exp_rm = np.stack([ref[i] for i in keep], axis=0)
            run(mod.remove_tilts, exp_rm, "remove 0-based list", list(rm0), numbered_from_1=False)
            run(mod.remove_tilts, exp_rm, "remove 1-based list", [i + 1 for i in rm0], numbered_from_1=True)
            run(mod.remove_tilts, exp_rm, "remove 1-based default", np.array(rm0_shuffled) + 1)
            run(mod.remove_tilts, exp_rm, "remove 0-based shuffled array", np.array(rm0_shuffled), numbered_from_1=False)
            if len(rm0) > 1:
                tf = tmpname("idx", ".txt")
                np.savetxt(tf, np.array(rm0) + 1, fmt="%d")
                run(mod.remove_tilts, exp_rm, "remove 1-based txt file", tf)
            # flipping: IMOD naming -- 'x' flips rows (y index), 'y' flips columns, 'z' flips tilt order
            for ax, exp_flip in (("x", ref[:, ::-1, :]), ("y", ref[:, :, ::-1]), ("z", ref[::-1, :, :])):
                run(mod.flip_along_axes, exp_flip, f"flip {ax}", ax)
                run(mod.flip_along_axes, ref, f"flip {ax} twice (list)", [ax, ax])
                # twice through two calls, array route
                g1 = quiet(mod.flip_along_axes, c.inp, [ax], input_order=c.in_order, output_order="zyx")
                g2 = quiet(mod.flip_along_axes, g1, ax, input_order="zyx", output_order=c.out_order)
                check(same(g2, c.orient(ref)), f"{L} flip {ax} two calls not identity")
            run(mod.flip_along_axes, ref[::-1, :, ::-1], "flip [y,z]", ["y", "z"])
            run(mod.flip_along_axes, ref[:, ::-1, ::-1], "flip [x,y]", ["x", "y"])
            # crop: central window
            sw, sh = w // 2 - nw // 2, h // 2 - nh // 2
            run(mod.crop, ref[:, sh : sh + nh, sw : sw + nw], "crop", new_width=nw, new_height=nh)
            run(mod.crop, ref[:, :, sw : sw + nw], "crop width only", new_width=nw)
            run(mod.crop, ref[:, sh : sh + nh, :], "crop height only", new_height=str(nh))
            run(mod.crop, ref, "crop none")
            # binning: block means
            bm = block_means(ref, f)
            exp_bin = bm.astype(dt)
            run(mod.bin, exp_bin, f"bin {f}", f, exact=(dt == np.int16))
            # even / odd split
            pre = tmpname("split", "") if c.write_file else None
            ev, od = quiet(mod.split_stack_even_odd, c.inp, output_file_prefix=pre, **kw)
            exp_ev = np.stack([ref[i] for i in range(0, n, 2)], axis=0)
            exp_od = np.stack([ref[i] for i in range(1, n, 2)], axis=0)
            check(same(ev, c.orient(exp_ev)), f"{L} split: even differs")
            check(same(od, c.orient(exp_od)), f"{L} split: odd differs")
            tax = 2 if c.out_order == "xyz" else 0
            inter = np.empty(c.orient(ref).shape, dtype=dt)
            sl_e = [slice(None)] * 3
            sl_o = [slice(None)] * 3
            sl_e[tax], sl_o[tax] = slice(0, None, 2), slice(1, None, 2)
            if inter[tuple(sl_e)].shape == ev.shape and inter[tuple(sl_o)].shape == od.shape:
                inter[tuple(sl_e)] = ev
                inter[tuple(sl_o)] = od
                check(same(inter, c.orient(ref)), f"{L} split: interleave != input")
            else:
                check(False, f"{L} split: even/odd shapes do not interleave to the input")
            if pre:
                fe, fo = raw_read(pre + "_even.mrc"), raw_read(pre + "_odd.mrc")
                check(same(fe, exp_ev), f"{L} split: even file differs")
                check(same(fo, exp_od), f"{L} split: odd file differs")
            # results must not alias each other / later edits: modify outputs, call again
            if ev.flags.writeable:
                ev[...] = 0
            ev2, od2 = quiet(mod.split_stack_even_odd, c.inp, **kw)
            check(same(ev2, c.orient(exp_ev)) and same(od2, c.orient(exp_od)), f"{L} split: repeated call differs")
            check(same(od, c.orient(exp_od)), f"{L} split: odd changed when even was edited")
            check(c.untouched(), f"{L} split: input modified")

    # indices_load itself
    for _ in range(50):
        v = RNG.integers(1, 26, size=int(RNG.integers(1, 10)))
        for src in (v.tolist(), v.copy()):
            check(np.array_equal(mod.indices_load(src, numbered_from_1=True), v - 1), f"[{tag}] indices_load 1-based")
            check(np.array_equal(mod.indices_load(src), v - 1), f"[{tag}] indices_load default")
            check(np.array_equal(mod.indices_load(src, numbered_from_1=False), v), f"[{tag}] indices_load 0-based")
        check(np.array_equal(np.asarray(v), v), "input kept")


class Mod(types.SimpleNamespace):
    pass


def lib_mod():
    return Mod(
        sort_tilts_by_angle=tiltstack.sort_tilts_by_angle,
        remove_tilts=tiltstack.remove_tilts,
        flip_along_axes=tiltstack.flip_along_axes,
        crop=tiltstack.crop,
        bin=tiltstack.bin,
        split_stack_even_odd=tiltstack.split_stack_even_odd,
        indices_load=ioutils.indices_load,
    )


def orig_mod(orig_tiltstack_src="", orig_ioutils_src=""):
    """Original (pre-refactoring) code compiled from the text kept in this file. Everything that is not redefined by
    the given text is taken from the worktree's modules."""
    io_ns = dict(vars(ioutils))
    if orig_ioutils_src:
        exec(compile(orig_ioutils_src, "<orig_ioutils>", "exec"), io_ns)
    ns = dict(vars(tiltstack))
    ns["ioutils"] = types.SimpleNamespace(**{k: v for k, v in io_ns.items() if not k.startswith("__")})
    if orig_tiltstack_src:
        exec(compile(orig_tiltstack_src, "<orig_tiltstack>", "exec"), ns)
    return Mod(
        sort_tilts_by_angle=ns["sort_tilts_by_angle"],
        remove_tilts=ns["remove_tilts"],
        flip_along_axes=ns["flip_along_axes"],
        crop=ns["crop"],
        bin=ns["bin"],
        split_stack_even_odd=ns["split_stack_even_odd"],
        indices_load=io_ns["indices_load"],
        TiltStack=ns["TiltStack"],
    )


def outcome(f, *a, **k):
    """Result or exception type, for comparing the patched and the original code also on odd inputs."""
    try:
        r = quiet(f, *a, **k)
    except Exception as e:  # noqa
        return ("EXC", type(e).__name__)
    return ("OK", r)


def same_outcome(o1, o2):
    if o1[0] != o2[0]:
        return False
    if o1[0] == "EXC":
        return o1[1] == o2[1]
    r1, r2 = o1[1], o2[1]
    if isinstance(r1, tuple):
        return len(r1) == len(r2) and all(same(np.asarray(x), np.asarray(y)) for x, y in zip(r1, r2))
    return same(np.asarray(r1), np.asarray(r2))


# ---------------------------------------------------------------------------------------------------------------------
# Change (a): split_stack_even_odd -- loop + np.stack replaced by strided slices (with copies), guard clause first.
# Original text of the function body (docstring removed), kept for the direct comparison:
ORIG_TS = '''
def split_stack_even_odd(tilt_stack, output_file_prefix=None, input_order="xyz", output_order="xyz"):

    ts = TiltStack(tilt_stack=tilt_stack, input_order=input_order, output_order=output_order)

    even_stack = []
    odd_stack = []

    if not ts.n_tilts == 1:
        # For each tilt image in the stack
        for i in range(ts.n_tilts):

            # Split to even and odd by using modulo 2
            if i % 2 == 0:
                even_stack.append(ts.data[i, :, :])
            else:
                odd_stack.append(ts.data[i, :, :])

        even_stack = np.stack(even_stack, axis=0)
        odd_stack = np.stack(odd_stack, axis=0)

        if output_file_prefix:
            ts.write_out(output_file_prefix + "_even.mrc", new_data=even_stack)
            ts.write_out(output_file_prefix + "_odd.mrc", new_data=odd_stack)

        return ts.correct_order(even_stack), ts.correct_order(odd_stack)
    else:
        raise ValueError(f"Stack contains only 1 tilt.")
'''


def compare_with_original():
    orig = orig_mod(ORIG_TS)
    lib = lib_mod()
    for it in range(150):
        ref = make_stack()
        if it < 24:
            ref = make_stack(n=it + 2)  # every tilt count 2..25
        for c in all_cases(ref):
            kw = dict(input_order=c.in_order, output_order=c.out_order)
            p1 = tmpname("cmpA", "") if c.write_file else None
            p2 = tmpname("cmpB", "") if c.write_file else None
            o1 = outcome(lib.split_stack_even_odd, c.inp, output_file_prefix=p1, **kw)
            o2 = outcome(orig.split_stack_even_odd, c.inp, output_file_prefix=p2, **kw)
            check(same_outcome(o1, o2), f"[cmp] {c.label()} split differs from original")
            if o1[0] == "OK" and o2[0] == "OK":
                for x, y in zip(o1[1], o2[1]):
                    # (strides may differ: np.stack kept the memory order of its inputs; values, shape, dtype may not)
                    check(not np.shares_memory(x, y), f"[cmp] {c.label()} results share memory")
                    check(x.flags.writeable == y.flags.writeable, f"[cmp] {c.label()} writeable flag differs")
            if p1:
                for suf in ("_even.mrc", "_odd.mrc"):
                    a, b = raw_read(p1 + suf), raw_read(p2 + suf)
                    check(same(a, b), f"[cmp] {c.label()} file {suf} differs from original")
                    with open(p1 + suf, "rb") as fa, open(p2 + suf, "rb") as fb:
                        # data section only: the header carries a time-stamped label
                        check(fa.read()[1024:] == fb.read()[1024:], f"[cmp] {c.label()} file {suf} bytes differ")
            check(c.untouched(), f"[cmp] {c.label()} input modified")
    # single-tilt stacks (outside the quantifier) still raise the same error
    one = make_stack(2)[:1]
    for io in ("xyz", "zyx"):
        arr = one.transpose(2, 1, 0).copy() if io == "xyz" else one.copy()
        o1 = outcome(lib.split_stack_even_odd, arr, input_order=io)
        o2 = outcome(orig.split_stack_even_odd, arr, input_order=io)
        check(o1 == o2 == ("EXC", "ValueError"), f"[cmp] single tilt: {o1} vs {o2}")
    # float64 input: written as float32 by cryomap.write via data_type? (data_type is float64 -> float32 on disk)
    r64 = make_stack(5, 6, 9, np.float32).astype(np.float64)
    p1, p2 = tmpname("f64A", ""), tmpname("f64B", "")
    o1 = outcome(lib.split_stack_even_odd, r64, output_file_prefix=p1, input_order="zyx", output_order="zyx")
    o2 = outcome(orig.split_stack_even_odd, r64, output_file_prefix=p2, input_order="zyx", output_order="zyx")
    check(same_outcome(o1, o2), "[cmp] float64 differs")
    check(same(raw_read(p1 + "_odd.mrc"), raw_read(p2 + "_odd.mrc")), "[cmp] float64 file differs")


if __name__ == "__main__":
    property_checks(lib_mod(), "lib", 12)
    property_checks(orig_mod(ORIG_TS), "orig-copy", 3)
    compare_with_original()
    import shutil

    shutil.rmtree(TMP, ignore_errors=True)
    if FAILS:
        print(f"FAIL: {len(FAILS)} of {N_CHECKS[0]} checks failed")
        sys.exit(1)
    print(f"PASS ({N_CHECKS[0]} checks)")
