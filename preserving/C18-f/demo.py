import os, sys

sys.path.insert(0, os.getcwd())
import warnings

warnings.filterwarnings("ignore")
import numpy as np
import pandas as pd
import sklearn.neighbors as sn
from scipy.spatial.transform import Rotation as srot

from cryocat import cryomotl, geom, nnana
from cryocat.exceptions import UserInputError

CHANGE = "c"  # which maintenance change this demo accompanies (a: helper extraction, b: signatures, c: modernisation)

# --------------------------------------------------------------------------------------------------------------------
# ORIGINAL FUNCTION TEXT (copied from the unmodified tree, only renamed with the prefix orig_)
# --------------------------------------------------------------------------------------------------------------------


def orig_compare_rotations(angles1, angles2, c_symmetry=1, rotation_type="all"):
    dist_degrees = geom.angular_distance(angles1, angles2, c_symmetry=c_symmetry)[0]
    dist_degrees_normals, dist_degrees_inplane = geom.cone_inplane_distance(angles1, angles2, c_symmetry=c_symmetry)

    if rotation_type == "all":
        return dist_degrees, dist_degrees_normals, dist_degrees_inplane
    elif rotation_type == "angular_distance":
        return dist_degrees
    elif rotation_type == "cone_distance":
        return dist_degrees_normals
    elif rotation_type == "in_plane_distance":
        return dist_degrees_inplane
    else:
        raise UserInputError(f"The rotation type {rotation_type} is not supported.")


def orig_get_feature_nn_indices(fm_a, fm_nn, nn_number=1):
    coord_a = fm_a.get_coordinates()
    coord_nn = fm_nn.get_coordinates()

    nn_count = min(nn_number, coord_nn.shape[0])
    kdt_nn = sn.KDTree(coord_nn)
    nn_dist, nn_idx = kdt_nn.query(coord_a, k=nn_count)
    ordered_idx = np.arange(0, nn_idx.shape[0], 1)

    return (
        ordered_idx,
        nn_idx.reshape((nn_idx.shape[0], nn_count)),
        nn_dist.reshape((nn_idx.shape[0], nn_count)),
        nn_count,
    )


def orig_get_nn_stats(
    motl_a, motl_nn, pixel_size=1.0, feature_id="tomo_id", nn_number=1, rotation_type="angular_distance"
):
    (
        centered_coord,
        rotated_coord,
        nn_dist,
        ang_dst,
        subtomo_idx,
        subtomo_idx_nn,
    ) = orig_get_nn_distances(
        motl_a, motl_nn, nn_number=nn_number, pixel_size=pixel_size, feature=feature_id, rotation_type=rotation_type
    )

    coord_rot, angles = orig_get_nn_rotations(motl_a, motl_nn, feature=feature_id, nn_number=nn_number)

    nn_stats = pd.DataFrame(
        np.hstack(
            (
                nn_dist.reshape((nn_dist.shape[0], 1)),
                centered_coord,
                rotated_coord,
                ang_dst.reshape((nn_dist.shape[0], 1)),
                coord_rot,
                angles,
                subtomo_idx.reshape((nn_dist.shape[0], 1)),
                subtomo_idx_nn.reshape((nn_dist.shape[0], 1)),
            )
        ),
        columns=[
            "distance",
            "coord_x",
            "coord_y",
            "coord_z",
            "coord_rx",
            "coord_ry",
            "coord_rz",
            "angular_distance",
            "rot_x",
            "rot_y",
            "rot_z",
            "phi",
            "theta",
            "psi",
            "subtomo_idx",
            "subtomo_nn_idx",
        ],
    )

    nn_stats["type"] = "nn"

    return nn_stats


def orig_get_nn_distances(
    motl_a, motl_nn, pixel_size=1.0, nn_number=1, feature="tomo_id", rotation_type="angular_distance"
):
    if isinstance(motl_a, str):
        motl_a = cryomotl.Motl(motl_path=motl_a)

    if isinstance(motl_nn, str):
        motl_nn = cryomotl.Motl(motl_path=motl_nn)

    # Get unique feature idx
    features_a = np.unique(motl_a.df.loc[:, feature].values)
    features_nn = np.unique(motl_nn.df.loc[:, feature].values)

    # Work only with intersection
    features = np.intersect1d(features_a, features_nn, assume_unique=True)

    centered_coord = []
    nn_dist = []
    angular_distances = []
    rotated_coord = []
    subtomo_idx = []
    subtomo_idx_nn = []

    for f in features:
        fm_a = motl_a.get_motl_subset(f, feature_id=feature)
        fm_nn = motl_nn.get_motl_subset(f, feature_id=feature)

        idx, nn_idx, dist, nn_count = orig_get_feature_nn_indices(fm_a, fm_nn, nn_number)

        if len(idx) == 0:
            continue

        coord_nn = fm_nn.get_coordinates() * pixel_size
        coord_a = fm_a.get_coordinates() * pixel_size

        # get angles
        angles_a = fm_a.get_angles()
        angles_a = angles_a[idx, :]
        angles_nn = fm_nn.get_angles()
        rotations = srot.from_euler("zxz", angles=angles_a, degrees=True)

        angles = -fm_a.df[["psi", "theta", "phi"]].values
        angles = angles[idx, :]
        rot = srot.from_euler("zxz", angles=angles, degrees=True)

        subtomos_nn = fm_nn.df["subtomo_id"].to_numpy()
        subtomos_a = fm_a.df["subtomo_id"].to_numpy()

        for i in range(nn_count):
            c_coord = coord_nn[nn_idx[:, i], :] - coord_a[idx, :]
            centered_coord.append(c_coord)
            nn_dist.append(dist[:, i] * pixel_size)

            angles_nn_sel = angles_nn[nn_idx[:, i], :]

            rotations_nn = srot.from_euler("zxz", angles=angles_nn_sel, degrees=True)
            angular_distances.append(orig_compare_rotations(rotations, rotations_nn, rotation_type=rotation_type))

            rotated_coord.append(rot.apply(c_coord))

            subtomo_idx_nn.append(subtomos_nn[nn_idx[:, i]])
            subtomo_idx.append(subtomos_a[idx])

    return (
        np.vstack(centered_coord),
        np.vstack(rotated_coord),
        np.concatenate(nn_dist),
        np.concatenate(angular_distances),
        np.concatenate(subtomo_idx),
        np.concatenate(subtomo_idx_nn),
    )


def orig_get_nn_rotations(motl_a, motl_nn, nn_number=1, feature="tomo_id", type_id="geom1"):
    if isinstance(motl_a, str):
        motl_a = cryomotl.Motl(motl_path=motl_a)

    if isinstance(motl_nn, str):
        motl_nn = cryomotl.Motl(motl_path=motl_nn)

    # Get unique feature idx
    features_a = np.unique(motl_a.df.loc[:, feature].values)
    features_nn = np.unique(motl_nn.df.loc[:, feature].values)

    # Work only with intersection
    features = np.intersect1d(features_a, features_nn, assume_unique=True)

    nn_rotations = []

    for f in features:
        fm_a = motl_a.get_motl_subset(f, feature_id=feature)
        fm_nn = motl_nn.get_motl_subset(f, feature_id=feature)

        idx, idx_nn, _, nn_count = orig_get_feature_nn_indices(fm_a, fm_nn, nn_number)

        angles_nn = fm_nn.get_angles()
        angles_ref_to_zero = -fm_a.get_feature(["psi", "theta", "phi"])
        rot_to_zero = srot.from_euler("zxz", angles=angles_ref_to_zero[idx, :], degrees=True)

        for i in range(nn_count):
            rot_nn = srot.from_euler("zxz", angles=angles_nn[idx_nn[:, i], :], degrees=True)
            nn_rotations.append(rot_to_zero * rot_nn)

    nn_rotations = srot.concatenate(nn_rotations)
    points_on_sphere = geom.visualize_rotations(nn_rotations, plot_rotations=False)
    angles = nn_rotations.as_euler("zxz", degrees=True)

    return points_on_sphere, angles


# --------------------------------------------------------------------------------------------------------------------
# test data
# --------------------------------------------------------------------------------------------------------------------
_next_subtomo = [1]


def make_motl(rng, n, tomos, shifts=True, box=400.0):
    """n particles spread over the given tomogram numbers, random order of tomograms, unique subtomo ids."""
    df = cryomotl.Motl.create_empty_motl_df()
    tomo = rng.choice(np.asarray(tomos), size=n)
    # every listed tomogram gets at least one particle when there is room for it
    for j, t in enumerate(tomos[: min(n, len(tomos))]):
        tomo[j] = t
    tomo = rng.permutation(tomo)
    data = {c: np.zeros(n) for c in cryomotl.Motl.motl_columns}
    data["tomo_id"] = tomo.astype(float)
    data["object_id"] = rng.integers(1, 4, size=n).astype(float)
    ids = rng.permutation(np.arange(_next_subtomo[0], _next_subtomo[0] + n)).astype(float)
    _next_subtomo[0] += n
    data["subtomo_id"] = ids
    pos = rng.uniform(0.0, box, size=(n, 3))
    data["x"], data["y"], data["z"] = np.round(pos[:, 0]), np.round(pos[:, 1]), np.round(pos[:, 2])
    if shifts:
        sh = rng.uniform(-0.5, 0.5, size=(n, 3))
        data["shift_x"], data["shift_y"], data["shift_z"] = sh[:, 0], sh[:, 1], sh[:, 2]
    ang = srot.random(n, random_state=rng.integers(1 << 30)).as_euler("zxz", degrees=True)
    data["phi"], data["theta"], data["psi"] = ang[:, 0], ang[:, 1], ang[:, 2]
    data["class"] = np.ones(n)
    df = pd.DataFrame(data, columns=cryomotl.Motl.motl_columns)
    return cryomotl.Motl(motl_df=df)


def copy_motl(m):
    return cryomotl.Motl(motl_df=m.df.copy(deep=True))


def rigid_move(m, Qs, ts):
    """Rotate all positions and orientations of tomogram t by Qs[t] and translate by ts[t]."""
    new = copy_motl(m)
    df = new.df
    for t in np.unique(df["tomo_id"].to_numpy()):
        sel = (df["tomo_id"] == t).to_numpy()
        Q, tr = Qs[t], ts[t]
        pos = df.loc[sel, ["x", "y", "z"]].to_numpy(dtype=float) + df.loc[
            sel, ["shift_x", "shift_y", "shift_z"]
        ].to_numpy(dtype=float)
        new_pos = Q.apply(pos) + tr
        base = np.floor(new_pos)
        df.loc[sel, ["x", "y", "z"]] = base
        df.loc[sel, ["shift_x", "shift_y", "shift_z"]] = new_pos - base
        R = srot.from_euler("zxz", df.loc[sel, ["phi", "theta", "psi"]].to_numpy(dtype=float), degrees=True)
        df.loc[sel, ["phi", "theta", "psi"]] = (Q * R).as_euler("zxz", degrees=True)
    return new


# --------------------------------------------------------------------------------------------------------------------
# independent computation (plain loops, rotation matrices written out by hand)
# --------------------------------------------------------------------------------------------------------------------
def rz(a):
    c, s = np.cos(np.radians(a)), np.sin(np.radians(a))
    return np.array([[c, -s, 0.0], [s, c, 0.0], [0.0, 0.0, 1.0]])


def rx(a):
    c, s = np.cos(np.radians(a)), np.sin(np.radians(a))
    return np.array([[1.0, 0.0, 0.0], [0.0, c, -s], [0.0, s, c]])


def orientation(phi, theta, psi):
    # extrinsic zxz: first phi about z, then theta about x, then psi about z
    return rz(psi) @ rx(theta) @ rz(phi)


def brute_force(motl_a, motl_nn, k, pixel_size, feature="tomo_id"):
    da, dn = motl_a.df, motl_nn.df
    feats = sorted(set(da[feature].tolist()) & set(dn[feature].tolist()))
    rows = []
    for f in feats:
        A = da[da[feature] == f]
        N = dn[dn[feature] == f]
        pa = A[["x", "y", "z"]].to_numpy(dtype=float) + A[["shift_x", "shift_y", "shift_z"]].to_numpy(dtype=float)
        pn = N[["x", "y", "z"]].to_numpy(dtype=float) + N[["shift_x", "shift_y", "shift_z"]].to_numpy(dtype=float)
        aa = A[["phi", "theta", "psi"]].to_numpy(dtype=float)
        an = N[["phi", "theta", "psi"]].to_numpy(dtype=float)
        ida = A["subtomo_id"].to_numpy(dtype=float)
        idn = N["subtomo_id"].to_numpy(dtype=float)
        kk = min(k, len(N))
        order = []
        for i in range(len(A)):
            d = np.sqrt(((pn - pa[i]) ** 2).sum(axis=1))
            order.append(np.argsort(d, kind="stable")[:kk])
        for r in range(kk):
            for i in range(len(A)):
                j = order[i][r]
                off = (pn[j] - pa[i]) * pixel_size
                Ra = orientation(*aa[i])
                Rn = orientation(*an[j])
                rel = Ra.T @ Rn
                cosang = np.clip((np.trace(rel) - 1.0) / 2.0, -1.0, 1.0)
                rows.append(
                    dict(
                        distance=np.sqrt((off**2).sum()),
                        off=off,
                        roff=Ra.T @ off,
                        ang=np.degrees(np.arccos(cosang)),
                        rel=rel,
                        a=ida[i],
                        n=idn[j],
                    )
                )
    return rows


def rel_matrices(stats):
    return srot.from_euler("zxz", stats[["phi", "theta", "psi"]].to_numpy(dtype=float), degrees=True).as_matrix()


def check_against_brute(stats, rows, label):
    assert list(stats.columns) == [
        "distance", "coord_x", "coord_y", "coord_z", "coord_rx", "coord_ry", "coord_rz", "angular_distance",
        "rot_x", "rot_y", "rot_z", "phi", "theta", "psi", "subtomo_idx", "subtomo_nn_idx", "type",
    ], label
    assert len(stats) == len(rows), (label, len(stats), len(rows))
    assert (stats["type"] == "nn").all(), label
    exp = lambda key: np.array([r[key] for r in rows])
    assert np.array_equal(stats["subtomo_idx"].to_numpy(dtype=float), exp("a")), label + " query ids"
    assert np.array_equal(stats["subtomo_nn_idx"].to_numpy(dtype=float), exp("n")), label + " neighbour ids"
    assert np.allclose(stats["distance"].to_numpy(dtype=float), exp("distance"), rtol=1e-9, atol=1e-7), label + " dist"
    assert np.allclose(stats[["coord_x", "coord_y", "coord_z"]].to_numpy(dtype=float), exp("off"), atol=1e-7), label
    assert np.allclose(stats[["coord_rx", "coord_ry", "coord_rz"]].to_numpy(dtype=float), exp("roff"), atol=1e-6), (
        label + " particle frame offset"
    )
    assert np.allclose(stats["angular_distance"].to_numpy(dtype=float), exp("ang"), atol=1e-4), label + " angular"
    rel = exp("rel")
    assert np.allclose(rel_matrices(stats), rel, atol=1e-7), label + " relative orientation"
    assert np.allclose(stats[["rot_x", "rot_y", "rot_z"]].to_numpy(dtype=float), rel[:, :, 2], atol=1e-7), label


def check_ascending(stats, motl_a, motl_nn, k, feature="tomo_id"):
    """Within one tomogram the r-th block of rows must not be closer than the (r-1)-th block, particle by particle."""
    pos = 0
    da, dn = motl_a.df, motl_nn.df
    for f in sorted(set(da[feature].tolist()) & set(dn[feature].tolist())):
        na, nn = int((da[feature] == f).sum()), int((dn[feature] == f).sum())
        kk = min(k, nn)
        block = stats["distance"].to_numpy(dtype=float)[pos : pos + na * kk].reshape(kk, na)
        assert (np.diff(block, axis=0) >= 0).all(), "neighbours not in ascending order"
        pos += na * kk
    assert pos == len(stats)


def same_frames(s1, s2, label):
    assert list(s1.columns) == list(s2.columns), label
    assert list(s1.dtypes) == list(s2.dtypes), label
    assert s1.shape == s2.shape, (label, s1.shape, s2.shape)
    assert s1.index.equals(s2.index), label
    for c in s1.columns:
        a, b = s1[c].to_numpy(), s2[c].to_numpy()
        if a.dtype.kind == "f":
            assert np.array_equal(a, b, equal_nan=True), (label, c)
        else:
            assert (a == b).all(), (label, c)


def check_invariance(s1, s2, label):
    assert len(s1) == len(s2), label
    for c in ["subtomo_idx", "subtomo_nn_idx"]:
        assert np.array_equal(s1[c].to_numpy(dtype=float), s2[c].to_numpy(dtype=float)), label + " " + c
    assert np.allclose(s1["distance"].to_numpy(dtype=float), s2["distance"].to_numpy(dtype=float), atol=1e-6), label
    cols = ["coord_rx", "coord_ry", "coord_rz"]
    assert np.allclose(s1[cols].to_numpy(dtype=float), s2[cols].to_numpy(dtype=float), atol=1e-6), label + " roff"
    assert np.allclose(
        s1["angular_distance"].to_numpy(dtype=float), s2["angular_distance"].to_numpy(dtype=float), atol=1e-4
    ), (label + " angular")
    assert np.allclose(rel_matrices(s1), rel_matrices(s2), atol=1e-7), label + " relative orientation"
    cols = ["rot_x", "rot_y", "rot_z"]
    assert np.allclose(s1[cols].to_numpy(dtype=float), s2[cols].to_numpy(dtype=float), atol=1e-7), label


def outcome(fn, *args, **kwargs):
    try:
        return ("ok", fn(*args, **kwargs))
    except Exception as e:  # noqa
        return ("raise", type(e).__name__)


def full_check(motl_a, motl_nn, k, px, label, feature="tomo_id", rotation_type="angular_distance", **extra):
    """current get_nn_stats == original text == brute force; inputs must not be modified by the call."""
    before_a, before_n = motl_a.df.copy(deep=True), motl_nn.df.copy(deep=True)
    new = outcome(
        nnana.get_nn_stats, motl_a, motl_nn, pixel_size=px, feature_id=feature, nn_number=k,
        rotation_type=rotation_type, **extra
    )
    old = outcome(
        orig_get_nn_stats, motl_a, motl_nn, pixel_size=px, feature_id=feature, nn_number=k, rotation_type=rotation_type
    )
    assert new[0] == old[0], (label, new, old)
    assert motl_a.df.equals(before_a) and motl_nn.df.equals(before_n), label + " inputs modified"
    if new[0] == "raise":
        assert new[1] == old[1], (label, new, old)
        return None
    same_frames(new[1], old[1], label + " vs original text")
    if rotation_type == "angular_distance":
        check_against_brute(new[1], brute_force(motl_a, motl_nn, k, px, feature), label + " vs brute force")
        check_ascending(new[1], motl_a, motl_nn, k, feature)
    return new[1]


# --------------------------------------------------------------------------------------------------------------------
def main():
    rng = np.random.default_rng(20240918)
    n_cases = 0

    # 1. random pairs of lists, all k, several pixel sizes, rigid motion per tomogram
    sizes = [(1, 1), (1, 7), (7, 1), (2, 2), (3, 5), (12, 9), (40, 60), (200, 200), (200, 3), (5, 200), (77, 131)]
    for rep, (na, nn) in enumerate(sizes * 2):
        n_tomo = int(rng.integers(1, 5))
        tomos_all = list(rng.choice(np.arange(1, 40), size=n_tomo + 2, replace=False))
        kind = rep % 3
        if kind == 0:  # same tomogram sets
            ta, tn = tomos_all[:n_tomo], tomos_all[:n_tomo]
        elif kind == 1:  # overlapping but different sets
            ta, tn = tomos_all[: n_tomo + 1], tomos_all[:n_tomo] + [tomos_all[n_tomo + 1]]
        else:  # second list has fewer tomograms
            ta, tn = tomos_all[:n_tomo], tomos_all[: max(1, n_tomo - 1)]
        ta, tn = ta[: max(1, min(len(ta), 4))], tn[: max(1, min(len(tn), 4))]
        motl_a = make_motl(rng, na, ta, shifts=bool(rep % 4))
        motl_nn = make_motl(rng, nn, tn, shifts=True)
        px = float(rng.choice([1.0, 0.37, 2.5, 13.33]))
        all_t = sorted(set(ta) | set(tn))
        Qs = {float(t): srot.random(random_state=int(rng.integers(1 << 30))) for t in all_t}
        ts = {float(t): rng.uniform(-300, 300, size=3) for t in all_t}
        mv_a, mv_nn = rigid_move(motl_a, Qs, ts), rigid_move(motl_nn, Qs, ts)
        for k in range(1, 6):
            label = f"case {rep} na={na} nn={nn} k={k} px={px}"
            s = full_check(motl_a, motl_nn, k, px, label)
            s_mv = full_check(mv_a, mv_nn, k, px, label + " moved")
            if s is not None:
                check_invariance(s, s_mv, label + " rigid motion")
            n_cases += 2
        # other rotation types and another feature column: only against the original text
        for rt in ["cone_distance", "in_plane_distance", "angular_distance", "all", "nonsense"]:
            full_check(motl_a, motl_nn, 2, px, f"case {rep} {rt}", rotation_type=rt)
        full_check(motl_a, motl_nn, 3, px, f"case {rep} object_id", feature="object_id")
        # the two building blocks directly, positional and keyword use
        for fn_new, fn_old in [(nnana.get_nn_distances, orig_get_nn_distances), (nnana.get_nn_rotations, orig_get_nn_rotations)]:
            r_new, r_old = outcome(fn_new, motl_a, motl_nn), outcome(fn_old, motl_a, motl_nn)
            assert r_new[0] == r_old[0]
            if r_new[0] == "ok":
                for x, y in zip(r_new[1], r_old[1]):
                    assert np.array_equal(x, y)
            r_new = outcome(fn_new, motl_a, motl_nn, nn_number=4, feature="tomo_id")
            r_old = outcome(fn_old, motl_a, motl_nn, nn_number=4, feature="tomo_id")
            assert r_new[0] == r_old[0]
            if r_new[0] == "ok":
                for x, y in zip(r_new[1], r_old[1]):
                    assert np.array_equal(x, y)
        r_new = outcome(nnana.get_nn_distances, motl_a, motl_nn, 2.0, 3, "tomo_id", "cone_distance")
        r_old = outcome(orig_get_nn_distances, motl_a, motl_nn, 2.0, 3, "tomo_id", "cone_distance")
        assert r_new[0] == r_old[0]
        if r_new[0] == "ok":
            for x, y in zip(r_new[1], r_old[1]):
                assert np.array_equal(x, y)
        first = (motl_a.get_motl_subset(ta[0]), motl_nn.get_motl_subset(tn[0]))
        for kk in (1, 3, 500):
            r_new = nnana.get_feature_nn_indices(first[0], first[1], kk)
            r_old = orig_get_feature_nn_indices(first[0], first[1], kk)
            for x, y in zip(r_new, r_old):
                assert np.array_equal(x, y) and np.asarray(x).dtype == np.asarray(y).dtype
            r_kw = nnana.get_feature_nn_indices(first[0], first[1], nn_number=kk)
            for x, y in zip(r_kw, r_old):
                assert np.array_equal(x, y)
        r_def = nnana.get_feature_nn_indices(first[0], first[1])
        for x, y in zip(r_def, orig_get_feature_nn_indices(first[0], first[1])):
            assert np.array_equal(x, y)

    # 2. completely disjoint tomogram sets: whatever the original does, the current code does the same
    motl_a, motl_nn = make_motl(rng, 10, [1, 2]), make_motl(rng, 10, [3, 4])
    for k in (1, 3):
        full_check(motl_a, motl_nn, k, 1.0, "disjoint")

    # 3. coincident lists: the same object twice, and an equal copy (nearest neighbour is the particle itself)
    for n, tomos in [(1, [5]), (2, [5]), (30, [5, 6]), (200, [1, 2, 3, 4])]:
        m = make_motl(rng, n, tomos)
        for k in range(1, 6):
            s1 = full_check(m, m, k, 1.7, f"coincident same object n={n} k={k}")
            s2 = full_check(m, copy_motl(m), k, 1.7, f"coincident copy n={n} k={k}")
            same_frames(s1, s2, "coincident")
            first_block = s1.iloc[: 0 if s1 is None else min(len(s1), 1)]
            assert (first_block["distance"] == 0).all() and (
                first_block["subtomo_idx"] == first_block["subtomo_nn_idx"]
            ).all()

    # 4. call sequences: repeated calls, calls in both orders, calls after the lists were edited in place
    for rep in range(6):
        tomos = [3, 8, 11, 20][: 1 + rep % 4]
        motl_a, motl_nn = make_motl(rng, 50 + 10 * rep, tomos), make_motl(rng, 70 - 5 * rep, tomos)
        k, px = 1 + rep % 5, [1.0, 4.2][rep % 2]
        s1 = full_check(motl_a, motl_nn, k, px, f"seq {rep} first")
        s1b = full_check(motl_a, motl_nn, k, px, f"seq {rep} repeated")
        same_frames(s1, s1b, "repeat")
        full_check(motl_nn, motl_a, k, px, f"seq {rep} swapped")
        full_check(motl_a, motl_nn, max(1, k - 1), px * 2, f"seq {rep} other options")
        # edit the first list in place: positions, orientations, tomogram membership
        motl_a.df.loc[:, "x"] = motl_a.df["x"] + rng.uniform(-50, 50, size=len(motl_a.df))
        motl_a.df.loc[:, "shift_z"] = rng.uniform(-3, 3, size=len(motl_a.df))
        motl_a.df.loc[:, ["phi", "theta", "psi"]] = srot.random(
            len(motl_a.df), random_state=int(rng.integers(1 << 30))
        ).as_euler("zxz", degrees=True)
        s2 = full_check(motl_a, motl_nn, k, px, f"seq {rep} after editing a")
        assert not np.array_equal(s1["distance"].to_numpy(), s2["distance"].to_numpy())
        # edit the second list in place: drop rows, move particles to another tomogram, new ids
        motl_nn.df.drop(index=motl_nn.df.index[::7], inplace=True)
        motl_nn.df.loc[motl_nn.df.index[:5], "tomo_id"] = float(tomos[-1])
        motl_nn.df.loc[:, "subtomo_id"] = motl_nn.df["subtomo_id"] + 100000.0
        motl_nn.df.loc[:, "y"] = motl_nn.df["y"] * 0.5
        s3 = full_check(motl_a, motl_nn, k, px, f"seq {rep} after editing nn")
        full_check(motl_nn, motl_a, k, px, f"seq {rep} swapped after editing")
        s3b = full_check(motl_a, motl_nn, k, px, f"seq {rep} third call")
        same_frames(s3, s3b, "third call")
        # replace the data frame of the object altogether
        motl_a.df = make_motl(rng, 33, tomos).df
        full_check(motl_a, motl_nn, k, px, f"seq {rep} new frame")
        full_check(motl_a, motl_a, k, px, f"seq {rep} new frame with itself")

    # 5. geom.compare_rotations itself against its original text (all result kinds, symmetry, both input kinds)
    for rep in range(20):
        n = int(rng.integers(1, 40))
        r1 = srot.random(n, random_state=int(rng.integers(1 << 30)))
        r2 = srot.random(n, random_state=int(rng.integers(1 << 30)))
        for a1, a2 in [(r1, r2), (r1.as_euler("zxz", degrees=True), r2.as_euler("zxz", degrees=True)), (r1, r1)]:
            for sym in (1, 2, 6):
                for rt in ("all", "angular_distance", "cone_distance", "in_plane_distance"):
                    new = geom.compare_rotations(a1, a2, sym, rt)
                    old = orig_compare_rotations(a1, a2, sym, rt)
                    assert np.array_equal(np.asarray(new), np.asarray(old)), (rep, sym, rt)
                    new = geom.compare_rotations(a1, a2, c_symmetry=sym, rotation_type=rt)
                    assert np.array_equal(np.asarray(new), np.asarray(old)), (rep, sym, rt)
            assert all(
                np.array_equal(x, y) for x, y in zip(geom.compare_rotations(a1, a2), orig_compare_rotations(a1, a2))
            )
        assert outcome(geom.compare_rotations, r1, r2, 1, "bad") == outcome(orig_compare_rotations, r1, r2, 1, "bad")

    extra_checks()
    print(f"checked {n_cases} list pairs against brute force and the original text")
    print("PASS")


def extra_checks():
    """Checks specific to the accompanying change; must also hold on the unmodified tree."""
    rng = np.random.default_rng(3)
    # result layout: float columns, default index, C-ordered blocks; integer-typed id/feature columns in the lists
    for int_ids in (False, True):
        a, b = make_motl(rng, 30, [2, 7]), make_motl(rng, 4, [2, 7, 9])
        if int_ids:
            for m in (a, b):
                m.df["subtomo_id"] = m.df["subtomo_id"].astype(np.int64)
                m.df["tomo_id"] = m.df["tomo_id"].astype(np.int64)
        for k in (1, 2, 5):
            new = nnana.get_nn_stats(a, b, pixel_size=3.0, nn_number=k)
            old = orig_get_nn_stats(a, b, pixel_size=3.0, nn_number=k)
            same_frames(new, old, "layout")
            assert isinstance(new.index, pd.RangeIndex) and all(str(t) == "float64" for t in new.dtypes[:-1])
            check_against_brute(new, brute_force(a, b, k, 3.0), "layout vs brute force")
    # index helper: shapes and dtypes for one and many neighbours, also more neighbours requested than available
    a, b = make_motl(rng, 9, [1]), make_motl(rng, 3, [1])
    for k in (1, 2, 3, 4, 50):
        new = nnana.get_feature_nn_indices(a, b, k)
        old = orig_get_feature_nn_indices(a, b, k)
        assert new[3] == old[3] == min(k, 3)
        for x, y in zip(new[:3], old[:3]):
            assert x.shape == y.shape and x.dtype == y.dtype and np.array_equal(x, y)
        assert np.array_equal(new[0], np.arange(9))


if __name__ == "__main__":
    main()
