import sys, os

sys.path.insert(0, os.getcwd())
import re, tempfile, shutil, random, inspect
import numpy as np
import pandas as pd
from cryocat import starfileio
from cryocat.starfileio import Starfile, Token, TokenType

assert os.path.abspath(starfileio.__file__).startswith(os.getcwd()), starfileio.__file__

TMP = tempfile.mkdtemp(prefix="c02demo_")
FAILS = []


def fail(msg):
    FAILS.append(msg)
    if len(FAILS) <= 20:
        print("FAIL:", msg)


# ----------------------------------------------------------------------------------------------------------------
# independent reference reader (no code shared with cryocat): line based, regular expressions only
# ----------------------------------------------------------------------------------------------------------------
WORD = re.compile(r"[^\s#]+")
INT_RE = re.compile(r"[+-]?\d+\Z")
FLT_RE = re.compile(r"[+-]?(\d+\.\d*|\.\d+|\d+)([eE][+-]?\d+)?\Z")


def ref_lines(text):
    """text as python's text mode hands it over (universal newlines) -> list of (words, has_comment)"""
    text = text.replace("\r\n", "\n").replace("\r", "\n")
    out = []
    for line in text.split("\n"):
        h = line.find("#")
        body = line if h < 0 else line[:h]
        out.append((WORD.findall(body), h >= 0))
    return out


def ref_parse(text):
    """-> list of (block name, labels, rows of tokens)"""
    lines = ref_lines(text)
    blocks = []
    i = 0
    n = len(lines)

    def skip(i):
        while i < n and not lines[i][0]:
            i += 1
        return i

    while True:
        i = skip(i)
        if i >= n:
            break
        words, _ = lines[i]
        assert len(words) == 1 and not words[0].startswith("_") and words[0] != "loop_", words
        name = words[0]
        i = skip(i + 1)
        assert lines[i][0] == ["loop_"], lines[i]
        i += 1
        labels = []
        while i < n and len(lines[i][0]) == 1 and lines[i][0][0].startswith("_"):
            labels.append(lines[i][0][0][1:])
            i += 1
        i = skip(i)
        rows = []
        while i < n and lines[i][0] and not lines[i][1] and len(lines[i][0]) == len(labels):
            # a block name line of a following block has one word; it is a row only for one-column tables that
            # are not followed by a blank line, which the permitted layouts exclude
            rows.append(lines[i][0])
            i += 1
        blocks.append((name, labels, rows))
    return blocks


def ref_kind(tokens):
    if all(INT_RE.match(t) for t in tokens):
        return "int"
    if all(FLT_RE.match(t) for t in tokens):
        return "float"
    return "text"


def check_frames_against_ref(frames, specifiers, text, tag):
    """frames/specifiers as returned by Starfile.read against the independent reader on the same text"""
    ref = ref_parse(text)
    if list(specifiers) != [b[0] for b in ref]:
        fail(f"{tag}: block names {specifiers} != {[b[0] for b in ref]}")
        return
    if len(frames) != len(ref):
        fail(f"{tag}: number of frames")
        return
    for f, (name, labels, rows) in zip(frames, ref):
        if list(f.columns) != labels:
            fail(f"{tag}/{name}: labels {list(f.columns)} != {labels}")
            continue
        if len(f) != len(rows):
            fail(f"{tag}/{name}: {len(f)} rows != {len(rows)}")
            continue
        if list(f.index) != list(range(len(rows))):
            fail(f"{tag}/{name}: index {f.index}")
        if not rows:
            continue
        for j, lab in enumerate(labels):
            toks = [r[j] for r in rows]
            kind = ref_kind(toks)
            col = f.iloc[:, j]
            if kind == "int":
                if not pd.api.types.is_integer_dtype(col.dtype):
                    fail(f"{tag}/{name}/{lab}: int column read as {col.dtype}")
                elif [int(t) for t in toks] != [int(v) for v in col]:
                    fail(f"{tag}/{name}/{lab}: int values differ")
            elif kind == "float":
                if not pd.api.types.is_float_dtype(col.dtype):
                    fail(f"{tag}/{name}/{lab}: float column read as {col.dtype}")
                else:
                    want = np.array([float(t) for t in toks])
                    got = col.to_numpy(dtype=float)
                    if not np.allclose(got, want, rtol=1e-13, atol=0):
                        fail(f"{tag}/{name}/{lab}: float values differ {got[:3]} {want[:3]}")
            else:
                if pd.api.types.is_numeric_dtype(col.dtype):
                    fail(f"{tag}/{name}/{lab}: text column read as {col.dtype}")
                elif [str(v) for v in col] != toks or not all(isinstance(v, str) for v in col):
                    fail(f"{tag}/{name}/{lab}: text values differ")


# ----------------------------------------------------------------------------------------------------------------
# random tables inside the quantifier
# ----------------------------------------------------------------------------------------------------------------
TEXT_POOL = ["rlnA", "TS_01/subtomo.mrc", "000123@Extract/job007/stack.mrcs", "opticsGroup1", "x", "q-7", "a.b:c",
             "/abs/path/file_1.0.mrc", "None", "true", "e5x", "B+", "1;2", "[3]", "p=0.5", "C1", "file(2).em"]


def rand_text_column(rng, n):
    vals = [rng.choice(TEXT_POOL) + (str(rng.integers(0, 1000)) if rng.random() < 0.5 else "") for _ in range(n)]
    # purely numeric tokens may occur, but never in every row of the column
    for k in range(n):
        if rng.random() < 0.15:
            vals[k] = str(int(rng.integers(-50, 5000)))
    if n:
        vals[int(rng.integers(0, n))] = rng.choice(TEXT_POOL)
    return vals


def rand_float_column(rng, n):
    mode = rng.integers(0, 7)
    if mode == 0:
        return rng.uniform(-180, 180, n)
    if mode == 1:
        return rng.normal(0, 1e-4, n)  # tiny values, many round to +-0.0 or to 1e-06 style reprs
    if mode == 2:
        return rng.normal(0, 1e7, n)
    if mode == 3:
        return np.round(rng.uniform(-5, 5, n))  # integral floats, written as 1.0
    if mode == 4:
        return rng.choice([0.0, -0.0, 0.5e-6, 1.5e-6, 2.5e-6, -0.5e-6, 1e-7, 1e16, -1e22, 0.1234565, 2.675], n)
    if mode == 5:
        return (rng.integers(-10**6, 10**6, n) * 1e-6 + 0.5e-6)  # ties of the rounding
    return rng.uniform(0, 1, n).astype(np.float32).astype(np.float64)


def rand_int_column(rng, n):
    mode = rng.integers(0, 4)
    if mode == 0:
        return rng.integers(1, 10, n)
    if mode == 1:
        return rng.integers(-10**9, 10**9, n)
    if mode == 2:
        return np.arange(1, n + 1)
    return rng.integers(-(2**62), 2**62, n)


LABELS = ["rlnCoordinateX", "rlnCoordinateY", "rlnCoordinateZ", "rlnAngleRot", "rlnAngleTilt", "rlnAnglePsi",
          "rlnMicrographName", "rlnImageName", "rlnOpticsGroup", "rlnClassNumber", "motl_idx", "tomo_num", "object",
          "subtomo_num", "halfset", "orig_x", "x_shift", "phi", "psi", "the", "score", "class", "rlnTomoName",
          "rlnOriginXAngst", "rlnLogLikeliContribution", "a", "B", "col_1", "wedge-min", "x.y", "rlnCtfMaxResolution"]
BLOCKS = ["data_", "data_particles", "data_optics", "data_stopgap_motivelist", "data_stopgap_wedgelist",
          "data_stopgap_x"]


def rand_table(rng, nrows):
    ncols = int(rng.integers(1, 31))
    labels = list(rng.permutation(LABELS)[:ncols])
    data = {}
    kinds = {}
    for lab in labels:
        k = rng.choice(["int", "float", "text"])
        kinds[lab] = k
        if k == "int":
            data[lab] = rand_int_column(rng, nrows).astype(np.int64)
        elif k == "float":
            data[lab] = np.asarray(rand_float_column(rng, nrows), dtype=float)
        else:
            data[lab] = rand_text_column(rng, nrows)
    df = pd.DataFrame(data, columns=labels)
    if nrows == 0:
        for lab in labels:
            df[lab] = df[lab].astype({"int": np.int64, "float": float, "text": object}[kinds[lab]])
    # non-default row indices must not matter for the file
    r = rng.random()
    if nrows and r < 0.3:
        df.index = rng.permutation(nrows) + 100
    elif nrows and r < 0.4:
        df.index = [f"r{k}" for k in range(nrows)]
    return df, kinds


def rand_tables(rng):
    nb = int(rng.integers(1, 5))
    tables, kinds, names = [], [], []
    for b in range(nb):
        last = b == nb - 1
        nrows = int(rng.choice([1, 2, 3, 7, 200, int(rng.integers(1, 201))]))
        if last and rng.random() < 0.2:
            nrows = 0
        t, k = rand_table(rng, nrows)
        if not last and t.shape[1] == 1:
            pass  # fine: the writer ends every block with a blank line
        tables.append(t)
        kinds.append(k)
        names.append(str(rng.choice(BLOCKS)))
    return tables, kinds, names


def check_roundtrip(write, read, tables, kinds, names, number_columns, tag):
    """the property: write -> text checked by the independent reader -> read back"""
    p = os.path.join(TMP, "rt.star")
    if os.path.exists(p):
        os.remove(p)
    originals = [t.copy(deep=True) for t in tables]
    arg = list(tables)
    if number_columns is None:
        write(arg, p, specifiers=list(names))
    else:
        write(arg, p, specifiers=list(names), number_columns=number_columns)
    with open(p, "r") as fh:
        text = fh.read()
    numbered_default = True if number_columns is None else number_columns
    # 1. the written text seen by the independent reader
    ref = ref_parse(text)
    if [b[0] for b in ref] != names:
        fail(f"{tag}: written block names {[b[0] for b in ref]} != {names}")
        return None
    lines = ref_lines(text)
    for (name, labels, rows), orig, kind in zip(ref, originals, kinds):
        if labels != list(orig.columns):
            fail(f"{tag}/{name}: written labels")
            return None
        if len(rows) != len(orig):
            fail(f"{tag}/{name}: written rows {len(rows)} != {len(orig)}")
            return None
        for j, lab in enumerate(labels):
            toks = [r[j] for r in rows]
            if kind[lab] == "int":
                if toks != [str(int(v)) for v in orig[lab].to_numpy()]:
                    fail(f"{tag}/{name}/{lab}: written ints")
            elif kind[lab] == "float":
                want = np.round(orig[lab].to_numpy(dtype=float), 6)
                got = np.array([float(t) for t in toks]) if toks else np.zeros(0)
                if not np.array_equal(got, want):
                    fail(f"{tag}/{name}/{lab}: written floats")
                if not all(FLT_RE.match(t) and not INT_RE.match(t) for t in toks):
                    fail(f"{tag}/{name}/{lab}: float token shape")
            else:
                if toks != [str(v) for v in orig[lab]]:
                    fail(f"{tag}/{name}/{lab}: written text")
    # header style: '#n' numbering exactly for numbered, non-stopgap blocks
    raw = text.split("\n")
    k = 0
    for name, orig in zip(names, originals):
        while raw[k].strip() != name:
            k += 1
        while raw[k].strip() != "loop_":
            k += 1
        for c, lab in enumerate(orig.columns, 1):
            k += 1
            want = f"_{lab} #{c}" if (numbered_default and "stopgap" not in name) else f"_{lab}"
            if raw[k] != want:
                fail(f"{tag}/{name}: header line {raw[k]!r} != {want!r}")
    # 2. read back
    frames, specs, comments = read(p)
    if list(specs) != names:
        fail(f"{tag}: read block names {specs}")
        return None
    check_frames_against_ref(frames, specs, text, tag + "/ref")
    for f, orig, kind, name in zip(frames, originals, kinds, names):
        if list(f.columns) != list(orig.columns) or len(f) != len(orig):
            fail(f"{tag}/{name}: read back shape/labels")
            continue
        if len(orig) == 0:
            continue
        for lab in orig.columns:
            col = f[lab]
            if kind[lab] == "int":
                if not pd.api.types.is_integer_dtype(col.dtype) or not np.array_equal(
                    col.to_numpy(), orig[lab].to_numpy()
                ):
                    fail(f"{tag}/{name}/{lab}: int read back")
            elif kind[lab] == "float":
                want = np.round(orig[lab].to_numpy(dtype=float), 6)
                if not pd.api.types.is_float_dtype(col.dtype) or not np.allclose(
                    col.to_numpy(dtype=float), want, rtol=1e-13, atol=0
                ):
                    fail(f"{tag}/{name}/{lab}: float read back")
            else:
                if pd.api.types.is_numeric_dtype(col.dtype) or [str(v) for v in col] != [str(v) for v in orig[lab]]:
                    fail(f"{tag}/{name}/{lab}: text read back")
    # the caller's tables themselves are untouched (the list holds rounded copies afterwards)
    for t, o in zip(tables, originals):
        if not t.equals(o) or list(t.index) != list(o.index):
            fail(f"{tag}: caller's table changed")
    return text, frames, specs, comments, arg


# ----------------------------------------------------------------------------------------------------------------
# hand-built texts inside the quantifier
# ----------------------------------------------------------------------------------------------------------------
def rand_layout_text(rng):
    """-> text (LF), built from random blocks with comments / blank lines in the permitted places"""
    nb = int(rng.integers(1, 5))
    out = []

    def noise(maxn=3, need_blank=False):
        ls = []
        for _ in range(int(rng.integers(0, maxn + 1))):
            r = rng.random()
            if r < 0.4:
                ls.append("")
            elif r < 0.55:
                ls.append(str(rng.choice(["   ", "\t", " \t  "])))
            elif r < 0.8:
                ls.append("# " + str(rng.choice(["version 30001", "created by x # y", "", "_rlnNot a label", "loop_"])))
            else:
                ls.append("   #indented comment")
        if need_blank and not any(l.strip() == "" for l in ls):
            ls.insert(0, "")
        return ls

    def sep():
        return str(rng.choice([" ", "\t", "   ", " \t ", "\t\t", "      "]))

    for b in range(nb):
        last = b == nb - 1
        out += noise()
        name = str(rng.choice(BLOCKS))
        out.append(str(rng.choice(["", " ", "\t"])) + name + str(rng.choice(["", "  ", "\t"])))
        out += noise()
        out.append(str(rng.choice(["", "  "])) + "loop_" + str(rng.choice(["", " ", " \t"])))
        ncols = int(rng.integers(1, 9))
        labels = list(rng.permutation(LABELS)[:ncols])
        style = rng.integers(0, 3)
        for c, lab in enumerate(labels, 1):
            if style == 0:
                out.append(f"_{lab} #{c}")
            elif style == 1:
                out.append(f"_{lab}")
            else:
                out.append(str(rng.choice(["", " "])) + f"_{lab}" + sep() + f"#{c}" + str(rng.choice(["", " ", " extra"])))
        out += noise()
        nrows = int(rng.integers(1, 12))
        if last and rng.random() < 0.2:
            nrows = 0
        cols = []
        for lab in labels:
            k = rng.choice(["int", "float", "text"])
            if k == "int":
                cols.append([str(int(v)) for v in rng.integers(-1000, 1000, nrows)])
            elif k == "float":
                fm = str(rng.choice(["{:.6f}", "{:.3e}", "{:+.2f}", "{!r}"]))
                cols.append([fm.format(float(v)) for v in rng.normal(0, 100, nrows)])
            else:
                cols.append(rand_text_column(rng, nrows))
        for r in range(nrows):
            lead = str(rng.choice(["", "", " ", "\t", "    "]))
            trail = str(rng.choice(["", "", " ", "\t", "   \t"]))
            out.append(lead + "".join(cols[c][r] + (sep() if c < ncols - 1 else "") for c in range(ncols)) + trail)
        if not last:
            # a block is closed by a blank or a comment line before the next block begins
            out += str(rng.choice(["", "  ", "# end", "\t"])),
            out += noise()
        else:
            out += noise()
    return "\n".join(out)


FIXED_TEXTS = [
    "data_\nloop_\n_a\n1",
    "data_\nloop_\n_a\n1\n",
    "data_\n\nloop_\n_a #1\n_b #2\n1 x\n2 y\n\n",
    "# c\n\ndata_optics\n\nloop_\n_rlnOpticsGroup #1\n_rlnOpticsGroupName #2\n1\topticsGroup1\n\n\n# v\n\ndata_particles\n\n"
    "loop_\n_rlnCoordinateX #1 \n_rlnImageName #2\n  1.5   a@b  \n\t-2e-3\tc@d\t\n",
    "data_stopgap_motivelist\n\nloop_\n_motl_idx\n_score\n\n1 0.5\n2 0.25\n",
    "data_x\nloop_\n_a #1\n_b #2\n",
    "\n\n\ndata_x\n#c\n#d\n\nloop_\n_a #1\n#after labels\n\n7\n8\n9",
    "data_a\nloop_\n_l1\n_l2\n1 2\n3 4\n#sep\ndata_b\nloop_\n_l3\n5\n\ndata_c\nloop_\n_l4 # 1\n_l5 #   2\n",
]


def write_text_variants(text, rng):
    """the same text with LF / CRLF line ends, with and without final newline -> list of (file path, text as read)"""
    out = []
    for crlf in (False, True):
        for final in (False, True):
            t = text.rstrip("\n") if not final else (text if text.endswith("\n") else text + "\n")
            if not t:
                continue
            if t.split("\n")[-1].lstrip().startswith("_"):
                # a text that stops right behind the last label of an empty table, without a line end, is not a
                # layout the reader accepts (it asks for a further token); keep one line end there
                t = t + "\n"
            b = t.replace("\n", "\r\n") if crlf else t
            p = os.path.join(TMP, f"hb_{int(crlf)}{int(final)}.star")
            with open(p, "w", newline="") as fh:
                fh.write(b)
            out.append((p, t))
    return out


def run_property(write, read, seed, n_tables=60, n_texts=150, tag=""):
    rng = np.random.default_rng(seed)
    for it in range(n_tables):
        tables, kinds, names = rand_tables(rng)
        nc = [None, True, False][it % 3]
        res = check_roundtrip(write, read, tables, kinds, names, nc, f"{tag}rt{it}")
        if res is not None and it % 5 == 0:
            # repeated calls on the same objects: same file again, and reading twice gives equal frames
            text, frames, specs, comments, arg = res
            res2 = check_roundtrip(write, read, tables, kinds, names, nc, f"{tag}rt{it}/again")
            if res2 is not None:
                if res2[0] != text:
                    fail(f"{tag}rt{it}: second write differs")
                for f1, f2 in zip(frames, res2[1]):
                    if not f1.equals(f2):
                        fail(f"{tag}rt{it}: second read differs")
            # writing what was read gives the same text (fixed point)
            p2 = os.path.join(TMP, "rt2.star")
            kw = {} if nc is None else {"number_columns": nc}
            write(list(frames), p2, specifiers=list(specs), **kw)
            if open(p2).read() != text:
                fail(f"{tag}rt{it}: write(read(f)) != f")
    # single-block special cases: one row, one column, empty single table
    for nrows, ncols in [(1, 1), (1, 30), (200, 1), (0, 3), (0, 1)]:
        df = pd.DataFrame({LABELS[c]: (np.arange(nrows) * 1.5 if c % 2 else np.arange(nrows)) for c in range(ncols)})
        kinds = {LABELS[c]: ("float" if c % 2 else "int") for c in range(ncols)}
        for name in ["data_", "data_stopgap_motivelist"]:
            for nc in (None, False):
                check_roundtrip(write, read, [df], [kinds], [name], nc, f"{tag}special{nrows}x{ncols}")
    texts = list(FIXED_TEXTS) + [rand_layout_text(rng) for _ in range(n_texts)]
    for k, t in enumerate(texts):
        for p, asread in write_text_variants(t, rng):
            try:
                frames, specs, comments = read(p)
            except Exception as e:  # noqa
                fail(f"{tag}text{k} {os.path.basename(p)}: reader raised {type(e).__name__}: {e}\n{t!r}")
                continue
            check_frames_against_ref(frames, specs, asread, f"{tag}text{k}:{os.path.basename(p)}")
            if len(comments) != len(frames):
                fail(f"{tag}text{k}: comments list length")


def frames_identical(a, b):
    if len(a) != len(b):
        return False
    for x, y in zip(a, b):
        if list(x.columns) != list(y.columns) or list(x.dtypes.astype(str)) != list(y.dtypes.astype(str)):
            return False
        if not x.equals(y) or not x.index.equals(y.index):
            return False
    return True


def finish():
    shutil.rmtree(TMP, ignore_errors=True)
    if FAILS:
        print(f"FAIL ({len(FAILS)} findings)")
        sys.exit(1)
    print("PASS")
    sys.exit(0)


# ----------------------------------------------------------------------------------------------------------------
# change c: Starfile.read -- also takes an opened file / file-like object, and a block name as data_id
# ----------------------------------------------------------------------------------------------------------------
def orig_read(file_path, data_id=None):
    """copy of Starfile.read as of HEAD"""
    with open(file_path, mode="r") as file:
        raw_starfile = file.read()

    tokens = Token.tokenize(raw_starfile)
    frames = []
    comments = []
    specifiers = []
    while Token.lookahead(tokens, TokenType.LITERAL, [TokenType.NEWLINE, TokenType.COMMENT]):
        specifier_comments, specifier = Token.parse_specifier(tokens)
        column_comments, columns = Token.parse_columns(tokens)
        rows_comments, data = Token.parse_rows(tokens, columns)
        comments.append(specifier_comments + column_comments + rows_comments)
        specifiers.append(specifier)
        frames.append(data)
    Token.parse_newline_or_comments(tokens)
    if len(tokens) > 0:
        raise IOError(f"Expected a specifier or an end of token but got {tokens[0].token_type}")

    def to_numeric_if_possible(column):
        try:
            return pd.to_numeric(column)
        except (ValueError, TypeError):
            return column

    for i, f in enumerate(frames):
        frames[i] = f.apply(to_numeric_if_possible)

    if data_id is not None:
        return frames[data_id], specifiers[data_id], comments[data_id]
    else:
        return frames, specifiers, comments


def compare_readers(seed):
    import io, pathlib

    rng = np.random.default_rng(seed)
    paths = []
    for it in range(40):
        tables, kinds, names = rand_tables(rng)
        p = os.path.join(TMP, f"rd{it}.star")
        Starfile.write(list(tables), p, specifiers=names, number_columns=bool(it % 2))
        paths.append(p)
    texts = list(FIXED_TEXTS) + [rand_layout_text(rng) for _ in range(80)]
    for k, t in enumerate(texts):
        for j, (p, _) in enumerate(write_text_variants(t, rng)):
            q = os.path.join(TMP, f"rdt{k}_{j}.star")
            shutil.copy(p, q)
            paths.append(q)
    try:
        Starfile.read(io.StringIO(FIXED_TEXTS[0]))
        new_inputs = True
    except TypeError:
        new_inputs = False  # the unmodified reader takes paths only
    for p in paths:
        fa, sa, ca = Starfile.read(p)
        fb, sb, cb = orig_read(p)
        if sa != sb or ca != cb or not frames_identical(fa, fb):
            fail(f"read differs from the original reader on {p}")
            continue
        if type(fa) is not list or type(sa) is not list or type(ca) is not list:
            fail("result types")
        # other ways of naming the same file
        for alt in (pathlib.Path(p), os.path.relpath(p)):
            f2, s2, c2 = Starfile.read(alt)
            if s2 != sb or c2 != cb or not frames_identical(f2, fb):
                fail(f"read({type(alt).__name__}) differs on {p}")
        # one block by position, incl. negative positions and numpy integers
        for d in sorted({0, len(sb) - 1, -1, int(rng.integers(0, len(sb)))}) + [np.int64(0)]:
            a = Starfile.read(p, data_id=d)
            b = orig_read(p, data_id=d)
            if type(a) is not tuple or len(a) != 3 or a[1] != b[1] or a[2] != b[2] or not frames_identical([a[0]], [b[0]]):
                fail(f"read(data_id={d}) differs on {p}")
        for bad in (len(sb), -len(sb) - 1):
            try:
                Starfile.read(p, data_id=bad)
                fail("data_id out of range accepted")
            except IndexError:
                pass
        # Starfile(path) holds what read returns
        sf = Starfile(p)
        if sf.specifiers != sb or sf.comments != cb or not frames_identical(sf.frames, fb):
            fail(f"Starfile(path) differs on {p}")
        if new_inputs:
            # the extension itself: same result from an opened file, a StringIO, a BytesIO, and by block name
            with open(p, "r") as fh:
                f3, s3, c3 = Starfile.read(fh)
                if fh.closed:
                    fail("the caller's file was closed")
            if s3 != sb or c3 != cb or not frames_identical(f3, fb):
                fail(f"read(opened file) differs on {p}")
            raw = open(p, "rb").read()
            for src in (io.StringIO(raw.decode()), io.BytesIO(raw)):
                f4, s4, c4 = Starfile.read(src)
                if s4 != sb or c4 != cb or not frames_identical(f4, fb):
                    fail(f"read({type(src).__name__}) differs on {p}")
            for name in set(sb):
                a = Starfile.read(p, data_id=name)
                b = orig_read(p, data_id=sb.index(name))
                if a[1] != name or a[2] != b[2] or not frames_identical([a[0]], [b[0]]):
                    fail(f"read(data_id={name!r}) differs on {p}")
            try:
                Starfile.read(p, data_id="data_not_there")
                fail("unknown block name accepted")
            except ValueError:
                pass
    # a missing file is refused as before
    try:
        Starfile.read(os.path.join(TMP, "nope.star"))
        fail("missing file accepted")
    except FileNotFoundError:
        pass
    # the other entry points resting on read
    p = paths[0]
    fb, sb, cb = orig_read(p)
    fr, cm = Starfile.get_frame_and_comments(p, sb[-1])
    k = sb.index(sb[-1])
    if cm != cb[k] or not frames_identical([fr], [fb[k]]):
        fail("get_frame_and_comments")
    return new_inputs


ext = compare_readers(3)
run_property(Starfile.write, Starfile.read, 13)
print("extension present:", ext)
finish()
