"""C13 demo -- masks: analytic shapes and voxel-wise set algebra.

Run as:  cd /tmp/wt6/C13 && /venv/bin/python /tmp/seedsQ/C13/c/demo.py

Checks (a) the property against an independent computation (analytic inequalities on index grids, boolean
set algebra) and (b) the functions of the imported cryocat.cryomask against a frozen copy of the original
function text (ORIG_SRC below) on the same inputs: same result (values, dtype, shape) or same exception type,
inputs never modified, also on second / third calls on the same objects after they were edited in place and
with the calls issued in different orders.
Prints PASS and exits 0 when everything holds.
"""
import sys, os

sys.path.insert(0, os.getcwd())
import copy
import itertools
import math
import re
import warnings

warnings.filterwarnings("ignore")
import numpy as np
from skimage import filters
from cryocat import cryomap
from cryocat import cryomask as cm

ORIG_SRC = r'''
def parse_shape_string(shape_string):
    patterns = {'sphere': '^sphere_r(\\d+)$', 'cylinder': '^cylinder_r(\\d+)_h(\\d+)$', 's_shell': '^s_shell_r(\\d+)_s(\\d+)$', 'ellipsoid': '^ellipsoid_rx(\\d+)_ry(\\d+)_rz(\\d+)$', 'e_shell': '^e_shell_rx(\\d+)_ry(\\d+)_rz(\\d+)_s(\\d+)$'}
    for shape_type, pattern in patterns.items():
        match = re.match(pattern, shape_string)
        if match:
            numbers = [int(num) for num in match.groups()]
            return (shape_type, numbers)
    raise ValueError(f"String '{shape_string}' does not match any known shape pattern.")


def generate_mask(mask_shape, mask_size=None, mask_expansion=4):
    shape, specs = parse_shape_string(mask_shape)
    if mask_size is None:
        mask_size = 2 * np.max(specs) + mask_expansion
        mask_size = math.ceil(mask_size / 2) * 2
    if shape == 'sphere':
        mask = spherical_mask(mask_size=mask_size, radius=specs[0])
    elif shape == 'cylinder':
        mask = cylindrical_mask(mask_size=mask_size, radius=specs[0], height=specs[1])
    elif shape == 's_shell':
        mask_size = math.ceil((mask_size + specs[1]) / 2) * 2
        mask = spherical_shell_mask(mask_size=mask_size, shell_thickness=specs[1], radius=specs[0])
    elif shape == 'ellipsoid':
        mask = ellipsoid_mask(mask_size=mask_size, radii=specs)
    elif shape == 'e_shell':
        mask = ellipsoid_shell_mask(mask_size=mask_size, shell_thickness=specs[3], radii=specs[0:3])
    return mask


def add_gaussian(input_mask, sigma):
    if sigma == 0:
        return input_mask
    else:
        return filters.gaussian(input_mask, sigma=sigma)


def write_out(input_mask, output_name):
    if output_name is not None:
        cryomap.write(input_mask, output_name, data_type=np.single)


def rotate(input_mask, angles):
    if angles is None or not np.any(angles):
        return input_mask
    else:
        return cryomap.rotate(input_mask, rotation_angles=angles)


def postprocess(input_mask, gaussian, angles, output_name):
    mask = add_gaussian(input_mask, gaussian)
    mask = rotate(mask, angles)
    write_out(mask, output_name)
    return mask


def union(mask_list, output_name=None):
    final_mask = np.zeros(cryomap.read(mask_list[0]).shape)
    for m in mask_list:
        mask = cryomap.read(m)
        final_mask += mask
    final_mask = np.clip(final_mask, 0.0, 1.0)
    write_out(final_mask, output_name)
    return final_mask


def intersection(mask_list, output_name=None):
    final_mask = np.ones(cryomap.read(mask_list[0]).shape)
    for m in mask_list:
        mask = cryomap.read(m)
        final_mask *= mask
    final_mask = np.clip(final_mask, 0.0, 1.0)
    write_out(final_mask, output_name)
    return final_mask


def subtraction(mask_list, output_name=None):
    final_mask = cryomap.read(mask_list[0]).astype(float)
    for m in mask_list[1:]:
        mask = cryomap.read(m)
        final_mask -= mask
    final_mask = np.clip(final_mask, 0.0, 1.0)
    write_out(final_mask, output_name)
    return final_mask


def difference(mask_list, output_name=None):
    union_mask = union(mask_list)
    inter_mask = intersection(mask_list)
    final_mask = union_mask - inter_mask
    final_mask = np.clip(final_mask, 0.0, 1.0)
    write_out(final_mask, output_name)
    return final_mask


def spherical_shell_mask(mask_size, shell_thickness, radius=None, center=None, gaussian=0.0, output_name=None):
    mask_size = get_correct_format(mask_size)
    center = get_correct_format(center, reference_size=mask_size)
    if radius is None:
        radius = np.amin(mask_size) // 2
    shell_thickness = shell_thickness / 2
    sp1 = spherical_mask(mask_size, radius=radius + shell_thickness, center=center)
    sp2 = spherical_mask(mask_size, radius=radius - shell_thickness, center=center)
    shell_mask = sp1 - sp2
    shell_mask = postprocess(shell_mask, gaussian, np.asarray([0, 0, 0]), output_name)
    return shell_mask


def spherical_mask(mask_size, radius=None, center=None, gaussian=0.0, gaussian_outwards=True, output_name=None):
    mask_size = get_correct_format(mask_size)
    center = get_correct_format(center, reference_size=mask_size)
    if radius is None:
        radius = np.amin(mask_size) // 2
    radius = preprocess_params(radius, gaussian, gaussian_outwards)
    x, y, z = np.mgrid[0:mask_size[0]:1, 0:mask_size[1]:1, 0:mask_size[2]:1]
    mask = np.sqrt((x - center[0]) ** 2 + (y - center[1]) ** 2 + (z - center[2]) ** 2)
    mask[mask > radius] = 0
    mask[mask > 0] = 1
    if radius >= 0:
        mask[center[0], center[1], center[2]] = 1
    mask = postprocess(mask, gaussian, np.asarray([0, 0, 0]), output_name)
    return mask


def cylindrical_mask(mask_size, radius=None, height=None, center=None, gaussian=0, gaussian_outwards=True, angles=None, output_name=None):
    mask_size = get_correct_format(mask_size)
    center = get_correct_format(center, reference_size=mask_size)
    if radius is None:
        radius = np.amin(mask_size[:2]) // 2
    if height is None:
        height = mask_size[2]
    height = height // 2
    radius = preprocess_params(radius, gaussian, gaussian_outwards)
    height = preprocess_params(height, gaussian, gaussian_outwards)
    x, y = np.mgrid[0:mask_size[0]:1, 0:mask_size[1]:1]
    mask_xy = np.sqrt((x - center[0]) ** 2 + (y - center[1]) ** 2)
    mask_xy[mask_xy > radius] = 0
    mask_xy[mask_xy > 0] = 1
    mask_xy[center[0], center[1]] = 1
    mask = np.zeros(mask_size)
    mask[:, :, center[2] - height:center[2] + height + 1] = np.tile(mask_xy[:, :, None], (1, 1, height * 2 + 1))
    mask = postprocess(mask, gaussian, angles, output_name)
    return mask


def get_correct_format(input_value, reference_size=None):

    def format_input(unformatted_value):
        if isinstance(unformatted_value, (tuple, list, np.ndarray)):
            if len(unformatted_value) == 3:
                return np.asarray(unformatted_value).astype(int)
            elif len(unformatted_value) == 1:
                return np.full((3,), unformatted_value).astype(int)
            else:
                raise ValueError('The size have to be a single number or have to have length of 3!')
        elif isinstance(unformatted_value, (float, int)):
            return np.full((3,), unformatted_value).astype(int)
    if input_value is not None:
        size_correct_format = format_input(input_value)
    elif reference_size is not None:
        box_size = format_input(reference_size)
        size_correct_format = box_size // 2
    else:
        raise ValueError('Either input_size or referene_size have to be specified')
    return size_correct_format


def ellipsoid_shell_mask(mask_size, shell_thickness, radii, center=None, gaussian=0.0, angles=None, output_name=None):
    mask_size = get_correct_format(mask_size)
    center = get_correct_format(center, reference_size=mask_size)
    radii = get_correct_format(radii, reference_size=mask_size)
    shell_thickness = shell_thickness / 2
    e1 = ellipsoid_mask(mask_size, radii=radii + shell_thickness, center=center)
    e2 = ellipsoid_mask(mask_size, radii=radii - shell_thickness, center=center)
    shell_mask = e1 & ~e2
    shell_mask = postprocess(shell_mask, gaussian, angles, output_name)
    return shell_mask


def ellipsoid_mask(mask_size, radii=None, center=None, gaussian=0, output_name=None, angles=None, gaussian_outwards=True):
    mask_shape = get_correct_format(mask_size)
    center = get_correct_format(center, reference_size=mask_shape)
    radii = get_correct_format(radii, reference_size=mask_shape)
    radii = preprocess_params(radii, gaussian, gaussian_outwards)
    xi = tuple((np.linspace(1, s, s) - np.floor(0.5 * s) for s in mask_shape))
    xi = np.meshgrid(*xi, indexing='ij')
    points = np.array(xi).reshape(3, -1)[::-1]
    grid_center = 0.5 * mask_shape - center
    grid_center = np.tile(grid_center.reshape(3, 1), (1, points.shape[1]))
    points = points[:, ::-1]
    grid_center = grid_center[::-1]
    radii = radii[::-1]
    radii = np.tile(radii.reshape(3, 1), (1, points.shape[1]))
    ellipsoid = (points - grid_center) ** 2
    ellipsoid = ellipsoid / radii ** 2
    distance = np.sum(ellipsoid, axis=0).reshape(mask_shape)
    mask = distance <= 1
    mask = postprocess(mask, gaussian, angles, output_name)
    return mask


def preprocess_params(radius, gaussian, gaussian_outwards):
    blur_factor = 5.0
    if gaussian != 0.0 and gaussian_outwards:
        new_radius = np.ceil(radius + gaussian * blur_factor).astype(int)
    else:
        new_radius = radius
    return new_radius
'''

ORIG = {"np": np, "re": re, "math": math, "cryomap": cryomap, "filters": filters}
exec(compile(ORIG_SRC, "<original cryomask functions>", "exec"), ORIG)

FAILS = []
COUNT = {"compared": 0, "analytic": 0, "raised": 0}


def fail(msg):
    FAILS.append(msg)
    if len(FAILS) <= 25:
        print("FAIL:", msg)


def snapshot(obj):
    return copy.deepcopy(obj)


def equal_objs(a, b):
    if isinstance(a, np.ndarray) or isinstance(b, np.ndarray):
        if not (isinstance(a, np.ndarray) and isinstance(b, np.ndarray)):
            return False
        if a.dtype != b.dtype or a.shape != b.shape:
            return False
        if a.dtype.kind in "fc":
            return bool(np.array_equal(a, b, equal_nan=True))
        return bool(np.array_equal(a, b))
    if isinstance(a, (list, tuple)) and isinstance(b, (list, tuple)):
        return type(a) is type(b) and len(a) == len(b) and all(equal_objs(x, y) for x, y in zip(a, b))
    if isinstance(a, dict) and isinstance(b, dict):
        return a.keys() == b.keys() and all(equal_objs(a[k], b[k]) for k in a)
    return type(a) is type(b) and a == b


def run(f, args, kwargs):
    try:
        return ("ok", f(*args, **kwargs))
    except Exception as e:  # noqa
        return ("exc", type(e).__name__)


def both(name, *args, **kwargs):
    """Calls the package function and the frozen original on equal (deep-copied) inputs, compares the outcome,
    checks that neither touched its inputs.  Returns the package result (None if it raised)."""
    a_new, k_new = snapshot(args), snapshot(kwargs)
    a_old, k_old = snapshot(args), snapshot(kwargs)
    r_new = run(getattr(cm, name), a_new, k_new)
    r_old = run(ORIG[name], a_old, k_old)
    COUNT["compared"] += 1
    desc = f"{name}{args!r}{kwargs!r}"[:300]
    if r_new[0] != r_old[0]:
        fail(f"outcome differs from original ({r_new[0]} vs {r_old[0]}: {r_new[1] if r_new[0]=='exc' else ''}"
             f"{r_old[1] if r_old[0]=='exc' else ''}) for {desc}")
        return None
    if r_new[0] == "exc":
        COUNT["raised"] += 1
        if r_new[1] != r_old[1]:
            fail(f"exception type differs ({r_new[1]} vs {r_old[1]}) for {desc}")
        return None
    if not equal_objs(r_new[1], r_old[1]):
        fail(f"result differs from original for {desc}")
    if not equal_objs(a_new, snapshot(args)) or not equal_objs(k_new, snapshot(kwargs)):
        fail(f"inputs were modified by {desc}")
    # the returned array must be a fresh object: writing into it must not affect a later call
    return r_new[1]


def grid(shape):
    return np.meshgrid(*[np.arange(int(s)) for s in shape], indexing="ij")


def as3(v):
    if isinstance(v, (int, float, np.integer)):
        return np.array([int(v)] * 3)
    v = np.asarray(v).astype(int)
    return v if v.size == 3 else np.array([int(v[0])] * 3)


# ----------------------------------------------------------------------------------------------------------
# independent (analytic) models
# ----------------------------------------------------------------------------------------------------------
def model_sphere(shape, radius, center):
    shape = as3(shape)
    c = as3(center) if center is not None else shape // 2
    if radius is None:
        radius = int(shape.min()) // 2
    i, j, k = grid(shape)
    d2 = (i - c[0]) ** 2 + (j - c[1]) ** 2 + (k - c[2]) ** 2
    if radius < 0:
        return np.zeros(tuple(shape), dtype=bool)
    # exact: d2 is an integer, the radius a multiple of 0.5
    return d2 * 4 <= int(round(radius * 2)) ** 2


def model_cylinder(shape, radius, height, center):
    shape = as3(shape)
    c = as3(center) if center is not None else shape // 2
    if radius is None:
        radius = int(shape[:2].min()) // 2
    if height is None:
        height = int(shape[2])
    half = int(height) // 2
    i, j, k = grid(shape)
    return ((i - c[0]) ** 2 + (j - c[1]) ** 2 <= radius * radius) & (np.abs(k - c[2]) <= half)


def model_ellipsoid_exact(shape, radii2, center):
    """radii2 = 2*radii as integers (so that half-integer radii are exact).  Returns (inside, boundary) where
    'inside' is sum((i-c)/r)^2 < 1 strictly and 'boundary' is equality, both in exact integer arithmetic."""
    shape = as3(shape)
    c = as3(center) if center is not None else shape // 2
    rx, ry, rz = [int(v) for v in radii2]
    if 0 in (rx, ry, rz):  # x/0 is inf or nan, neither is <= 1: a solid with a zero radius is empty
        return np.zeros(tuple(shape), dtype=bool), np.zeros(tuple(shape), dtype=bool)
    i, j, k = [g.astype(object) for g in grid(shape)]
    lhs = 4 * ((i - int(c[0])) ** 2 * (ry * rz) ** 2 + (j - int(c[1])) ** 2 * (rx * rz) ** 2 + (k - int(c[2])) ** 2 * (rx * ry) ** 2)
    rhs = (rx * ry * rz) ** 2
    inside = np.array(lhs < rhs, dtype=bool)
    boundary = np.array(lhs == rhs, dtype=bool)
    return inside, boundary


def check_binary_equals(result, model, what):
    COUNT["analytic"] += 1
    if result is None:
        return
    if result.shape != model.shape:
        fail(f"shape {result.shape} != {model.shape} for {what}")
        return
    vals = np.unique(np.asarray(result, dtype=float))
    if not set(vals.tolist()) <= {0.0, 1.0}:
        fail(f"hard mask with values other than 0/1 for {what}")
    if not np.array_equal(np.asarray(result, dtype=float) == 1.0, model):
        fail(f"membership differs from the analytic inequality ({int((np.asarray(result,dtype=float)==1.0).sum())} vs {int(model.sum())} voxels) for {what}")


def check_soft(result, core, what, outwards):
    COUNT["analytic"] += 1
    if result is None:
        return
    r = np.asarray(result, dtype=float)
    if r.min() < -1e-9 or r.max() > 1 + 1e-9:
        fail(f"soft mask leaves [0,1] ({r.min()}, {r.max()}) for {what}")
    if outwards and core is not None and core.any():
        if np.abs(r[core] - 1.0).max() > 1e-3:
            fail(f"core not kept at 1 (min {r[core].min()}) for {what}")


# ----------------------------------------------------------------------------------------------------------
# samplers
# ----------------------------------------------------------------------------------------------------------
rng = np.random.default_rng(1313)


def rand_shape(even=False, lo=6, hi=48):
    s = rng.integers(lo, hi + 1, size=3)
    if even:
        s = (s // 2) * 2
        s[s < 6] = 6
    return s


def vary_container(v):
    """Same numbers in one of the accepted container types."""
    v = [int(x) for x in v]
    t = rng.integers(0, 3)
    return v if t == 0 else (tuple(v) if t == 1 else np.array(v))


def rand_center(shape, interior_bias=0.5):
    if rng.random() < interior_bias:
        return np.array([rng.integers(s // 3, s - s // 3) for s in shape])
    return np.array([rng.integers(0, s) for s in shape])


SIGMAS = [0, 0.0, 0.4, 1, 1.0, 1.7, 2, 3.0]


# ----------------------------------------------------------------------------------------------------------
# the individual checks (each is a closure-free function taking no args; order is shuffled later)
# ----------------------------------------------------------------------------------------------------------
def t_sphere_hard(n=40):
    for _ in range(n):
        shape = rand_shape(hi=40)
        c = rand_center(shape) if rng.random() < 0.8 else None
        r = [None, 1, 2, int(rng.integers(1, shape.max() + 8)), int(rng.integers(1, 12))][rng.integers(0, 5)]
        kw = {}
        if c is not None:
            kw["center"] = vary_container(c)
        if r is not None or rng.random() < 0.5:
            kw["radius"] = r
        res = both("spherical_mask", vary_container(shape), **kw)
        check_binary_equals(res, model_sphere(shape, r, c), f"sphere {shape} r={r} c={c}")
    # cubic by a single number, positional arguments
    for s in (6, 7, 16, 33):
        res = both("spherical_mask", s, 3)
        check_binary_equals(res, model_sphere(s, 3, None), f"sphere cubic {s}")
        res = both("spherical_mask", s, s, [0, 0, s - 1], 0.0, True, None)
        check_binary_equals(res, model_sphere(s, s, [0, 0, s - 1]), f"sphere cubic corner {s}")


def t_sphere_soft(n=14):
    for _ in range(n):
        shape = rand_shape(hi=30)
        c = rand_center(shape)
        r = int(rng.integers(1, shape.max() // 2 + 3))
        g = SIGMAS[rng.integers(0, len(SIGMAS))]
        outw = bool(rng.random() < 0.6)
        res = both("spherical_mask", vary_container(shape), radius=r, center=vary_container(c), gaussian=g, gaussian_outwards=outw)
        check_soft(res, model_sphere(shape, r, c), f"soft sphere {shape} r={r} c={c} g={g} outw={outw}", outw)
        if g == 0:
            check_binary_equals(res, model_sphere(shape, r, c), f"sphere g=0 {shape} r={r} c={c}")


def t_cylinder(n=40):
    for _ in range(n):
        shape = rand_shape(hi=36)
        r = [None, 1, int(rng.integers(1, shape.max() + 5)), int(rng.integers(1, 10))][rng.integers(0, 4)]
        mode = rng.integers(0, 3)
        if mode == 0:  # fits in z
            c = rand_center(shape, 1.0)
            room = int(min(c[2], shape[2] - 1 - c[2]))
            h = int(rng.integers(1, 2 * room + 2)) if room > 0 else 1
        elif mode == 1:  # anything (may not fit -> the original raises)
            c = rand_center(shape, 0.0)
            h = int(rng.integers(1, shape[2] + 10))
        else:
            c = None
            h = None if shape[2] % 2 == 1 and rng.random() < 0.5 else int(rng.integers(1, shape[2]))
        kw = {"radius": r, "height": h}
        if c is not None:
            kw["center"] = vary_container(c)
        res = both("cylindrical_mask", vary_container(shape), **kw)
        if res is not None:
            check_binary_equals(res, model_cylinder(shape, r, h, c), f"cylinder {shape} r={r} h={h} c={c}")
    # positional call, angles given as zeros / None
    res = both("cylindrical_mask", [12, 10, 15], 3, 7, [5, 4, 7], 0, True, np.zeros(3), None)
    check_binary_equals(res, model_cylinder([12, 10, 15], 3, 7, [5, 4, 7]), "cylinder positional")


def t_cylinder_soft(n=12):
    for _ in range(n):
        shape = rand_shape(lo=20, hi=36)
        c = shape // 2 + rng.integers(-1, 2, size=3)
        r = int(rng.integers(1, 8))
        h = int(rng.integers(1, 7))
        g = [0.4, 1, 1.0, 0.8, 0.0][rng.integers(0, 5)]
        outw = bool(rng.random() < 0.7)
        res = both("cylindrical_mask", vary_container(shape), radius=r, height=h, center=vary_container(c), gaussian=g, gaussian_outwards=outw)
        check_soft(res, model_cylinder(shape, r, h, c), f"soft cylinder {shape} r={r} h={h} c={c} g={g} outw={outw}", outw)
    both("cylindrical_mask", [16, 16, 16], radius=3, height=9, gaussian=3.0)  # does not fit: raises in both


def t_ellipsoid(n=30):
    for _ in range(n):
        shape = rand_shape(even=True, hi=34)
        c = rand_center(shape) if rng.random() < 0.8 else None
        radii = np.array([int(rng.integers(1, s + 4)) if rng.random() < 0.3 else int(rng.integers(1, max(2, s // 2 + 1))) for s in shape])
        kw = {"radii": vary_container(radii)}
        if c is not None:
            kw["center"] = vary_container(c)
        res = both("ellipsoid_mask", vary_container(shape), **kw)
        if res is None:
            continue
        COUNT["analytic"] += 1
        inside, boundary = model_ellipsoid_exact(shape, 2 * radii, c)
        resb = np.asarray(res, dtype=float) == 1.0
        if res.dtype != bool:
            fail(f"hard ellipsoid is not boolean for {shape} {radii}")
        if (inside & ~resb).any() or (resb & ~(inside | boundary)).any():
            fail(f"ellipsoid membership differs from the analytic inequality for {shape} radii={radii} c={c}")
        # boundary voxels along the axes are exactly representable: they must be inside
        cc = as3(c) if c is not None else shape // 2
        for ax in range(3):
            for sgn in (-1, 1):
                p = cc.copy()
                p[ax] += sgn * radii[ax]
                if 0 <= p[ax] < shape[ax] and not resb[tuple(p)]:
                    fail(f"ellipsoid axis end point {p} missing for {shape} radii={radii} c={c}")
    res = both("ellipsoid_mask", [12, 14, 16])  # default radii = half box
    res = both("ellipsoid_mask", 12, 4, None, 0, None, None, True)  # positional, single numbers
    both("ellipsoid_mask", [12, 14, 16], [3, 4, 5], [6, 7, 8], 0, None, np.zeros(3))


def t_ellipsoid_soft(n=10):
    for _ in range(n):
        shape = rand_shape(even=True, hi=28)
        c = rand_center(shape)
        radii = np.array([int(rng.integers(1, max(2, s // 2))) for s in shape])
        g = SIGMAS[rng.integers(0, len(SIGMAS))]
        outw = bool(rng.random() < 0.6)
        res = both("ellipsoid_mask", vary_container(shape), radii=vary_container(radii), center=vary_container(c), gaussian=g, gaussian_outwards=outw)
        inside, boundary = model_ellipsoid_exact(shape, 2 * radii, c)
        check_soft(res, inside | boundary, f"soft ellipsoid {shape} radii={radii} c={c} g={g} outw={outw}", outw)


def t_shells(n=24):
    for _ in range(n):
        shape = rand_shape(hi=34)
        c = rand_center(shape) if rng.random() < 0.7 else None
        r = [None, int(rng.integers(1, shape.max() + 4)), int(rng.integers(2, 10))][rng.integers(0, 3)]
        th = int(rng.integers(1, 9))
        kw = {}
        if r is not None:
            kw["radius"] = r
        if c is not None:
            kw["center"] = vary_container(c)
        res = both("spherical_shell_mask", vary_container(shape), th, **kw)
        rr = int(shape.min()) // 2 if r is None else r
        model = model_sphere(shape, rr + th / 2, c) & ~model_sphere(shape, rr - th / 2, c)
        check_binary_equals(res, model, f"spherical shell {shape} r={r} th={th} c={c}")
        g = [0.5, 1, 2.0][rng.integers(0, 3)]
        res = both("spherical_shell_mask", vary_container(shape), th, gaussian=g, **kw)
        check_soft(res, None, f"soft spherical shell {shape} r={r} th={th} g={g}", False)
    for _ in range(n):
        shape = rand_shape(even=True, hi=30)
        c = rand_center(shape) if rng.random() < 0.7 else None
        th = int(rng.integers(1, 7))
        radii = np.array([int(rng.integers(th // 2 + 1, max(th // 2 + 2, s // 2 + 2))) for s in shape])
        kw = {"radii": vary_container(radii)}
        if c is not None:
            kw["center"] = vary_container(c)
        res = both("ellipsoid_shell_mask", vary_container(shape), th, **kw)
        if res is not None:
            COUNT["analytic"] += 1
            # the two solids are ellipsoid_mask solids, whose radii are whole voxels (half voxels are cut off)
            o_in, o_bd = model_ellipsoid_exact(shape, 2 * ((2 * radii + th) // 2), c)
            i_in, i_bd = model_ellipsoid_exact(shape, 2 * ((2 * radii - th) // 2), c)
            resb = np.asarray(res, dtype=float) == 1.0
            must = o_in & ~(i_in | i_bd)
            may = (o_in | o_bd) & ~i_in
            if (must & ~resb).any() or (resb & ~may).any():
                fail(f"ellipsoid shell is not outer solid minus inner solid for {shape} radii={radii} th={th} c={c}")
            # and exactly the difference of the two solids built by the same package
            e1 = cm.ellipsoid_mask(shape, radii=radii + th / 2, center=c)
            e2 = cm.ellipsoid_mask(shape, radii=radii - th / 2, center=c)
            if not np.array_equal(resb, e1 & ~e2):
                fail(f"ellipsoid shell differs from e1 & ~e2 for {shape} radii={radii} th={th}")
        g = [0.5, 1, 2.0][rng.integers(0, 3)]
        res = both("ellipsoid_shell_mask", vary_container(shape), th, gaussian=g, **kw)
        check_soft(res, None, f"soft ellipsoid shell {shape} radii={radii} th={th} g={g}", False)
    both("ellipsoid_shell_mask", [12, 14, 16], 2, [3, 4, 5], None, 0.0, np.zeros(3), None)
    both("spherical_shell_mask", [12, 14, 16], 2, 4, None, 0.0, None)


def t_generate(n=10):
    for _ in range(n):
        r = int(rng.integers(1, 12))
        res = both("generate_mask", f"sphere_r{r}")
        s = math.ceil((2 * r + 4) / 2) * 2
        check_binary_equals(res, model_sphere(s, r, None), f"generate sphere_r{r}")
        e = int(rng.integers(0, 9))
        res = both("generate_mask", f"sphere_r{r}", None, e)
        s = math.ceil((2 * r + e) / 2) * 2
        check_binary_equals(res, model_sphere(s, r, None), f"generate sphere_r{r} expansion {e}")
        ms = int(rng.integers(6, 40))
        res = both("generate_mask", f"sphere_r{r}", mask_size=ms)
        check_binary_equals(res, model_sphere(ms, r, None), f"generate sphere_r{r} size {ms}")

        h = int(rng.integers(1, 20))
        res = both("generate_mask", f"cylinder_r{r}_h{h}")
        s = math.ceil((2 * max(r, h) + 4) / 2) * 2
        check_binary_equals(res, model_cylinder(s, r, h, None), f"generate cylinder_r{r}_h{h}")
        res = both("generate_mask", f"cylinder_r{r}_h{h}", ms)
        if res is not None:
            check_binary_equals(res, model_cylinder(ms, r, h, None), f"generate cylinder_r{r}_h{h} size {ms}")

        th = int(rng.integers(1, 7))
        res = both("generate_mask", f"s_shell_r{r}_s{th}")
        s = math.ceil((2 * max(r, th) + 4) / 2) * 2
        s = math.ceil((s + th) / 2) * 2
        check_binary_equals(res, model_sphere(s, r + th / 2, None) & ~model_sphere(s, r - th / 2, None), f"generate s_shell_r{r}_s{th}")
        res = both("generate_mask", f"s_shell_r{r}_s{th}", mask_size=ms, mask_expansion=2)
        s = math.ceil((ms + th) / 2) * 2
        check_binary_equals(res, model_sphere(s, r + th / 2, None) & ~model_sphere(s, r - th / 2, None), f"generate s_shell size {ms}")

        radii = [int(v) for v in rng.integers(1, 12, size=3)]
        name = "ellipsoid_rx{}_ry{}_rz{}".format(*radii)
        res = both("generate_mask", name)
        s = math.ceil((2 * max(radii) + 4) / 2) * 2
        if res is not None and not np.array_equal(res, cm.ellipsoid_mask(s, radii=radii)):
            fail(f"generate {name} differs from ellipsoid_mask")
        if res is not None:
            COUNT["analytic"] += 1
            inside, boundary = model_ellipsoid_exact(s, 2 * np.array(radii), None)
            if (inside & ~res).any() or (res & ~(inside | boundary)).any():
                fail(f"generate {name} differs from the analytic inequality")
        radii = [int(v) for v in rng.integers(th // 2 + 1, 12, size=3)]
        name = "e_shell_rx{}_ry{}_rz{}_s{}".format(*radii, th)
        res = both("generate_mask", name)
        s = math.ceil((2 * max(radii + [th]) + 4) / 2) * 2
        if res is not None and not np.array_equal(res, cm.ellipsoid_shell_mask(s, th, radii=radii)):
            fail(f"generate {name} differs from ellipsoid_shell_mask")
        both("generate_mask", name, 2 * int(rng.integers(4, 16)))
    for bad in ("sphere_r", "sphere_r-3", "cube_r3", "cylinder_r3", "sphere_r3 ", "", "e_shell_rx1_ry2_rz3"):
        both("generate_mask", bad)
        both("parse_shape_string", bad)
    for good, exp in (("sphere_r10", ("sphere", [10])), ("cylinder_r5_h20", ("cylinder", [5, 20])), ("s_shell_r7_s2", ("s_shell", [7, 2])),
                      ("ellipsoid_rx1_ry2_rz3", ("ellipsoid", [1, 2, 3])), ("e_shell_rx1_ry2_rz3_s4", ("e_shell", [1, 2, 3, 4])), ("sphere_r007", ("sphere", [7]))):
        for rep in range(3):
            res = both("parse_shape_string", good)
            if res != exp or not isinstance(res, tuple) or not isinstance(res[1], list):
                fail(f"parse_shape_string({good!r}) = {res!r}")
            if res is not None:
                res[1].append(99)  # a caller editing the returned list must not affect the next call


def rand_binary(shape, dtype):
    return (rng.random(tuple(shape)) > rng.uniform(0.2, 0.8)).astype(dtype)


def t_algebra(n=30):
    for _ in range(n):
        shape = rng.integers(3, 12, size=3)
        m = int(rng.integers(1, 6))
        dtype = [float, np.float32, float, int, np.int8, bool][rng.integers(0, 6)]
        masks = [rand_binary(shape, dtype) for _ in range(m)]
        if rng.random() < 0.3 and m > 1:
            masks[rng.integers(0, m)] = rand_binary(shape, float)  # mixed types
        if rng.random() < 0.2 and m > 1:
            masks[1] = masks[0]  # the same object twice
        bools = [np.asarray(x).astype(bool) for x in masks]
        OR = np.logical_or.reduce(bools)
        AND = np.logical_and.reduce(bools)
        SUB = bools[0] & ~np.logical_or.reduce(bools[1:]) if m > 1 else bools[0]
        XOR = OR & ~AND
        if m == 2 and not np.array_equal(XOR, bools[0] ^ bools[1]):
            fail("model error")
        for name, model in (("union", OR), ("intersection", AND), ("subtraction", SUB), ("difference", XOR)):
            arg = list(masks) if rng.random() < 0.7 else tuple(masks)
            before = [x.copy() for x in masks]
            res = both(name, arg)
            if res is not None:
                check_binary_equals(res, model, f"{name} of {m} {np.dtype(dtype).name} masks {shape}")
                r = np.asarray(res, dtype=float)
                if r.min() < 0 or r.max() > 1:
                    fail(f"{name} leaves [0,1]")
            # the real objects (not the copies used by both) are untouched by a direct call as well
            try:
                out = getattr(cm, name)(arg, None)
                out[...] = 0.5 if out.dtype.kind == "f" else 0  # writing into the result must not reach the inputs
            except Exception:
                pass
            if any(not equal_objs(x, y) for x, y in zip(masks, before)):
                fail(f"{name} modified its inputs ({np.dtype(dtype).name})")
    # soft masks: results within [0,1], inputs untouched, same as original
    for _ in range(12):
        shape = rng.integers(3, 10, size=3)
        m = int(rng.integers(1, 6))
        masks = [rng.random(tuple(shape)).astype([float, np.float32][rng.integers(0, 2)]) for _ in range(m)]
        if rng.random() < 0.5:
            masks[0] = cm.spherical_mask(shape, radius=2, gaussian=1.0)
        for name in ("union", "intersection", "subtraction", "difference"):
            res = both(name, masks, output_name=None)
            if res is not None and (res.min() < 0 or res.max() > 1):
                fail(f"{name} of soft masks leaves [0,1]")
    both("union", [])
    both("difference", [])
    both("subtraction", [np.ones((3, 3, 3)), np.ones((3, 3, 4))])
    both("intersection", [np.ones((3, 3, 3)), np.ones((3, 3, 4))])


def t_sequences():
    """Second and third calls on the same objects after in-place edits; results of earlier calls stay valid."""
    size = np.array([14, 18, 22])
    center = np.array([7, 9, 11])
    r1 = both("spherical_mask", size, radius=4, center=center)
    keep = r1.copy()
    r1b = cm.spherical_mask(size, radius=4, center=center)
    r1b[...] = 7  # scribble into a returned array
    r1c = both("spherical_mask", size, radius=4, center=center)
    check_binary_equals(r1c, model_sphere(size, 4, center), "sphere after scribbling into an earlier result")
    if not np.array_equal(r1, keep):
        fail("an earlier sphere result changed when a later result was edited")
    center[0] = 3  # edit the centre in place, same object
    r2 = both("spherical_mask", size, radius=4, center=center)
    check_binary_equals(r2, model_sphere(size, 4, [3, 9, 11]), "sphere after centre edited in place")
    size[2] = 12  # edit the size in place
    center[2] = 2
    r3 = both("spherical_mask", size, radius=4, center=center)
    check_binary_equals(r3, model_sphere([14, 18, 12], 4, [3, 9, 2]), "sphere after size edited in place")
    r4 = both("spherical_mask", size, radius=5, center=center)
    check_binary_equals(r4, model_sphere([14, 18, 12], 5, [3, 9, 2]), "sphere after radius changed")
    r5 = both("spherical_mask", size, radius=5, center=center, gaussian=1.0)
    check_soft(r5, model_sphere([14, 18, 12], 5, [3, 9, 2]), "soft sphere in a sequence", True)
    r6 = both("spherical_mask", size, radius=5, center=center)
    check_binary_equals(r6, model_sphere([14, 18, 12], 5, [3, 9, 2]), "hard sphere after a soft one")
    if not np.array_equal(r1, keep):
        fail("an earlier sphere result changed later on")
    # many different boxes, then back to the first ones (cache eviction and refill, if there is a cache)
    seq = [(int(rng.integers(6, 20)), int(rng.integers(6, 20)), int(rng.integers(6, 20))) for _ in range(12)]
    for s in seq + seq[::-1] + seq[:3]:
        c = [s[0] // 3, s[1] // 2, s[2] - 2]
        res = both("spherical_mask", s, radius=3, center=c)
        check_binary_equals(res, model_sphere(s, 3, c), f"sphere sequence {s}")
        res = both("spherical_shell_mask", s, 2, radius=3, center=c)
        check_binary_equals(res, model_sphere(s, 4, c) & ~model_sphere(s, 2, c), f"shell sequence {s}")

    # ellipsoid / cylinder with edited radii objects
    radii = np.array([3, 4, 5])
    for rep in range(3):
        res = both("ellipsoid_mask", [12, 14, 16], radii=radii)
        inside, boundary = model_ellipsoid_exact([12, 14, 16], 2 * radii, None)
        if res is not None and ((inside & ~res).any() or (res & ~(inside | boundary)).any()):
            fail(f"ellipsoid after radii edited in place (rep {rep})")
        res = both("cylindrical_mask", [12, 14, 17], radius=int(radii[0]), height=int(radii[2]))
        check_binary_equals(res, model_cylinder([12, 14, 17], int(radii[0]), int(radii[2]), None), f"cylinder rep {rep}")
        radii += 1

    # algebra: same list object, edited in place between calls
    a = rand_binary((6, 7, 8), float)
    b = rand_binary((6, 7, 8), float)
    lst = [a, b]
    for rep in range(3):
        bools = [x.astype(bool) for x in lst]
        OR = np.logical_or.reduce(bools)
        AND = np.logical_and.reduce(bools)
        SUB = bools[0] & ~np.logical_or.reduce(bools[1:])
        order = ["union", "intersection", "subtraction", "difference"]
        rng.shuffle(order)
        for name in order:
            model = {"union": OR, "intersection": AND, "subtraction": SUB, "difference": OR & ~AND}[name]
            before = [x.copy() for x in lst]
            res = getattr(cm, name)(lst)
            check_binary_equals(res, model, f"{name} in sequence rep {rep}")
            if not equal_objs(res, ORIG[name]([x.copy() for x in lst])):
                fail(f"{name} differs from original in sequence rep {rep}")
            if any(not np.array_equal(x, y) for x, y in zip(lst, before)):
                fail(f"{name} modified its inputs in sequence rep {rep}")
            res[...] = 0.25
        a[rng.integers(0, 6), :, :] = 1.0  # edit a mask in place
        b[:, rng.integers(0, 7), :] = 0.0
        lst.append(rand_binary((6, 7, 8), float))  # and the list itself

    # helpers
    for radius, g, outw in itertools.product([0, 1, 3, 8, 2.5, np.array([3, 4, 5]), np.array([2.5, 3.0, 1.0])], SIGMAS + [0.12, 0.59, 0.97], [True, False]):
        res = both("preprocess_params", radius, g, outw)
        exp = np.ceil(np.asarray(radius) + g * 5.0).astype(int) if (g != 0 and outw) else radius
        if res is not None and not np.array_equal(np.asarray(res), np.asarray(exp)):
            fail(f"preprocess_params({radius},{g},{outw}) = {res}")
    m = rand_binary((6, 7, 8), float)
    for g in SIGMAS:
        both("add_gaussian", m, g)
        both("postprocess", m, g, None, None)
        both("postprocess", m, g, np.zeros(3), None)
        both("postprocess", m, g, [0, 0, 0], None)
    if cm.add_gaussian(m, 0) is not m or cm.postprocess(m, 0, None, None) is not m:
        fail("sigma 0 / no rotation no longer hands back the very same array")
    for v, ref in ((5, None), ([4, 5, 6], None), ((7,), None), (np.array([1, 2, 3]), None), (None, 9), (None, [8, 9, 11]), ([1, 2], None), (None, None), (2.7, None), (None, np.array([6, 7, 9]))):
        both("get_correct_format", v, ref)
        both("get_correct_format", v, reference_size=ref)


def t_extra(n=None):
    """Change c (fold / finalize helpers behind union, intersection, subtraction, difference): more element types,
    masks given as files and as arrays mixed, results written to files, the accumulator never aliases an input."""
    import tempfile

    names = ("union", "intersection", "subtraction", "difference")
    shape = (5, 6, 7)
    # every pair of element types
    types = [float, np.float32, np.float16, int, np.int8, np.uint8, bool]
    for t1 in types:
        for t2 in types:
            a, b = rand_binary(shape, t1), rand_binary(shape, t2)
            for name in names:
                res = both(name, [a, b])
                # (an unsigned accumulator wraps around below zero, already in the original: only compared with it)
                if res is not None and not (name == "subtraction" and t1 is np.uint8):
                    A, B = a.astype(bool), b.astype(bool)
                    model = {"union": A | B, "intersection": A & B, "subtraction": A & ~B, "difference": A ^ B}[name]
                    check_binary_equals(res, model, f"{name} {np.dtype(t1).name},{np.dtype(t2).name}")
    # aliasing: result is never one of the inputs, inputs keep their values also for a single mask
    for t in (float, np.float32, int):
        a = rand_binary(shape, t)
        keep = a.copy()
        for name in names:
            res = getattr(cm, name)([a])
            if res is a or np.shares_memory(res, a):
                fail(f"{name}([a]) hands back the caller's array")
            res[...] = 1 - res
            if not np.array_equal(a, keep):
                fail(f"{name}([a]) changed a")
            res = getattr(cm, name)([a, a, a])
            if not np.array_equal(a, keep):
                fail(f"{name}([a,a,a]) changed a")
            exp = {"union": keep, "intersection": keep, "subtraction": np.zeros(shape), "difference": np.zeros(shape)}[name]
            if not np.array_equal(np.asarray(res, dtype=float), np.asarray(exp, dtype=float)):
                fail(f"{name}([a,a,a]) wrong")
    # non-contiguous views, read-only inputs
    base = rand_binary((10, 12, 14), float)
    v1, v2 = base[::2, ::2, ::2], base[1::2, 1::2, 1::2].copy()
    v2.setflags(write=False)
    for name in names:
        res = both(name, [v1, v2])
        res = both(name, [v2, v1])
        res = both(name, (v2, v1, v2))
    # files: masks given by path (mrc and em), mixed with arrays; results written out and read back
    with tempfile.TemporaryDirectory() as d:
        ms = [rand_binary(shape, np.float32) for _ in range(3)]
        p_mrc = os.path.join(d, "m0.mrc")
        p_em = os.path.join(d, "m1.em")
        cryomap.write(ms[0], p_mrc, data_type=np.single)
        cryomap.write(ms[1], p_em, data_type=np.single)
        bools = [x.astype(bool) for x in ms]
        for lst, bl in (([p_mrc, p_em, ms[2]], bools), ([ms[2], p_mrc], [bools[2], bools[0]]), ([ms[1], p_em, p_em], [bools[1]] * 3), ([p_em, ms[0]], [bools[1], bools[0]]), ([p_mrc], [bools[0]])):
            OR, AND = np.logical_or.reduce(bl), np.logical_and.reduce(bl)
            SUB = bl[0] & ~np.logical_or.reduce(bl[1:]) if len(bl) > 1 else bl[0]
            for name, model in zip(names, (OR, AND, SUB, OR & ~AND)):
                for ext in (".mrc", ".em"):
                    out_new = os.path.join(d, "new_" + name + ext)
                    out_old = os.path.join(d, "old_" + name + ext)
                    r_new = run(getattr(cm, name), (list(lst), out_new), {})
                    r_old = run(ORIG[name], (list(lst), out_old), {})
                    COUNT["compared"] += 1
                    if r_new[0] != r_old[0] or (r_new[0] == "exc" and r_new[1] != r_old[1]):
                        fail(f"{name} on files: outcome differs from original ({r_new} / {r_old})"[:300])
                        continue
                    if r_new[0] == "exc":
                        COUNT["raised"] += 1
                        if os.path.exists(out_new) != os.path.exists(out_old):
                            fail(f"{name} on files: only one of the two wrote a file")
                        continue
                    if not equal_objs(r_new[1], r_old[1]):
                        fail(f"{name} on files: result differs from original")
                    check_binary_equals(r_new[1], model, f"{name} on files {ext}")
                    f_new, f_old = cryomap.read(out_new), cryomap.read(out_old)
                    if not equal_objs(np.array(f_new), np.array(f_old)) or not np.array_equal(np.array(f_new) == 1.0, model):
                        fail(f"{name}: written file differs")
        # the files themselves are untouched
        if not np.array_equal(cryomap.read(p_mrc), ms[0]) or not np.array_equal(cryomap.read(p_em), ms[1]):
            fail("mask files changed")
    # soft masks built by the package: union/intersection of a solid with its own blurred version
    hard = cm.spherical_mask([12, 12, 12], radius=3)
    soft = cm.spherical_mask([12, 12, 12], radius=3, gaussian=1.0)
    for name in names:
        for lst in ([hard, soft], [soft, hard], [soft, soft, hard], [soft]):
            res = both(name, lst)
            if res is not None and (res.min() < 0 or res.max() > 1):
                fail(f"{name} of soft masks leaves [0,1]")


def main():
    tests = [t_sphere_hard, t_sphere_soft, t_cylinder, t_cylinder_soft, t_ellipsoid, t_ellipsoid_soft, t_shells, t_generate, t_algebra, t_sequences, t_extra]
    # first pass in a fixed order, second pass (fewer samples) in a shuffled order: calls in different orders
    for t in tests:
        t()
    order = list(tests)
    rng.shuffle(order)
    for t in order:
        if t in (t_sequences, t_extra):
            t()
        else:
            t(6)
    print(f"compared with original: {COUNT['compared']} calls ({COUNT['raised']} raising in both), analytic checks: {COUNT['analytic']}")
    if FAILS:
        print(f"FAIL ({len(FAILS)} problems)")
        sys.exit(1)
    print("PASS")
    sys.exit(0)


if __name__ == "__main__":
    main()
